package main

import (
	"errors"
	"fmt"
	"os"
	"regexp"
	"sort"
	"strings"

	"verif/mon"
	"verif/ref/refdb"

	"github.com/btcsuite/btcd/database"
	"github.com/btcsuite/btcd/database/ffldb"
	"github.com/btcsuite/btcd/wire/v2"
)

// cfg is the configuration of one program (one database lifetime).
type cfg struct {
	MaxFile    uint32 `json:"max_file"`
	CacheBytes uint64 `json:"cache_bytes"`
	FlushSecs  uint32 `json:"flush_secs"`
	Collide    bool   `json:"collide"`      // also generate key/bucket name collisions (contract corner)
	CurMut     bool   `json:"cur_mut"`      // cursor scripts reposition after Cursor.Delete / Put behind the cursor
	CurRev     bool   `json:"cur_rev"`      // cursor scripts change direction
	CurSeekBkt bool   `json:"cur_seek_bkt"` // cursor scripts Seek beyond the last value key
	NTx        int    `json:"ntx"`
	MaxOps     int    `json:"max_ops"`
	Reopen     bool   `json:"reopen"`
	Prune      bool   `json:"prune"`
	Snaps      bool   `json:"snaps"`
	Panics     bool   `json:"panics"`
	BlockW     int    `json:"block_weight"` // weight of block-store operations
	PruneW     int    `json:"prune_weight"` // extra weight of PruneBlocks
	NoCorners  bool   `json:"no_corners"`   // skip the contract-corner requests (empty keys, regions just past the end): the fault / crash families leave them to seq
}

const never = 1 << 30 // flush interval that never elapses

func randCfg(r *mon.Rand) cfg {
	c := cfg{NTx: r.Range(8, 40), MaxOps: r.Range(2, 14), Reopen: true, Snaps: true, Panics: true}
	c.MaxFile = []uint32{2048, 2048, 4096, 16384, 1 << 20}[r.Intn(5)]
	switch r.Intn(4) {
	case 0: // every commit flushed
		c.CacheBytes, c.FlushSecs = 100<<20, 0
	case 1: // size driven, flushes whenever the cache is not empty
		c.CacheBytes, c.FlushSecs = 0, never
	case 2: // size driven, small cache
		c.CacheBytes, c.FlushSecs = uint64(r.Range(300, 4000)), never
	default: // never until close
		c.CacheBytes, c.FlushSecs = 100<<20, never
	}
	c.Collide = r.Chance(1, 10)
	c.CurMut = r.Chance(1, 5)
	c.CurRev = r.Chance(1, 5)
	c.CurSeekBkt = r.Chance(1, 5)
	c.Prune = r.Chance(1, 2)
	c.BlockW = []int{0, 3, 10, 25}[r.Intn(4)]
	return c
}

var alphabet = []string{"", "a", "b", "ab", "idx", "\x00", "\xff", "\xff\xff", "a\x00", strings.Repeat("k", 300)}

var errUser = errors.New("user error (requested rollback)")
var errStop = errors.New("stop iteration")

type snapshot struct {
	tx   database.Tx
	m    *refdb.Tx
	skip map[refdb.Hash]bool // blocks physically pruned after the snapshot was taken
}

// engine runs one adaptive random program against the real store and the model.
type engine struct {
	rep    reporter
	r      *mon.Rand
	cfg    cfg
	dir    string
	db     database.DB
	m      *refdb.DB
	blocks []*blk
	serial int
	oplog  []string
	failed bool
	states []*refdb.State // states[i] = committed state after i commits
	snaps  []*snapshot
	sig    uint64
	nOps   int64
	cp     string // counter prefix (family)

	trace *syncTrace
	hook  func(ffldb.VerifEvent) error // fault / crash / delay layer, may be nil

	prunes        int  // committed transactions that pruned block files
	verifying     bool // harness-side verification reads in progress: not program I/O
	layoutUnknown bool // flat-file layout no longer predictable (after a fault / crash)

	faults int // number of faults injected so far (maintained by the hook owner)
	// rolledBack counts the resynchronisations after a failed close / reopen in which acknowledged but not yet durable
	// commits were (legitimately) lost: the indices of states no longer equal the number of acknowledged commits
	rolledBack int
	inCommit   bool // a commit (or close) is in flight
	onAck      func()
	note       func(string) // client-boundary log (crash child): commit-begin / commit-ack / ...
}

func newEngine(rep reporter, r *mon.Rand, c cfg, dir string) *engine {
	e := &engine{rep: rep, r: r, cfg: c, dir: dir}
	e.m = refdb.New(c.MaxFile)
	e.states = []*refdb.State{e.m.S}
	return e
}

var longK = regexp.MustCompile(`k{20,}`)

// compact shortens the 300-byte key of the alphabet in logs and details.
func compact(s string) string {
	return longK.ReplaceAllStringFunc(s, func(m string) string { return fmt.Sprintf("k*%d", len(m)) })
}

var debugLog = os.Getenv("VERIF_C05_DEBUG") != ""

func (e *engine) logf(f string, a ...any) {
	e.oplog = append(e.oplog, compact(fmt.Sprintf(f, a...)))
	if debugLog {
		fmt.Fprintln(os.Stderr, e.oplog[len(e.oplog)-1])
	}
	if len(e.oplog) > 50 {
		e.oplog = e.oplog[len(e.oplog)-50:]
	}
}

// fail records a violation; diverged=true means real and model state may differ
// from here on, so the program stops.
func (e *engine) fail(key, detail string, diverged bool) {
	e.rep.Fail(key, compact(detail)+"\nlast ops: "+strings.Join(e.oplog, " ; "))
	if diverged {
		e.failed = true
	}
}

func (e *engine) cb(ev ffldb.VerifEvent) error {
	if e.trace != nil {
		e.trace.on(ev)
	}
	if e.hook != nil && !e.verifying {
		return e.hook(ev)
	}
	return nil
}

// realDump takes the whole-store picture without exposing the reads to the
// fault / crash layer.
func (e *engine) realDump(tx database.Tx) (*dump, error) {
	old := e.verifying
	e.verifying = true
	defer func() { e.verifying = old }()
	return dumpReal(tx, e.blocks)
}

func (e *engine) open(create bool) error {
	var db database.DB
	var err error
	if create {
		db, err = database.Create("ffldb", e.dir, wire.MainNet)
	} else {
		db, err = database.Open("ffldb", e.dir, wire.MainNet)
	}
	if err != nil {
		return err
	}
	ffldb.VerifSetLimits(db, e.cfg.MaxFile, e.cfg.CacheBytes, e.cfg.FlushSecs)
	ffldb.VerifInterpose(db, e.cb)
	e.db = db
	return nil
}

func (e *engine) pushState() {
	e.states = append(e.states, e.m.S)
	if e.onAck != nil {
		e.onAck()
	}
}

// count adds to a coverage counter of the family that owns this engine.
func (e *engine) count(name string, n int64) {
	p := e.cp
	if p == "" {
		p = "seq"
	}
	e.rep.Count(p+"."+name, n)
}

func (e *engine) mark(s string) {
	if e.note != nil {
		e.note(s)
	}
}

// ---------------------------------------------------------------------------
// program

func (e *engine) run() {
	if err := e.open(true); err != nil {
		e.fail("open:create-failed", err.Error(), true)
		return
	}
	e.loop()
}

// resume continues on an already opened database whose content equals the
// model's committed state (after a recovered crash).
func (e *engine) resume(db database.DB) {
	ffldb.VerifSetLimits(db, e.cfg.MaxFile, e.cfg.CacheBytes, e.cfg.FlushSecs)
	ffldb.VerifInterpose(db, e.cb)
	e.db = db
	e.loop()
}

func (e *engine) loop() {
	for i := 0; i < e.cfg.NTx && !e.failed; i++ {
		w := []int{60, 12, 0, 0, 0, 0}
		if e.cfg.Snaps {
			if len(e.snaps) < 2 {
				w[2] = 6
			}
			if len(e.snaps) > 0 {
				w[3], w[4] = 9, 4
			}
		}
		if e.cfg.Reopen {
			w[5] = 5
		}
		switch e.r.PickW(w) {
		case 0:
			e.writeTx()
		case 1:
			e.viewTx()
		case 2:
			e.snapOpen()
		case 3:
			e.snapCheck(e.snaps[e.r.Intn(len(e.snaps))], e.r.Chance(1, 3))
		case 4:
			e.snapClose(e.r.Intn(len(e.snaps)))
		case 5:
			e.closeReopen()
		}
	}
	e.finish()
}

func (e *engine) finish() {
	if e.failed {
		e.abandon()
		return
	}
	for len(e.snaps) > 0 && !e.failed {
		e.snapCheck(e.snaps[0], true)
		e.snapClose(0)
	}
	if !e.failed {
		e.verifyFull("final")
	}
	if !e.failed {
		e.closeReopen()
	}
	if !e.failed {
		e.verifyFull("after-reopen")
	}
	e.abandon()
}

// abandon releases everything without judging.
func (e *engine) abandon() {
	for _, s := range e.snaps {
		func() {
			defer func() { _ = recover() }()
			_ = s.tx.Rollback()
		}()
	}
	e.snaps = nil
	if e.db != nil {
		_ = e.db.Close()
		e.db = nil
	}
}

func (e *engine) verifyFull(where string) {
	if e.db == nil {
		return
	}
	var cls, det string
	err := e.db.View(func(tx database.Tx) error {
		d, err := e.realDump(tx)
		if err != nil {
			return err
		}
		cls, det = diffDump(d, dumpModel(e.m.S, e.blocks), nil)
		return nil
	})
	e.count("fullcompare", 1)
	if err != nil {
		e.fail("state:"+where+":dump-error:"+codeOf(err), err.Error(), true)
		return
	}
	if cls != "" {
		e.fail("state:"+where+":"+cls, det, true)
	}
}

func (e *engine) closeReopen() {
	// a close would wait forever for open snapshots (single goroutine): end them first
	for len(e.snaps) > 0 {
		e.snapClose(0)
	}
	if e.failed {
		return
	}
	f0 := e.faults
	e.inCommit = true
	e.mark("close-begin")
	err := e.db.Close()
	e.inCommit = false
	if err == nil {
		e.mark("close-ok")
	} else {
		e.mark("close-fail")
	}
	e.logf("Close=%s", gotStr(codeOf(err)))
	e.count("close", 1)
	faulted := e.faults != f0
	if err != nil && !faulted {
		e.fail("seq:Close:err:got="+codeOf(err), err.Error(), true)
		return
	}
	e.m.Close()
	if e.onAck != nil && err == nil {
		e.onAck()
	}
	// operations on a closed database
	if e.r.Chance(1, 2) {
		_, err := e.db.Begin(e.r.Bool())
		e.expectCode("closed-db:Begin", refdb.Codes{refdb.ErrDbNotOpen}, err, false)
		err = e.db.View(func(database.Tx) error { return nil })
		e.expectCode("closed-db:View", refdb.Codes{refdb.ErrDbNotOpen}, err, false)
		err = e.db.Update(func(database.Tx) error { return nil })
		e.expectCode("closed-db:Update", refdb.Codes{refdb.ErrDbNotOpen}, err, false)
		err = e.db.Close()
		e.expectCode("closed-db:Close", refdb.Codes{refdb.ErrDbNotOpen}, err, false)
	}
	e.db = nil
	if oerr := e.open(false); oerr != nil {
		e.fail("open:reopen-failed:"+codeOf(oerr), oerr.Error(), true)
		return
	}
	e.m.Reopen()
	e.count("reopen", 1)
	if err != nil && faulted {
		// The close failed because of the injected fault: acknowledged but
		// unflushed transactions may be lost; the store must then equal the
		// state after SOME prefix of the committed transactions.
		e.rep.Count("fault.close-failed", 1)
		e.layoutUnknown = true
		e.resyncToPrefix("after-failed-close", 0)
		return
	}
	if e.r.Chance(1, 3) || faulted {
		e.verifyFull("after-reopen")
	}
}

// resyncToPrefix finds the newest committed state the store equals (not older
// than pmin) and continues the program from it.
func (e *engine) resyncToPrefix(where string, pmin int) {
	var got *dump
	err := e.db.View(func(tx database.Tx) error {
		var err error
		got, err = e.realDump(tx)
		return err
	})
	if err != nil {
		e.fail("state:"+where+":dump-error:"+codeOf(err), err.Error(), true)
		return
	}
	firstCls, firstDet := "", ""
	for p := len(e.states) - 1; p >= pmin; p-- {
		cls, det := diffDump(got, dumpModel(e.states[p], e.blocks), nil)
		if cls == "" {
			e.m.S = e.states[p]
			if p+1 < len(e.states) {
				e.rolledBack++
			}
			e.states = e.states[:p+1]
			e.rep.Count("fault.resync", 1)
			return
		}
		if firstCls == "" || diffRank(cls) >= diffRank(firstCls) {
			firstCls, firstDet = cls, fmt.Sprintf("(prefix %d) %s", p, det)
		}
	}
	if e.prunes > 0 && strings.HasPrefix(firstCls, "block-") {
		firstCls += ":store-was-pruned"
	}
	e.fail("state:"+where+":no-prefix-matches:"+firstCls,
		fmt.Sprintf("store equals no committed prefix in [%d,%d]; closest: %s", pmin, len(e.states)-1, firstDet), true)
}

// expectCode compares an error with the acceptable contract codes.
func (e *engine) expectCode(what string, want refdb.Codes, err error, diverges bool) bool {
	got := codeOf(err)
	e.sig = mon.Sig(e.sig, what, got)
	if accepts(want, got) {
		return true
	}
	detail := fmt.Sprintf("%s returned %s, contract requires %s", what, gotStr(got), want)
	if err != nil {
		detail += " (" + err.Error() + ")"
	}
	e.fail("seq:"+what+":err:got="+gotStr(got)+",want="+want.String(), detail, diverges)
	return false
}

// ---------------------------------------------------------------------------
// transactions

func (e *engine) writeTx() {
	kinds := []int{40, 12, 25, 12, 0}
	if e.cfg.Panics {
		kinds[4] = 2
	}
	kind := e.r.PickW(kinds)
	mtx, _ := e.m.Begin(true)
	nops := e.r.Range(1, e.cfg.MaxOps)
	names := []string{"Update", "Update-usererr", "Begin-Commit", "Begin-Rollback", "Update-panic"}
	e.logf("[%s", names[kind])
	e.count("tx."+names[kind], 1)
	var stale database.Tx
	f0 := e.faults
	switch kind {
	case 0, 1, 4:
		panicked := false
		var err error
		func() {
			defer func() {
				if p := recover(); p != nil {
					if kind != 4 {
						panic(p)
					}
					panicked = true
				}
			}()
			err = e.db.Update(func(tx database.Tx) error {
				stale = tx
				c := &txctx{e: e, tx: tx, m: mtx}
				c.ops(nops)
				if e.failed {
					return errUser
				}
				switch kind {
				case 1:
					return errUser
				case 4:
					if e.r.Bool() {
						_ = tx.Commit()
					} else {
						_ = tx.Rollback()
					}
					e.fail("seq:managed-tx:commit-or-rollback-did-not-panic", "Commit/Rollback on a managed transaction returned", true)
					return errUser
				}
				e.inCommit = true
				e.mark("commit-begin")
				return nil
			})
		}()
		e.inCommit = false
		if e.failed {
			mtx.Abandon()
			return
		}
		switch kind {
		case 0:
			e.afterCommit("Update", err, mtx, f0)
		case 1:
			if err != errUser {
				e.fail("seq:Update:user-error-not-returned", fmt.Sprintf("Update returned %v instead of the callback's error", err), true)
			}
			mtx.Rollback()
		case 4:
			if !panicked {
				e.fail("seq:managed-tx:no-panic", "no panic propagated out of Update", true)
			}
			mtx.Rollback()
		}
	case 2, 3:
		tx, err := e.db.Begin(true)
		if err != nil {
			e.fail("seq:Begin:err:got="+codeOf(err), err.Error(), true)
			return
		}
		stale = tx
		c := &txctx{e: e, tx: tx, m: mtx}
		c.ops(nops)
		if e.failed {
			_ = tx.Rollback()
			mtx.Abandon()
			return
		}
		if kind == 2 {
			e.inCommit = true
			e.mark("commit-begin")
			err = tx.Commit()
			e.inCommit = false
			e.afterCommit("Commit", err, mtx, f0)
		} else {
			err = tx.Rollback()
			e.expectCode("Rollback", mtx.Rollback(), err, true)
		}
	}
	e.logf("]")
	if !e.failed && stale != nil && e.r.Chance(1, 6) {
		e.staleOps(stale)
	}
}

func (e *engine) afterCommit(what string, err error, mtx *refdb.Tx, f0 int) {
	if err == nil {
		e.mark("commit-ack")
	} else {
		e.mark("commit-fail")
	}
	pruned := mtx.PrunedInTx()
	var before map[refdb.Hash]*refdb.BlockRec
	if pruned {
		before = e.m.S.Blocks
	}
	if e.faults != f0 {
		// An I/O fault was injected during this transaction's commit.
		e.logf("%s(faulted)=%s", what, gotStr(codeOf(err)))
		e.layoutUnknown = true
		if err != nil {
			mtx.Abandon()
			e.rep.Count("fault.commit-failed", 1)
		} else {
			mtx.Commit()
			e.pushState()
			e.rep.Count("fault.commit-succeeded", 1)
			if pruned {
				e.prunes++
			}
		}
		where := "after-faulted-commit"
		if pruned {
			where += "(tx-pruned)"
		}
		e.verifyFaultState(where)
		return
	}
	if !e.expectCode(what, mtx.CommitCodes(), err, true) {
		mtx.Abandon()
		return
	}
	mtx.Commit()
	e.pushState()
	e.count("commit", 1)
	if pruned {
		e.prunes++
		for h, old := range before {
			// gone, or stored again after its file was deleted
			if now, ok := e.m.S.Blocks[h]; !ok || now.Seq != old.Seq {
				for _, s := range e.snaps {
					s.skip[h] = true
				}
			}
		}
	}
}

// verifyFaultState is verifyFull with the fault-specific violation keys.
func (e *engine) verifyFaultState(where string) {
	var cls, det string
	err := e.db.View(func(tx database.Tx) error {
		d, err := e.realDump(tx)
		if err != nil {
			return err
		}
		cls, det = diffDump(d, dumpModel(e.m.S, e.blocks), nil)
		return nil
	})
	e.rep.Count("fault.statecheck", 1)
	if err != nil {
		e.fail("state:"+where+":dump-error:"+codeOf(err), err.Error(), true)
		return
	}
	if cls != "" {
		e.fail("state:"+where+":"+cls, det, true)
	}
}

func (e *engine) viewTx() {
	mtx, _ := e.m.Begin(false)
	e.logf("[View")
	e.count("tx.View", 1)
	var stale database.Tx
	userErr := e.r.Chance(1, 5)
	err := e.db.View(func(tx database.Tx) error {
		stale = tx
		c := &txctx{e: e, tx: tx, m: mtx, ro: true}
		c.ops(e.r.Range(1, e.cfg.MaxOps))
		if userErr {
			return errUser
		}
		return nil
	})
	mtx.Rollback()
	e.logf("]")
	if e.failed {
		return
	}
	if userErr && err != errUser {
		e.fail("seq:View:user-error-not-returned", fmt.Sprintf("View returned %v", err), false)
	}
	if !userErr && err != nil {
		e.fail("seq:View:err:got="+codeOf(err), err.Error(), false)
	}
	if stale != nil && e.r.Chance(1, 8) {
		e.staleOps(stale)
	}
}

func (e *engine) snapOpen() {
	tx, err := e.db.Begin(false)
	if err != nil {
		e.fail("seq:Begin(false):err:got="+codeOf(err), err.Error(), true)
		return
	}
	mtx, _ := e.m.Begin(false)
	e.snaps = append(e.snaps, &snapshot{tx: tx, m: mtx, skip: map[refdb.Hash]bool{}})
	e.logf("snap-open")
	e.count("snapshot.open", 1)
}

func (e *engine) snapCheck(s *snapshot, full bool) {
	e.logf("[snap-check")
	c := &txctx{e: e, tx: s.tx, m: s.m, ro: true, skip: s.skip, snap: true}
	c.ops(e.r.Range(1, 6))
	if full && !e.failed {
		d, err := e.realDump(s.tx)
		if err != nil {
			e.fail("snapshot:dump-error:"+codeOf(err), err.Error(), true)
		} else if cls, det := diffDump(d, dumpModel(s.m.S, e.blocks), s.skip); cls != "" {
			e.fail("snapshot:changed-by-later-commit:"+cls, det, true)
		}
		if s.m.S != e.m.S {
			e.count("snapshot.fullcheck-stale", 1)
		}
		e.count("snapshot.fullcheck", 1)
	}
	e.logf("]")
}

func (e *engine) snapClose(i int) {
	s := e.snaps[i]
	e.snaps = append(e.snaps[:i], e.snaps[i+1:]...)
	var err error
	if e.r.Chance(1, 4) {
		// Commit on a read-only transaction: error, and the transaction is closed.
		err = s.tx.Commit()
		e.expectCode("Commit(read-only)", s.m.CommitCodes(), err, false)
		s.m.Commit()
		err = s.tx.Rollback()
		e.expectCode("Rollback(after-commit)", s.m.Rollback(), err, false)
	} else {
		err = s.tx.Rollback()
		e.expectCode("Rollback(read-only)", s.m.Rollback(), err, false)
	}
	e.logf("snap-close")
}

// staleOps uses a transaction handle after it was closed: everything must fail
// with ErrTxClosed (or return the documented zero value).
func (e *engine) staleOps(tx database.Tx) {
	closed := refdb.Codes{refdb.ErrTxClosed}
	e.logf("stale-handle-ops")
	e.count("stale", 1)
	b := tx.Metadata()
	if b == nil {
		return
	}
	switch e.r.Intn(6) {
	case 0:
		e.expectCode("closed-tx:Put", closed, b.Put([]byte("a"), []byte("x")), false)
		if v := b.Get([]byte("a")); v != nil {
			e.fail("seq:closed-tx:Get:non-nil", "Get on a closed transaction returned "+hx(v), false)
		}
		e.expectCode("closed-tx:Delete", closed, b.Delete([]byte("a")), false)
	case 1:
		_, err := b.CreateBucket([]byte("zz"))
		e.expectCode("closed-tx:CreateBucket", closed, err, false)
		_, err = b.CreateBucketIfNotExists([]byte("zz"))
		e.expectCode("closed-tx:CreateBucketIfNotExists", closed, err, false)
		e.expectCode("closed-tx:DeleteBucket", closed, b.DeleteBucket([]byte("a")), false)
		if nb := b.Bucket([]byte("a")); nb != nil {
			e.fail("seq:closed-tx:Bucket:non-nil", "Bucket() on a closed transaction returned a bucket", false)
		}
	case 2:
		e.expectCode("closed-tx:ForEach", closed, b.ForEach(func(k, v []byte) error { return nil }), false)
		e.expectCode("closed-tx:ForEachBucket", closed, b.ForEachBucket(func(k []byte) error { return nil }), false)
		c := b.Cursor()
		if c != nil && (c.First() || c.Last() || c.Next() || c.Prev() || c.Seek([]byte("a")) || c.Key() != nil || c.Value() != nil) {
			e.fail("seq:closed-tx:Cursor:positioned", "cursor on a closed transaction moved or returned data", false)
		}
		if c != nil {
			e.expectCode("closed-tx:Cursor.Delete", closed, c.Delete(), false)
		}
	case 3:
		var h refdb.Hash
		if len(e.blocks) > 0 {
			h = e.blocks[e.r.Intn(len(e.blocks))].h
		}
		_, err := tx.HasBlock(chash(h))
		e.expectCode("closed-tx:HasBlock", closed, err, false)
		_, err = tx.FetchBlock(chash(h))
		e.expectCode("closed-tx:FetchBlock", closed, err, false)
		_, err = tx.FetchBlockHeader(chash(h))
		e.expectCode("closed-tx:FetchBlockHeader", closed, err, false)
		_, err = tx.FetchBlockRegion(&database.BlockRegion{Hash: chash(h), Offset: 0, Len: 4})
		e.expectCode("closed-tx:FetchBlockRegion", closed, err, false)
	case 4:
		nb := newBlock(e.r, 1<<20+e.serial, 100)
		e.serial++
		e.expectCode("closed-tx:StoreBlock", closed, tx.StoreBlock(nb.real), false)
		_, err := tx.PruneBlocks(uint64(e.cfg.MaxFile))
		e.expectCode("closed-tx:PruneBlocks", closed, err, false)
	case 5:
		e.expectCode("closed-tx:Commit", closed, tx.Commit(), false)
		e.expectCode("closed-tx:Rollback", closed, tx.Rollback(), false)
	}
}

// ---------------------------------------------------------------------------
// operations inside a transaction

type txctx struct {
	e    *engine
	tx   database.Tx
	m    *refdb.Tx
	ro   bool
	snap bool
	skip map[refdb.Hash]bool
}

func (c *txctx) ops(n int) {
	e := c.e
	bw := e.cfg.BlockW
	for i := 0; i < n && !e.failed; i++ {
		w := []int{22, 12, 8, 7, 4, 3, 3, 5, 3, 9, 1, // metadata
			bw, bw / 3, bw / 5, bw / 2, bw / 5, bw / 5, bw / 8, bw / 2, bw / 5, 0, 0}
		if bw > 0 {
			w[21] = 1
			if e.cfg.Prune && !c.ro {
				w[20] = 1 + bw/8 + e.cfg.PruneW
			}
		}
		if c.ro {
			// mutators are still attempted now and then: they must be refused
			for _, j := range []int{0, 2, 3, 4, 5, 11} {
				w[j] = (w[j] + 5) / 6
			}
		}
		e.nOps++
		switch e.r.PickW(w) {
		case 0:
			c.opPut()
		case 1:
			c.opGet()
		case 2:
			c.opDelete()
		case 3:
			c.opCreateBucket(false)
		case 4:
			c.opCreateBucket(true)
		case 5:
			c.opDeleteBucket()
		case 6:
			c.opLookupMissing()
		case 7:
			c.opForEach()
		case 8:
			c.opForEachBucket()
		case 9:
			c.opCursor()
		case 10:
			c.opWritable()
		case 11:
			c.opStoreBlock()
		case 12:
			c.opHasBlock()
		case 13:
			c.opHasBlocks()
		case 14:
			c.opFetchBlock()
		case 15:
			c.opFetchBlocks()
		case 16:
			c.opFetchHeader()
		case 17:
			c.opFetchHeaders()
		case 18:
			c.opFetchRegion()
		case 19:
			c.opFetchRegions()
		case 20:
			c.opPrune()
		case 21:
			c.opBeenPruned()
		}
	}
}

// nav picks a bucket path that exists in the model and resolves it on both sides.
func (c *txctx) nav() (database.Bucket, *refdb.Bucket, []string, bool) {
	e := c.e
	var path []string
	mb := c.m.S.Root
	for d := 0; d < 3; d++ {
		subs := mb.SortedSubs()
		if len(subs) == 0 || !e.r.Chance(3, 5) {
			break
		}
		n := subs[e.r.Intn(len(subs))]
		path = append(path, n)
		mb = mb.Subs[n]
	}
	rb := c.tx.Metadata()
	for i, p := range path {
		nb := rb.Bucket([]byte(p))
		if nb == nil {
			e.fail("seq:Bucket:missing", fmt.Sprintf("Bucket(%q) at depth %d returned nil, model has it (path %q)", p, i, path), true)
			return nil, nil, nil, false
		}
		rb = nb
	}
	return rb, mb, path, true
}

func (c *txctx) name(existing []string) string {
	if len(existing) > 0 && c.e.r.Chance(1, 2) {
		return existing[c.e.r.Intn(len(existing))]
	}
	return alphabet[c.e.r.Intn(len(alphabet))]
}

func (c *txctx) value() []byte {
	r := c.e.r
	switch r.Intn(12) {
	case 0:
		return nil
	case 1:
		return []byte{}
	case 2:
		return r.Bytes(r.Range(600, 2500))
	default:
		c.e.serial++
		v := []byte(fmt.Sprintf("v%d-", c.e.serial))
		return append(v, r.Bytes(r.Intn(12))...)
	}
}

func (c *txctx) opPut() {
	e := c.e
	rb, mb, path, ok := c.nav()
	if !ok {
		return
	}
	key := c.name(mb.SortedKeys())
	if _, isSub := mb.Subs[key]; isSub && !e.cfg.Collide {
		return
	}
	val := c.value()
	e.logf("Put(%q,%q,%s)", path, key, hx(val))
	_, isSub := mb.Subs[key]
	want := c.m.Put(mb, key, val)
	err := rb.Put([]byte(key), val)
	what := "Put"
	if isSub && key != "" {
		what = "Put(key-is-bucket-name)"
	} else if key == "" {
		what = "Put(empty-key)"
	}
	e.expectCode(what, want, err, true)
	e.count("op.Put", 1)
}

func (c *txctx) opGet() {
	e := c.e
	rb, mb, path, ok := c.nav()
	if !ok {
		return
	}
	key := c.name(mb.SortedKeys())
	if _, isSub := mb.Subs[key]; isSub {
		// Get on a nested bucket's name: the contract only says "nil if the key
		// does not exist"; a bucket is not a key.
		key = key + "~"
	}
	want := c.m.Get(mb, key)
	got := rb.Get([]byte(key))
	e.logf("Get(%q,%q)=%s", path, key, hx(got))
	e.sig = mon.Sig(e.sig, "Get", got == nil, len(got))
	if !sameVal(got, want) {
		cls := "value"
		if (got == nil) != (want == nil) {
			cls = "nil-ness"
			if want != nil && len(want) == 0 {
				cls = "empty-value-returned-as-nil"
			}
		}
		e.fail("seq:Get:"+cls+c.ctx(), fmt.Sprintf("Get(%q,%q) = %s, model %s", path, key, hx(got), hx(want)), true)
	}
	e.count("op.Get", 1)
}

// ctx qualifies violation keys with the kind of transaction.
func (c *txctx) ctx() string {
	switch {
	case c.snap:
		return ":snapshot"
	case c.ro:
		return ":ro"
	}
	return ":rw"
}

func (c *txctx) opDelete() {
	e := c.e
	rb, mb, path, ok := c.nav()
	if !ok {
		return
	}
	key := c.name(mb.SortedKeys())
	_, isSub := mb.Subs[key]
	if isSub && !e.cfg.Collide {
		return
	}
	if key == "" && e.cfg.NoCorners {
		return
	}
	e.logf("Delete(%q,%q)", path, key)
	want := c.m.Delete(mb, key)
	err := rb.Delete([]byte(key))
	what := "Delete"
	if isSub && key != "" {
		what = "Delete(key-is-bucket-name)"
	} else if key == "" {
		what = "Delete(empty-key)"
	}
	// a refused/ignored delete of "" or of a bucket name changes nothing on either side
	e.expectCode(what, want, err, !(key == "" || isSub))
	e.count("op.Delete", 1)
}

func (c *txctx) opCreateBucket(ifNotExists bool) {
	e := c.e
	rb, mb, path, ok := c.nav()
	if !ok {
		return
	}
	if len(path) >= 3 {
		return
	}
	name := c.name(mb.SortedSubs())
	if _, isKey := mb.Keys[name]; isKey {
		// creating a bucket over an existing key: implementation defined, not generated
		return
	}
	var want refdb.Codes
	var err error
	var nb database.Bucket
	what := "CreateBucket"
	if ifNotExists {
		what = "CreateBucketIfNotExists"
		want = c.m.CreateBucketIfNotExists(mb, name)
		nb, err = rb.CreateBucketIfNotExists([]byte(name))
	} else {
		want = c.m.CreateBucket(mb, name)
		nb, err = rb.CreateBucket([]byte(name))
	}
	e.logf("%s(%q,%q)=%s", what, path, name, gotStr(codeOf(err)))
	if name == "" {
		what += "(empty-name)"
	}
	if !e.expectCode(what, want, err, true) {
		return
	}
	if err == nil && nb == nil {
		e.fail("seq:"+what+":nil-bucket", "no error but nil bucket", true)
	}
	if err == nil && nb != nil && !c.ro && mb.Subs[name] != nil && mb.Subs[name].Subs["a"] == nil && e.r.Chance(1, 3) {
		// use the returned handle right away
		val := c.value()
		e.expectCode("Put(on-returned-bucket)", c.m.Put(mb.Subs[name], "a", val), nb.Put([]byte("a"), val), true)
	}
	e.count("op."+strings.SplitN(what, "(", 2)[0], 1)
}

func (c *txctx) opDeleteBucket() {
	e := c.e
	rb, mb, path, ok := c.nav()
	if !ok {
		return
	}
	name := c.name(mb.SortedSubs())
	e.logf("DeleteBucket(%q,%q)", path, name)
	want := c.m.DeleteBucket(mb, name)
	err := rb.DeleteBucket([]byte(name))
	e.expectCode("DeleteBucket", want, err, true)
	if err == nil && !c.ro {
		if rb.Bucket([]byte(name)) != nil {
			e.fail("seq:DeleteBucket:still-visible", fmt.Sprintf("Bucket(%q) non-nil after DeleteBucket", name), true)
		}
	}
	e.count("op.DeleteBucket", 1)
}

func (c *txctx) opLookupMissing() {
	e := c.e
	rb, mb, path, ok := c.nav()
	if !ok {
		return
	}
	name := alphabet[e.r.Intn(len(alphabet))]
	_, has := mb.Subs[name]
	got := rb.Bucket([]byte(name))
	e.logf("Bucket(%q,%q)", path, name)
	if (got != nil) != has {
		e.fail("seq:Bucket:existence"+c.ctx(), fmt.Sprintf("Bucket(%q/%q) non-nil=%v, model %v", path, name, got != nil, has), true)
	}
	e.count("op.Bucket", 1)
}

type kv struct{ k, v []byte }

func (c *txctx) opForEach() {
	e := c.e
	rb, mb, path, ok := c.nav()
	if !ok {
		return
	}
	root := len(path) == 0
	keys := mb.SortedKeys()
	stopAfter := -1
	if len(keys) > 0 && e.r.Chance(1, 4) {
		stopAfter = e.r.Intn(len(keys)) + 1
	}
	var got []kv
	err := rb.ForEach(func(k, v []byte) error {
		if root && isInternal(k) {
			return nil
		}
		got = append(got, kv{append([]byte{}, k...), append([]byte(nil), v...)})
		if v != nil && len(v) == 0 {
			got[len(got)-1].v = []byte{}
		}
		if len(got) == stopAfter {
			return errStop
		}
		return nil
	})
	e.logf("ForEach(%q)->%d", path, len(got))
	if stopAfter > 0 {
		if err != errStop {
			e.fail("seq:ForEach:callback-error-not-returned", fmt.Sprintf("ForEach returned %v", err), true)
			return
		}
		keys = keys[:stopAfter]
	} else if err != nil {
		e.fail("seq:ForEach:err:got="+codeOf(err), err.Error(), true)
		return
	}
	if len(got) != len(keys) {
		e.fail("seq:ForEach:count"+c.ctx(), fmt.Sprintf("ForEach(%q) visited %d pairs, model %d (%q)", path, len(got), len(keys), keys), true)
		return
	}
	for i, k := range keys {
		if string(got[i].k) != k {
			e.fail("seq:ForEach:order"+c.ctx(), fmt.Sprintf("ForEach(%q) item %d key %q, model %q", path, i, got[i].k, k), true)
			return
		}
		if !sameVal(got[i].v, mb.Keys[k]) {
			e.fail("seq:ForEach:value"+c.ctx(), fmt.Sprintf("ForEach(%q) key %q value %s, model %s", path, k, hx(got[i].v), hx(mb.Keys[k])), true)
			return
		}
	}
	e.sig = mon.Sig(e.sig, "ForEach", len(got))
	e.count("op.ForEach", 1)
}

func (c *txctx) opForEachBucket() {
	e := c.e
	rb, mb, path, ok := c.nav()
	if !ok {
		return
	}
	root := len(path) == 0
	var got []string
	err := rb.ForEachBucket(func(k []byte) error {
		if root && isInternal(k) {
			return nil
		}
		got = append(got, string(k))
		return nil
	})
	e.logf("ForEachBucket(%q)->%d", path, len(got))
	if err != nil {
		e.fail("seq:ForEachBucket:err:got="+codeOf(err), err.Error(), true)
		return
	}
	want := mb.SortedSubs()
	if strings.Join(got, "\x01") != strings.Join(want, "\x01") {
		e.fail("seq:ForEachBucket:names"+c.ctx(), fmt.Sprintf("ForEachBucket(%q) = %q, model %q", path, got, want), true)
	}
	e.count("op.ForEachBucket", 1)
}

func (c *txctx) opWritable() {
	rb, _, _, ok := c.nav()
	if !ok {
		return
	}
	if rb.Writable() == c.ro {
		c.e.fail("seq:Writable", fmt.Sprintf("Writable()=%v on ro=%v transaction", rb.Writable(), c.ro), false)
	}
}

// rcur wraps a real cursor; at the root it steps over ffldb's own entries.
type rcur struct {
	c    database.Cursor
	root bool
}

func (r rcur) skip(ok bool, fwd bool) bool {
	for ok && r.root && isInternal(r.c.Key()) {
		if fwd {
			ok = r.c.Next()
		} else {
			ok = r.c.Prev()
		}
	}
	return ok
}
func (r rcur) First() bool        { return r.skip(r.c.First(), true) }
func (r rcur) Last() bool         { return r.skip(r.c.Last(), false) }
func (r rcur) Next() bool         { return r.skip(r.c.Next(), true) }
func (r rcur) Prev() bool         { return r.skip(r.c.Prev(), false) }
func (r rcur) Seek(k []byte) bool { return r.skip(r.c.Seek(k), true) }

func (c *txctx) opCursor() {
	e := c.e
	rb, mb, path, ok := c.nav()
	if !ok {
		return
	}
	rc := rcur{c: rb.Cursor(), root: len(path) == 0}
	mc := c.m.NewCursor(mb)
	if rc.c == nil {
		e.fail("seq:Cursor:nil", "Cursor() returned nil", true)
		return
	}
	if rc.c.Bucket() == nil {
		e.fail("seq:Cursor:Bucket-nil", "Cursor.Bucket() returned nil inside an open transaction", false)
	}
	steps := e.r.Range(2, 12)
	e.logf("Cursor(%q){", path)
	e.count("op.Cursor", 1)

	// The script is classified by what it has done so far; the class names the
	// violation (they are different mechanisms inside the store):
	//   plain             position + steps in one direction
	//   reversal          a step against the direction of the last positioning
	//   seek-into-buckets a Seek with no value key >= target (lands among buckets), or
	//                     Next steps from a Seek position into the nested buckets
	//   after-mutation    any step after Cursor.Delete / a Put behind the cursor
	// Programs only contain the non-plain kinds when their cfg flag is set.
	class := "plain"
	raise := func(c string) {
		order := map[string]int{"plain": 0, "seek-into-buckets": 1, "reversal": 2, "after-mutation": 3}
		if order[c] > order[class] {
			class = c
		}
	}
	dir := 0           // +1 after First/Seek/Next, -1 after Last/Prev, 0 unpositioned
	mutated := false   // Cursor.Delete or Put-behind happened
	seeked := false    // positioned by Seek, not repositioned by First/Last since
	needRepos := false // after a non-cursor mutation the cursor must be repositioned
	for s := 0; s < steps && !e.failed; s++ {
		var mv int
		switch {
		case dir == 0 && s == 0 && e.r.Chance(1, 6):
			mv = 3 + e.r.Intn(2) // Next / Prev on an unpositioned cursor: false
		case needRepos || dir == 0:
			mv = e.r.Intn(3)
		default:
			mv = e.r.PickW([]int{2, 2, 3, 8, 6, 3, 1})
		}
		// feature gating
		switch mv {
		case 0, 1, 2:
			if mutated && !e.cfg.CurMut {
				continue // no repositioning after a Delete in ordinary programs
			}
		case 3:
			if dir < 0 && !e.cfg.CurRev {
				mv = 4
			}
		case 4:
			if dir > 0 && !e.cfg.CurRev {
				mv = 3
			}
		case 6:
			if !e.cfg.CurMut {
				continue
			}
		}
		var got, want bool
		name := ""
		switch mv {
		case 0:
			name = "First"
			got, want = rc.First(), mc.First()
			dir, seeked = 1, false
		case 1:
			name = "Last"
			got, want = rc.Last(), mc.Last()
			dir, seeked = -1, false
		case 2:
			k := c.name(mb.SortedKeys())
			probe := *mc
			probe.Seek(k)
			if probe.Valid && probe.Pos.IsBucket {
				if !e.cfg.CurSeekBkt {
					continue
				}
				raise("seek-into-buckets")
			}
			name = "Seek"
			e.logf("Seek(%q)", k)
			got, want = rc.Seek([]byte(k)), mc.Seek(k)
			dir, seeked = 1, true
		case 3:
			name = "Next"
			if dir < 0 {
				raise("reversal")
			}
			if seeked {
				// stepping from a Seek position into the nested-bucket region
				probe := *mc
				if probe.Next() && probe.Pos.IsBucket {
					if !e.cfg.CurSeekBkt {
						continue
					}
					raise("seek-into-buckets")
				}
			}
			got, want = rc.Next(), mc.Next()
			if dir != 0 {
				dir = 1
			}
		case 4:
			name = "Prev"
			if dir > 0 {
				raise("reversal")
			}
			got, want = rc.Prev(), mc.Prev()
			if dir != 0 {
				dir = -1
			}
		case 5:
			// Delete through the cursor
			if !mc.Valid || !mc.Exists() {
				continue
			}
			if c.ro && !e.cfg.CurMut {
				continue
			}
			if mc.Pos.IsBucket && !e.r.Chance(1, 3) {
				continue
			}
			what := "Cursor.Delete"
			if mc.Pos.IsBucket {
				what = "Cursor.Delete(on-bucket)"
			} else if c.ro {
				what = "Cursor.Delete(read-only-tx)"
			}
			e.logf("CDelete(%q)", mc.Pos.Name)
			wantc := mc.Delete()
			if e.expectCode(what, wantc, rc.c.Delete(), true) && !wantc.Fails() {
				mutated = true
				raise("after-mutation")
			}
			e.count("op.Cursor.Delete", 1)
			continue
		case 6:
			// mutate the bucket behind the cursor's back: the cursor must be repositioned
			if c.ro {
				continue
			}
			k := c.name(nil)
			if _, isSub := mb.Subs[k]; isSub || k == "" {
				continue
			}
			val := c.value()
			e.logf("Put-behind(%q)", k)
			e.expectCode("Put", c.m.Put(mb, k, val), rb.Put([]byte(k), val), true)
			needRepos, mutated = true, true
			raise("after-mutation")
			continue
		}
		if mv <= 2 {
			needRepos = false
		}
		e.logf("%s=%v@%s", name, got, hx(rc.c.Key()))
		where := fmt.Sprintf("cursor on bucket %q, script class %s, step %s", path, class, name)
		if got != want {
			e.fail("seq:Cursor:"+class+":result"+c.ctx(), fmt.Sprintf("%s returned %v, model %v (model position valid=%v %+v)",
				where, got, want, mc.Valid, mc.Pos), true)
			break
		}
		gk, wk := rc.c.Key(), mc.Key()
		if !sameVal(gk, wk) {
			e.fail("seq:Cursor:"+class+":key"+c.ctx(), fmt.Sprintf("%s: Key()=%s, model %s (model element is bucket=%v)", where, hx(gk), hx(wk), mc.Pos.IsBucket), true)
			break
		}
		gv, wv := rc.c.Value(), mc.Value()
		if !sameVal(gv, wv) {
			e.fail("seq:Cursor:"+class+":value"+c.ctx(), fmt.Sprintf("%s at key %s: Value()=%s, model %s", where, hx(gk), hx(gv), hx(wv)), true)
			break
		}
		e.sig = mon.Sig(e.sig, name, got)
		e.count("op.Cursor.move", 1)
		e.count("cursor."+class, 1)
	}
	e.logf("}")
}

// ---------------------------------------------------------------------------
// block operations

func (c *txctx) pickHash() refdb.Hash {
	e := c.e
	if len(e.blocks) == 0 || e.r.Chance(1, 8) {
		var h refdb.Hash
		e.r.Fill(h[:])
		return h
	}
	return e.blocks[e.r.Intn(len(e.blocks))].h
}

func (c *txctx) opStoreBlock() {
	e := c.e
	var b *blk
	if len(e.blocks) > 0 && e.r.Chance(1, 6) {
		b = e.blocks[e.r.Intn(len(e.blocks))] // duplicate (or pruned earlier: allowed again)
	} else {
		maxSize := int(e.cfg.MaxFile) - 12 - 90
		if maxSize > 3000 {
			maxSize = 3000
		}
		size := 81
		switch e.r.Intn(4) {
		case 0:
			size = e.r.Range(81, 200)
		case 1:
			size = e.r.Range(maxSize*3/4, maxSize)
		default:
			size = e.r.Range(81, maxSize)
		}
		b = newBlock(e.r, e.serial, size)
		e.serial++
		e.blocks = append(e.blocks, b)
	}
	want := c.m.StoreBlock(b.h, b.raw)
	err := c.tx.StoreBlock(b.real)
	e.logf("StoreBlock(%x,%d)=%s", b.h[:4], len(b.raw), gotStr(codeOf(err)))
	e.expectCode("StoreBlock", want, err, true)
	e.count("op.StoreBlock", 1)
}

func (c *txctx) opHasBlock() {
	e := c.e
	h := c.pickHash()
	if c.skip[h] {
		return
	}
	want, _ := c.m.HasBlock(h)
	got, err := c.tx.HasBlock(chash(h))
	e.logf("HasBlock(%x)=%v", h[:4], got)
	if err != nil {
		e.fail("seq:HasBlock:err:got="+codeOf(err), err.Error(), false)
		return
	}
	if got != want {
		e.fail("seq:HasBlock:result"+c.ctx(), fmt.Sprintf("HasBlock(%x)=%v, model %v", h[:6], got, want), true)
	}
	e.count("op.HasBlock", 1)
}

func (c *txctx) hashes() []refdb.Hash {
	n := c.e.r.Range(0, 5)
	var hs []refdb.Hash
	for len(hs) < n {
		h := c.pickHash()
		if !c.skip[h] {
			hs = append(hs, h)
		} else if c.e.r.Chance(1, 3) {
			break
		}
	}
	return hs
}

func (c *txctx) opHasBlocks() {
	e := c.e
	hs := c.hashes()
	arg := make([]chainhashT, len(hs))
	for i, h := range hs {
		arg[i] = chainhashT(h)
	}
	got, err := c.tx.HasBlocks(arg)
	e.logf("HasBlocks(%d)", len(hs))
	if err != nil {
		e.fail("seq:HasBlocks:err:got="+codeOf(err), err.Error(), false)
		return
	}
	if len(got) != len(hs) {
		e.fail("seq:HasBlocks:len", fmt.Sprintf("HasBlocks returned %d results for %d hashes", len(got), len(hs)), false)
		return
	}
	for i, h := range hs {
		want, _ := c.m.HasBlock(h)
		if got[i] != want {
			e.fail("seq:HasBlocks:result"+c.ctx(), fmt.Sprintf("HasBlocks[%d](%x)=%v, model %v", i, h[:6], got[i], want), true)
			return
		}
	}
	e.count("op.HasBlocks", 1)
}

// readResult judges a block read: under an injected fault any error is fine.
func (c *txctx) readResult(what string, f0 int, err error, want refdb.Codes) (compare bool) {
	e := c.e
	if e.faults != f0 && err != nil {
		e.rep.Count("fault.read-failed", 1)
		return false
	}
	if !e.expectCode(what, want, err, false) {
		return false
	}
	return err == nil
}

func (c *txctx) opFetchBlock() {
	e := c.e
	h := c.pickHash()
	if c.skip[h] {
		return
	}
	want, codes := c.m.FetchBlock(h)
	f0 := e.faults
	got, err := c.tx.FetchBlock(chash(h))
	e.logf("FetchBlock(%x)=%s", h[:4], gotStr(codeOf(err)))
	if c.readResult("FetchBlock", f0, err, codes) && string(got) != string(want) {
		e.fail("seq:FetchBlock:bytes"+c.ctx(), fmt.Sprintf("FetchBlock(%x) = %s, stored %s", h[:6], hx(got), hx(want)), true)
	}
	e.count("op.FetchBlock", 1)
}

func (c *txctx) opFetchBlocks() {
	e := c.e
	hs := c.hashes()
	arg := make([]chainhashT, len(hs))
	var codes refdb.Codes
	var want [][]byte
	for i, h := range hs {
		arg[i] = chainhashT(h)
		b, cs := c.m.FetchBlock(h)
		codes = append(codes, cs...)
		want = append(want, b)
	}
	codes = codes.Dedup()
	f0 := e.faults
	got, err := c.tx.FetchBlocks(arg)
	e.logf("FetchBlocks(%d)=%s", len(hs), gotStr(codeOf(err)))
	if c.readResult("FetchBlocks", f0, err, codes) {
		if len(got) != len(want) {
			e.fail("seq:FetchBlocks:len", fmt.Sprintf("%d results for %d hashes", len(got), len(want)), false)
			return
		}
		for i := range want {
			if string(got[i]) != string(want[i]) {
				e.fail("seq:FetchBlocks:bytes"+c.ctx(), fmt.Sprintf("FetchBlocks[%d](%x) = %s, stored %s", i, hs[i][:6], hx(got[i]), hx(want[i])), true)
				return
			}
		}
	}
	e.count("op.FetchBlocks", 1)
}

func (c *txctx) opFetchHeader() {
	e := c.e
	h := c.pickHash()
	if c.skip[h] {
		return
	}
	want, codes := c.m.FetchRegion(refdb.Region{Hash: h, Off: 0, Len: 80})
	f0 := e.faults
	got, err := c.tx.FetchBlockHeader(chash(h))
	e.logf("FetchBlockHeader(%x)=%s", h[:4], gotStr(codeOf(err)))
	if c.readResult("FetchBlockHeader", f0, err, codes) && string(got) != string(want) {
		e.fail("seq:FetchBlockHeader:bytes"+c.ctx(), fmt.Sprintf("FetchBlockHeader(%x) = %s, stored %s", h[:6], hx(got), hx(want)), true)
	}
	e.count("op.FetchBlockHeader", 1)
}

func (c *txctx) opFetchHeaders() {
	e := c.e
	hs := c.hashes()
	arg := make([]chainhashT, len(hs))
	var rs []refdb.Region
	for i, h := range hs {
		arg[i] = chainhashT(h)
		rs = append(rs, refdb.Region{Hash: h, Off: 0, Len: 80})
	}
	want, codes := c.m.FetchRegions(rs)
	f0 := e.faults
	got, err := c.tx.FetchBlockHeaders(arg)
	e.logf("FetchBlockHeaders(%d)=%s", len(hs), gotStr(codeOf(err)))
	if c.readResult("FetchBlockHeaders", f0, err, codes) {
		if len(got) != len(want) {
			e.fail("seq:FetchBlockHeaders:len", fmt.Sprintf("%d results for %d hashes", len(got), len(want)), false)
			return
		}
		for i := range want {
			if string(got[i]) != string(want[i]) {
				e.fail("seq:FetchBlockHeaders:bytes"+c.ctx(), fmt.Sprintf("FetchBlockHeaders[%d](%x) = %s, stored %s", i, hs[i][:6], hx(got[i]), hx(want[i])), true)
				return
			}
		}
	}
	e.count("op.FetchBlockHeaders", 1)
}

// region draws a region request around the boundaries of the block.
func (c *txctx) region(h refdb.Hash) (refdb.Region, string) {
	e := c.e
	n := uint32(100)
	if r, ok := c.m.S.Blocks[h]; ok {
		n = uint32(len(r.Bytes))
	}
	switch e.r.Intn(9) {
	case 0:
		return refdb.Region{Hash: h, Off: 0, Len: n}, "whole"
	case 1: // ends exactly at the end
		off := uint32(e.r.Intn(int(n) + 1))
		return refdb.Region{Hash: h, Off: off, Len: n - off}, "to-end"
	case 2: // ends 1..12 bytes past the end
		off := uint32(e.r.Intn(int(n) + 1))
		return refdb.Region{Hash: h, Off: off, Len: n - off + uint32(e.r.Range(1, 12))}, "past-end<=12"
	case 3: // ends 13.. bytes past the end
		off := uint32(e.r.Intn(int(n) + 1))
		return refdb.Region{Hash: h, Off: off, Len: n - off + uint32(e.r.Range(13, 5000))}, "past-end>12"
	case 4: // offset+len overflows uint32
		return refdb.Region{Hash: h, Off: 0xffffffff - uint32(e.r.Intn(4)), Len: uint32(e.r.Range(5, 100))}, "overflow"
	case 5:
		return refdb.Region{Hash: h, Off: uint32(e.r.Intn(int(n) + 1)), Len: 0}, "empty"
	default:
		off := uint32(e.r.Intn(int(n)))
		return refdb.Region{Hash: h, Off: off, Len: uint32(e.r.Intn(int(n-off) + 1))}, "inside"
	}
}

func (c *txctx) opFetchRegion() {
	e := c.e
	h := c.pickHash()
	if c.skip[h] {
		return
	}
	rg, cls := c.region(h)
	if cls == "past-end<=12" && e.cfg.NoCorners {
		return
	}
	want, codes := c.m.FetchRegion(rg)
	f0 := e.faults
	got, err := c.tx.FetchBlockRegion(&database.BlockRegion{Hash: chash(h), Offset: rg.Off, Len: rg.Len})
	e.logf("FetchBlockRegion(%x,%d,%d)=%s", h[:4], rg.Off, rg.Len, gotStr(codeOf(err)))
	what := "FetchBlockRegion"
	if codes.Fails() && codes[0] == refdb.ErrBlockRegionInvalid {
		what += "(" + cls + ")"
	}
	if c.readResult(what, f0, err, codes) && string(got) != string(want) {
		e.fail("seq:FetchBlockRegion:bytes"+c.ctx(), fmt.Sprintf("FetchBlockRegion(%x,%d,%d) = %s, stored %s", h[:6], rg.Off, rg.Len, hx(got), hx(want)), true)
	}
	e.count("op.FetchBlockRegion", 1)
	e.count("region."+cls, 1)
}

func (c *txctx) opFetchRegions() {
	e := c.e
	hs := c.hashes()
	var rs []refdb.Region
	var arg []database.BlockRegion
	invalid := false
	for _, h := range hs {
		rg, cls := c.region(h)
		if (cls == "past-end<=12" || cls == "past-end>12" || cls == "overflow") && (e.r.Chance(2, 3) || (cls == "past-end<=12" && e.cfg.NoCorners)) {
			rg.Off, rg.Len = 0, 1 // keep most bulk requests valid
		}
		if _, cs := c.m.FetchRegion(rg); cs.Fails() && cs[0] == refdb.ErrBlockRegionInvalid {
			invalid = true
		}
		rs = append(rs, rg)
		arg = append(arg, database.BlockRegion{Hash: chash(h), Offset: rg.Off, Len: rg.Len})
	}
	want, codes := c.m.FetchRegions(rs)
	f0 := e.faults
	got, err := c.tx.FetchBlockRegions(arg)
	e.logf("FetchBlockRegions(%d)=%s", len(hs), gotStr(codeOf(err)))
	what := "FetchBlockRegions"
	if invalid {
		what += "(invalid-region)"
	}
	if c.readResult(what, f0, err, codes) {
		if len(got) != len(want) {
			e.fail("seq:FetchBlockRegions:len", fmt.Sprintf("%d results for %d regions", len(got), len(want)), false)
			return
		}
		for i := range want {
			if string(got[i]) != string(want[i]) {
				e.fail("seq:FetchBlockRegions:bytes"+c.ctx(), fmt.Sprintf("FetchBlockRegions[%d](%x,%d,%d) = %s, stored %s", i, hs[i][:6], rs[i].Off, rs[i].Len, hx(got[i]), hx(want[i])), true)
				return
			}
		}
	}
	e.count("op.FetchBlockRegions", 1)
}

func (c *txctx) opPrune() {
	e := c.e
	if c.m.PrunedInTx() && !e.r.Chance(1, 10) {
		return // a second prune inside one transaction is rare
	}
	maxf := uint64(e.cfg.MaxFile)
	var target uint64
	switch e.r.Intn(6) {
	case 0:
		target = maxf - 1 - uint64(e.r.Intn(100)) // below the minimum: must be refused
	case 1:
		target = maxf
	case 2:
		target = maxf * uint64(e.r.Range(1, 3))
	case 3:
		target = 1 << 40
	default:
		target = maxf + uint64(e.r.Int63n(int64(maxf)*6))
	}
	second := c.m.PrunedInTx()
	pr := c.m.PruneOptions(target)
	got, err := c.tx.PruneBlocks(target)
	e.logf("PruneBlocks(%d)=%s,%d hashes (model allows %d..%d files)", target, gotStr(codeOf(err)), len(got), pr.MinFiles, pr.MaxFiles)
	what := "PruneBlocks"
	if target < maxf {
		what = "PruneBlocks(target-below-file-size)"
	}
	if !e.expectCode(what, pr.Codes, err, true) || err != nil {
		return
	}
	gs := make([]string, len(got))
	for i := range got {
		gs[i] = string(got[i][:])
	}
	sort.Strings(gs)
	if e.layoutUnknown {
		// After a fault or crash the flat files may contain abandoned bytes, so
		// the file boundaries are unknown.  What remains checkable: the pruned
		// blocks are committed blocks and are the OLDEST ones (store order).
		hs := make([]refdb.Hash, len(got))
		for i := range got {
			hs[i] = refdb.Hash(got[i])
		}
		if why := c.m.ApplyPruneSet(hs); why != "" {
			e.fail("seq:PruneBlocks:not-an-oldest-first-set", fmt.Sprintf("PruneBlocks(%d): %s", target, why), true)
		}
		e.count("op.PruneBlocks", 1)
		return
	}
	matched := -1
	for n := pr.MinFiles; n <= pr.MaxFiles; n++ {
		ws := c.m.PruneSet(n)
		if len(ws) != len(gs) {
			continue
		}
		same := true
		for i := range ws {
			if string(ws[i][:]) != gs[i] {
				same = false
				break
			}
		}
		if same {
			matched = n
			break
		}
	}
	if matched < 0 {
		key := "seq:PruneBlocks:hashes-do-not-match-any-allowed-file-count"
		if second {
			key += ":second-prune-in-tx"
		}
		e.fail(key, fmt.Sprintf("PruneBlocks(%d) returned %d hashes; the model allows deleting %d..%d oldest files (sets of %d..%d blocks)",
			target, len(gs), pr.MinFiles, pr.MaxFiles, len(c.m.PruneSet(pr.MinFiles)), len(c.m.PruneSet(pr.MaxFiles))), true)
		return
	}
	c.m.ApplyPrune(matched)
	if matched > 0 {
		e.count("prune.files", int64(matched))
		e.count("prune.blocks", int64(len(gs)))
	}
	e.count("op.PruneBlocks", 1)
}

func (c *txctx) opBeenPruned() {
	e := c.e
	if c.snap || c.m.PrunedInTx() {
		return
	}
	got, err := c.tx.BeenPruned()
	if err != nil {
		e.fail("seq:BeenPruned:err:got="+codeOf(err), err.Error(), false)
		return
	}
	if got != c.m.BeenPruned() {
		key := "seq:BeenPruned:true-although-never-pruned"
		if !got {
			key = "seq:BeenPruned:false-although-pruned"
		}
		e.fail(key, fmt.Sprintf("BeenPruned()=%v, model %v (a committed transaction pruned block files: %v)", got, c.m.BeenPruned(), c.m.BeenPruned()), false)
	}
	e.count("op.BeenPruned", 1)
}

// removeAll is os.RemoveAll that never panics the case.
func removeAll(dir string) { _ = os.RemoveAll(dir) }
