package main

import (
	"bytes"
	"encoding/hex"
	"time"

	"verif/mon"
	"verif/ref/reffilter"

	"github.com/btcsuite/btcd/btcutil/v2/gcs"
	"github.com/btcsuite/btcd/btcutil/v2/gcs/builder"
	"github.com/btcsuite/btcd/chainhash/v2"
	"github.com/btcsuite/btcd/wire/v2"
)

// headerBytes is the harness' own 80-byte header serialization.
func headerBytes(version uint32, prev, root [32]byte, ts, bits, nonce uint32) []byte {
	b := le32(version)
	b = append(b, prev[:]...)
	b = append(b, root[:]...)
	b = append(b, le32(ts)...)
	b = append(b, le32(bits)...)
	return append(b, le32(nonce)...)
}

// genBlock builds a block of ntx generated transactions (first one coinbase-like) and returns the btcd message,
// the generated transactions and the reference block hash / merkle root.
func genBlock(r *mon.Rand, ntx int, prev [32]byte, pool *[][]byte, maxIn, maxOut int) (*wire.MsgBlock, []*gTx, [32]byte, [32]byte) {
	return genBlockWith(r, ntx, prev, pool, maxIn, maxOut, genOutputScript)
}

// genBlockWith is genBlock with a chosen output-script generator.
func genBlockWith(r *mon.Rand, ntx int, prev [32]byte, pool *[][]byte, maxIn, maxOut int, outGen func(*mon.Rand, *[][]byte) gScript) (*wire.MsgBlock, []*gTx, [32]byte, [32]byte) {
	var txs []*gTx
	var txids [][32]byte
	for i := 0; i < ntx; i++ {
		var t *gTx
		if i == 0 {
			t = genTxWith(r, 1, 1+r.Intn(maxOut), pool, &prevRef{index: 0xffffffff}, outGen)
		} else {
			var spend *prevRef
			if r.Chance(1, 4) {
				// spend an output of an earlier transaction of the same block
				if j := r.Intn(i); len(txs[j].outs) > 0 {
					spend = &prevRef{txid: txs[j].view.TxID, index: uint32(r.Intn(len(txs[j].outs)))}
				}
			}
			t = genTxWith(r, 1+r.Intn(maxIn), r.Intn(maxOut+1), pool, spend, outGen)
		}
		txs = append(txs, t)
		txids = append(txids, t.view.TxID)
	}
	root := reffilter.MerkleRoot(txids)
	version, ts, bits, nonce := uint32(1+r.Intn(4)), uint32(1231006505+r.Intn(1<<29)), uint32(0x207fffff), r.Uint32()
	hash := reffilter.DSHA(headerBytes(version, prev, root, ts, bits, nonce))
	blk := wire.NewMsgBlock(wire.NewBlockHeader(int32(version), (*chainhash.Hash)(&prev), (*chainhash.Hash)(&root), bits, nonce))
	blk.Header.Timestamp = time.Unix(int64(ts), 0)
	for _, t := range txs {
		blk.AddTransaction(t.msg)
	}
	return blk, txs, hash, root
}

// famBasic: chains of blocks -> BuildBasicFilter = BIP158 basic filter, matches what it must, headers chain per BIP157.
func famBasic(c *mon.Ctx) func(k *mon.Case) {
	return func(k *mon.Case) {
		r := k.Rand
		nblocks := 1 + r.Intn(5)
		var prevHeader, prevBlock [32]byte
		if r.Bool() {
			r.Fill(prevHeader[:])
		}
		r.Fill(prevBlock[:])
		k.Desc(map[string]any{"blocks": nblocks})
		var pool [][]byte
		for bi := 0; bi < nblocks; bi++ {
			ntx := 1 + r.Intn(12)
			switch r.Intn(10) {
			case 0:
				ntx = 1
			case 1:
				ntx = 30 + r.Intn(int(c.N(60, 400)))
			}
			// output scripts and spent scripts: the usual templates mixed with hostile byte strings (unparseable, oversized,
			// one-byte, OP_RETURN look-alikes): BIP158 only looks at emptiness and at the first byte
			hostileRate := []int{0, 1, 1, 2, 3}[r.Intn(5)] // out of 4
			mixed := func(r *mon.Rand, pool *[][]byte) gScript {
				if r.Intn(4) < hostileRate {
					h := genHostileScript(r)
					k.Count("basic.script."+h.kind, 1)
					return h
				}
				return genOutputScript(r, pool)
			}
			blk, txs, refHash, _ := genBlockWith(r, ntx, prevBlock, &pool, 3, 4, mixed)
			// previous output scripts of every non-coinbase input: generated like output scripts (incl. empty and
			// OP_RETURN-leading ones), sometimes equal to an output script of the block
			var outs, prevs [][]byte
			for _, t := range txs {
				for _, o := range t.outs {
					outs = append(outs, o.script)
				}
			}
			for i, t := range txs {
				if i == 0 {
					continue
				}
				for range t.ins {
					if len(outs) > 0 && r.Chance(1, 5) {
						prevs = append(prevs, outs[r.Intn(len(outs))])
					} else {
						prevs = append(prevs, mixed(r, &pool).script)
					}
				}
			}
			bh := blk.BlockHash()
			if [32]byte(bh) != refHash {
				k.Failf("harness:blockhash", "btcd block hash %x differs from the harness' own header hash %x", bh[:], refHash)
				return
			}
			f, err := builder.BuildBasicFilter(blk, prevs)
			if err != nil {
				k.Failf("basic:BuildBasicFilter:error", "block %d: %v", bi, err)
				return
			}
			wantNB, wantN := reffilter.BasicFilter(refHash, outs, prevs)
			nb, _ := f.NBytes()
			if int(f.N()) != wantN {
				k.Failf("basic:BuildBasicFilter:element-count", "N=%d, BIP158 element set has %d (outputs=%d prevs=%d)", f.N(), wantN, len(outs), len(prevs))
			}
			if !bytes.Equal(nb, wantNB) {
				k.Failf("basic:BuildBasicFilter:neq-bip158", "block %x\n got  %x\n want %x", refHash, trunc(nb), trunc(wantNB))
			}
			if f.P() != reffilter.BasicP {
				k.Failf("basic:BuildBasicFilter:P", "P=%d", f.P())
			}
			key := builder.DeriveKey(&bh)
			if key != reffilter.BasicKey(refHash) {
				k.Failf("basic:DeriveKey", "got %x", key)
			}
			// never-miss: every output script and spent script the BIP puts into the filter matches, also through a
			// deserialized copy (what a light client holds)
			client, err := gcs.FromNBytes(builder.DefaultP, builder.DefaultM, nb)
			if err != nil {
				k.Failf("basic:FromNBytes:error", "%v", err)
				client = f
			}
			el := reffilter.BasicElements(outs, prevs)
			set := reffilter.HashedSet(el, reffilter.BasicM, key)
			k0, k1 := reffilter.KeyFromBytes(key)
			F := uint64(len(el)) * reffilter.BasicM
			check := func(s []byte, must bool, what string) {
				ok, err := client.Match(key, s)
				if err != nil {
					k.Failf("basic:Match:error", "%v", err)
					return
				}
				if must && !ok {
					k.Failf("basic:Match:missed-"+what, "script %x of block %x not matched by its basic filter", s, refHash)
				}
				if want := len(el) > 0 && reffilter.Contains(set, reffilter.HashToRange(s, F, k0, k1)); ok != want {
					k.Failf("basic:Match:neq-reference", "script %x: Match=%v reference=%v", s, ok, want)
				}
				k.Count("basic.match."+what, 1)
			}
			for _, s := range outs {
				switch {
				case len(s) == 0:
					check(s, false, "excluded-empty")
				case s[0] == 0x6a:
					check(s, false, "excluded-opreturn")
				default:
					check(s, true, "output")
				}
			}
			for _, s := range prevs {
				if len(s) == 0 {
					check(s, false, "excluded-empty")
				} else {
					check(s, true, "prevout")
				}
			}
			if len(el) > 0 {
				all := append(append([][]byte(nil), outs...), prevs...)
				if ok, err := client.MatchAny(key, all); err != nil || !ok {
					k.Failf("basic:MatchAny:missed", "MatchAny over all scripts of the block is false (err=%v)", err)
				}
			}
			// BIP157 hash and header chain
			fh, err := builder.GetFilterHash(f)
			wantFH := reffilter.FilterHash(wantNB)
			if err != nil || [32]byte(fh) != wantFH {
				k.Failf("basic:GetFilterHash", "got %x want %x err=%v", fh[:], wantFH, err)
			}
			hd, err := builder.MakeHeaderForFilter(f, chainhash.Hash(prevHeader))
			wantHd := reffilter.FilterHeader(wantFH, prevHeader)
			if err != nil || [32]byte(hd) != wantHd {
				k.Failf("basic:MakeHeaderForFilter", "got %x want %x err=%v", hd[:], wantHd, err)
			}
			prevHeader, prevBlock = wantHd, refHash
			k.Count("basic.blocks", 1)
			k.C.EvalN(int64(len(outs) + len(prevs) + 3))
			k.Count("basic.elements", int64(wantN))
			if wantN == 0 {
				k.Count("basic.empty-filter", 1)
			}
			k.Eval(mon.Sig("basic", ntx, wantN, len(prevs), hex.EncodeToString(wantNB[:min(len(wantNB), 8)])), wantN > 0)
			if bi == 0 && ntx < 4 {
				k.Sample(map[string]any{"family": "basic", "block": hex.EncodeToString(refHash[:]), "ntx": ntx, "N": wantN, "filter": hex.EncodeToString(trunc(wantNB))})
			}
		}
	}
}
