package main

import (
	"bytes"

	"verif/gen/chaingen"
	"verif/mon"
	"verif/node"
	"verif/ref/refchain"
	"verif/ref/reffilter"
	"verif/sim"

	"github.com/btcsuite/btcd/blockchain"
	"github.com/btcsuite/btcd/wire/v2"
)

// famCfIndex runs the real committed-filter indexer on an integrated node (connects, reorganisations, restart)
// and compares the served filter, filter hash and filter header of every active block with the reference
// BIP158/BIP157 values computed from the model chain (prev scripts come from the model's spend journal).
func famCfIndex(k *mon.Case) {
	r := k.Rand
	fam := node.FamRegtest
	g := chaingen.New(node.NewParams(fam), fam, r)
	g.MaxTx = 5
	s, err := sim.New(k, g, node.Config{UtxoCacheMaxSize: []uint64{0, 1 << 25}[r.Intn(2)], CfIndex: true})
	if err != nil {
		k.Failf("harness:open", "cannot open node: %v", err)
		return
	}
	defer s.Destroy()
	g.ClockNow = s.N.Clock.Now()
	k.Desc(map[string]any{"family": "cfindex"})
	tip := g.Tree.Genesis
	for i := 0; i < 10+r.Intn(6); i++ {
		tip = g.Block(r, tip, chaingen.BlockOpts{NTx: -1})
		s.DeliverBlock(tip)
	}
	check := func(what string) {
		t := s.Tip
		var prevHeader [32]byte
		for _, b := range t.Path() {
			var outs, prevs [][]byte
			for _, tx := range b.Msg.Transactions {
				for _, o := range tx.TxOut {
					outs = append(outs, o.PkScript)
				}
			}
			if b.Parent != nil {
				for _, c := range b.Stxos() {
					prevs = append(prevs, c.PkScript)
				}
			}
			want, _ := reffilter.BasicFilter([32]byte(b.Hash), outs, prevs)
			wantHash := reffilter.FilterHash(want)
			wantHdr := reffilter.FilterHeader(wantHash, prevHeader)
			prevHeader = wantHdr
			got, err := s.N.CfIdx.FilterByBlockHash(&b.Hash, wire.GCSFilterRegular)
			if err != nil || !bytes.Equal(got, want) {
				s.Fail("cfindex:filter", "%s: served filter of active block %s (height %d) = %x (err %v), BIP158 reference %x", what, b.Name, b.Height, got, err, want)
				return
			}
			gh, err := s.N.CfIdx.FilterHashByBlockHash(&b.Hash, wire.GCSFilterRegular)
			if err != nil || !bytes.Equal(gh, wantHash[:]) {
				s.Fail("cfindex:filter-hash", "%s: filter hash of %s = %x (err %v) want %x", what, b.Name, gh, err, wantHash)
				return
			}
			hd, err := s.N.CfIdx.FilterHeaderByBlockHash(&b.Hash, wire.GCSFilterRegular)
			if err != nil || !bytes.Equal(hd, wantHdr[:]) {
				s.Fail("cfindex:filter-header", "%s: filter header of %s (height %d) = %x (err %v) want %x", what, b.Name, b.Height, hd, err, wantHdr)
				return
			}
			k.Count("cfindex.blocks_checked", 1)
		}
	}
	check("base")
	for i := 0; i < 6+r.Intn(8) && !s.Failed; i++ {
		switch r.Intn(6) {
		case 5: // the node runs without the index for a while (blocks with spends, maybe a reorganisation), then the
			// index is switched on again and has to catch up from the stored blocks and their spend journals
			s.Cfg.CfIndex = false
			s.Restart(r.Bool())
			for j := 0; j < 2+r.Intn(4) && !s.Failed; j++ {
				b := g.Block(r, s.Tip, chaingen.BlockOpts{NTx: 1 + r.Intn(5)})
				s.DeliverBlock(b)
			}
			if r.Chance(1, 3) && s.Tip.Height > 4 {
				p := s.Tip.Ancestor(s.Tip.Height - 2)
				for j := 0; j < 3 && !s.Failed; j++ {
					p = g.Block(r, p, chaingen.BlockOpts{NTx: 1 + r.Intn(3)})
					s.DeliverBlock(p)
				}
			}
			s.Cfg.CfIndex = true
			s.Restart(r.Bool())
			k.Count("cfindex.catch-ups", 1)
		case 0, 1:
			b := g.Block(r, s.Tip, chaingen.BlockOpts{NTx: 1 + r.Intn(5)})
			s.DeliverBlock(b)
		case 2: // reorg
			depth := 1 + r.Intn(3)
			p := s.Tip.Ancestor(s.Tip.Height - int32(depth))
			if p == nil || p.Height < 2 {
				continue
			}
			for j := 0; j < depth+1; j++ {
				p = g.Block(r, p, chaingen.BlockOpts{NTx: r.Intn(4)})
				s.DeliverBlock(p)
			}
			k.Count("cfindex.reorgs", 1)
		case 3:
			s.Restart(r.Bool())
			k.Count("cfindex.restarts", 1)
		case 4:
			s.Flush(blockchain.FlushRequired)
		}
		if !s.Failed {
			check("step")
		}
	}
	k.Eval(mon.Sig("cfindex", len(s.Ops), s.Tip.Hash.String()[:8]), true)
	_ = refchain.Valid
}
