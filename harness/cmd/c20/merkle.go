package main

import (
	"bytes"
	"encoding/hex"
	"fmt"

	"verif/mon"
	"verif/ref/reffilter"

	"github.com/btcsuite/btcd/btcutil/v2"
	"github.com/btcsuite/btcd/btcutil/v2/bloom"
	"github.com/btcsuite/btcd/wire/v2"
)

// merkleCase builds a block of n transactions, makes the transactions selected by pick relevant to a filter,
// calls bloom.NewMerkleBlock and verifies the result with the independent BIP37 verifier.
func merkleCase(k *mon.Case, r *mon.Rand, n int, pick []bool, mode string, fpNoise bool) {
	var pool [][]byte
	var prev [32]byte
	r.Fill(prev[:])
	blk, txs, _, root := genBlock(r, n, prev, &pool, 2, 2)
	nsel := 0
	for _, p := range pick {
		if p {
			nsel++
		}
	}
	// filter: sized for the number of watched items; a high false-positive rate adds unplanned matches now and then
	fprate := 1e-7
	if fpNoise {
		fprate = []float64{0.2, 0.05, 0.01}[r.Intn(3)]
	}
	flags := byte(r.Intn(3))
	tweak := r.Uint32()
	elements := uint32(max(nsel, 1) * 3)
	f := bloom.NewFilter(elements, tweak, fprate, wire.BloomUpdateType(flags))
	msg := f.MsgFilterLoad()
	ref := &reffilter.Bloom{Data: append([]byte(nil), msg.Filter...), K: msg.HashFuncs, Tweak: msg.Tweak, Flags: byte(msg.Flags)}
	k.Desc(map[string]any{"n": n, "mode": mode, "selected": nsel, "fprate": fprate, "flags": flags, "tweak": tweak})
	if len(ref.Data) == 0 || ref.K == 0 {
		k.Count("merkle.skipped-unusable-filter", 1)
		return
	}
	for i, p := range pick {
		if !p {
			continue
		}
		if r.Chance(2, 3) {
			f.Add(txs[i].view.TxID[:])
			ref.Insert(txs[i].view.TxID[:])
		} else {
			watch(r, f, ref, txs[i])
		}
	}
	// expected relevance (and filter evolution) by the BIP37 rule, transaction by transaction
	exact := true
	var want []bool
	for _, t := range txs {
		want = append(want, ref.RelevantAndUpdate(t.view))
		if t.emptyPush && ref.Contains(nil) {
			// btcd also tests empty data pushes against the filter (BIP37 skips them): it may then match more
			exact = false
		}
	}

	mb, matchedIdx := bloom.NewMerkleBlock(btcutil.NewBlock(blk), f)
	if mb == nil {
		k.Failf("merkle:NewMerkleBlock:nil", "nil merkle block")
		return
	}
	if [32]byte(mb.Header.MerkleRoot) != root || mb.Header.BlockHash() != blk.Header.BlockHash() {
		k.Failf("merkle:header", "merkle block header differs from the block header")
	}
	if mb.Transactions != uint32(n) {
		k.Failf("merkle:tx-count", "Transactions=%d, block has %d", mb.Transactions, n)
	}
	var hashes [][32]byte
	for _, h := range mb.Hashes {
		hashes = append(hashes, [32]byte(*h))
	}
	res, err := reffilter.VerifyPartialMerkleTree(mb.Transactions, hashes, mb.Flags)
	if err != nil {
		k.Failf("merkle:verify:malformed", "n=%d matched=%v: BIP37 verifier rejects the partial merkle tree: %v (hashes=%d flags=%x)", n, matchedIdx, err, len(hashes), mb.Flags)
		return
	}
	if res.Root != root {
		k.Failf("merkle:verify:root", "n=%d matched=%v: partial merkle tree commits to %x, header merkle root is %x", n, matchedIdx, res.Root, root)
	}
	// the proof proves exactly the transactions the filter matched
	if fmt.Sprint(res.Index) != fmt.Sprint(matchedIdx) && !(len(res.Index) == 0 && len(matchedIdx) == 0) {
		k.Failf("merkle:proved-neq-matched", "n=%d: proof yields positions %v, NewMerkleBlock reports matches %v", n, res.Index, matchedIdx)
	}
	for j, pos := range res.Index {
		if int(pos) >= n || res.Matched[j] != txs[pos].view.TxID {
			k.Failf("merkle:proved-txid", "n=%d: proved hash at position %d is not that transaction's txid", n, pos)
		}
	}
	// never miss: every transaction relevant per BIP37 is proved
	got := make([]bool, n)
	for _, i := range matchedIdx {
		if int(i) < n {
			got[i] = true
		}
	}
	for i := range want {
		if want[i] && !got[i] {
			k.Failf("merkle:missed-relevant-tx", "n=%d: transaction %d (%x) is relevant per BIP37 but not in the merkle block", n, i, txs[i].view.TxID)
		}
		if exact && got[i] && !want[i] {
			k.Failf("merkle:extra-tx", "n=%d: transaction %d matched but is not relevant per BIP37", n, i)
		}
	}
	// canonical encoding: BIP37's construction is deterministic
	wh, wf := reffilter.BuildPartialMerkleTree(txidsOf(txs), got)
	if len(wh) != len(hashes) || !bytes.Equal(wf, mb.Flags) {
		k.Failf("merkle:encoding:neq-bip37", "n=%d matched=%v: %d hashes flags %x, BIP37 construction gives %d hashes flags %x", n, matchedIdx, len(hashes), mb.Flags, len(wh), wf)
	} else {
		for i := range wh {
			if wh[i] != hashes[i] {
				k.Failf("merkle:encoding:neq-bip37", "n=%d: hash %d differs from the BIP37 construction", n, i)
				break
			}
		}
	}
	if exact && !bytes.Equal(f.MsgFilterLoad().Filter, ref.Data) {
		k.Failf("merkle:filter-update", "filter after NewMerkleBlock differs from the BIP37 update rule (flags=%d)", flags)
	}
	k.Count("merkle.blocks", 1)
	if exact {
		k.Count("merkle.exact", 1)
	}
	k.C.EvalN(int64(n))
	k.Count("merkle.mode."+mode, 1)
	k.Count("merkle.proved-txs", int64(len(res.Index)))
	switch {
	case len(res.Index) == 0:
		k.Count("merkle.matched=none", 1)
	case len(res.Index) == n:
		k.Count("merkle.matched=all", 1)
	default:
		k.Count("merkle.matched=some", 1)
	}
	if n >= 256 {
		k.Count("merkle.n>=256", 1)
	}
	if n&(n-1) != 0 {
		k.Count("merkle.n-not-power-of-two", 1)
	}
	k.Eval(mon.Sig("merkle", n, len(res.Index), hex.EncodeToString(mb.Flags[:min(len(mb.Flags), 8)]), hex.EncodeToString(root[:4])), len(res.Index) > 0)
	if n <= 5 && len(res.Index) > 0 {
		k.Sample(map[string]any{"family": "merkle", "n": n, "matched": matchedIdx, "hashes": len(hashes), "flags": hex.EncodeToString(mb.Flags)})
	}
}

func txidsOf(txs []*gTx) [][32]byte {
	out := make([][32]byte, len(txs))
	for i, t := range txs {
		out[i] = t.view.TxID
	}
	return out
}

func famMerkle(c *mon.Ctx) func(k *mon.Case) {
	return func(k *mon.Case) {
		r := k.Rand
		var n int
		switch r.Intn(8) {
		case 0:
			n = 1 + r.Intn(4)
		case 1:
			n = 1<<uint(1+r.Intn(9)) + r.Intn(3) - 1
		case 2:
			n = 300 + r.Intn(301)
		case 3:
			n = 600
		default:
			n = 1 + r.Intn(120)
		}
		if n < 1 {
			n = 1
		}
		if n > 600 {
			n = 600
		}
		pick := make([]bool, n)
		mode := []string{"none", "all", "single", "first", "last", "sparse", "dense", "half", "run"}[r.Intn(9)]
		switch mode {
		case "all":
			for i := range pick {
				pick[i] = true
			}
		case "single":
			pick[r.Intn(n)] = true
		case "first":
			pick[0] = true
		case "last":
			pick[n-1] = true
		case "sparse":
			for i := range pick {
				pick[i] = r.Chance(1, 20)
			}
		case "dense":
			for i := range pick {
				pick[i] = r.Chance(9, 10)
			}
		case "half":
			for i := range pick {
				pick[i] = r.Bool()
			}
		case "run":
			a := r.Intn(n)
			b := a + 1 + r.Intn(n-a)
			for i := a; i < b; i++ {
				pick[i] = true
			}
		}
		merkleCase(k, r, n, pick, mode, r.Chance(1, 5))
	}
}

// merkleSubsetCount is the number of (n, subset) pairs with n in 1..maxN.
func merkleSubsetCount(maxN int) int64 {
	var t int64
	for n := 1; n <= maxN; n++ {
		t += 1 << uint(n)
	}
	return t
}

// famMerkleSubsets enumerates every matched subset of blocks with 1..maxN transactions.
func famMerkleSubsets(c *mon.Ctx, maxN int) func(k *mon.Case) {
	return func(k *mon.Case) {
		idx := k.Index
		n := 1
		for idx >= 1<<uint(n) {
			idx -= 1 << uint(n)
			n++
		}
		pick := make([]bool, n)
		for i := range pick {
			pick[i] = idx>>uint(i)&1 == 1
		}
		merkleCase(k, k.Rand, n, pick, "enumerated", false)
		k.Count("merkle.enumerated", 1)
	}
}
