package main

import (
	"bytes"
	"encoding/hex"
	"fmt"

	"verif/mon"
	"verif/ref/reffilter"

	"github.com/btcsuite/btcd/btcutil/v2/gcs"
)

// pickPM draws (P, M): BIP158's M = 784931 with P >= 16, else M in [1, 2^(P+4)] (boundary biased) so that the
// unary quotients stay finite.
func pickPM(r *mon.Rand) (uint8, uint64) {
	p := uint8(1 + r.Intn(32))
	switch r.Intn(8) {
	case 0:
		p = 19
	case 1:
		p = []uint8{1, 2, 31, 32}[r.Intn(4)]
	}
	if p >= 16 && r.Chance(1, 2) {
		return p, reffilter.BasicM
	}
	top := uint64(1) << (uint(p) + 4)
	var m uint64
	switch r.Intn(7) {
	case 0:
		m = 1
	case 1:
		m = uint64(1) << p
	case 2:
		m = uint64(1)<<p + 1
	case 3:
		m = uint64(1)<<p - 1
	case 4:
		m = top
	default:
		m = 1 + r.Uint64()%top
	}
	if m == 0 {
		m = 1
	}
	return p, m
}

func pickN(r *mon.Rand, thorough bool) int {
	switch r.Intn(12) {
	case 0:
		return 0
	case 1:
		return 1
	case 2:
		return 2 + r.Intn(3)
	case 3:
		if thorough {
			return 2000 + r.Intn(18001)
		}
		return 500 + r.Intn(2500)
	case 4, 5:
		return 100 + r.Intn(400)
	default:
		return 5 + r.Intn(95)
	}
}

// genElements draws n elements (with duplicates now and then) of assorted lengths, including the empty element.
func genElements(r *mon.Rand, n int) [][]byte {
	out := make([][]byte, 0, n)
	dup := r.Chance(1, 3)
	for i := 0; i < n; i++ {
		if dup && i > 0 && r.Chance(1, 8) {
			out = append(out, out[r.Intn(i)])
			continue
		}
		var l int
		switch r.Intn(6) {
		case 0:
			l = r.Intn(9)
		case 1:
			l = 20 + r.Intn(15)
		case 2:
			l = r.Intn(100)
		default:
			l = 8 + r.Intn(30)
		}
		out = append(out, r.Bytes(l))
	}
	return out
}

func matchAll3(f *gcs.Filter, key [16]byte, q [][]byte) (any3 [3]bool, err error) {
	var e error
	if any3[0], e = f.MatchAny(key, q); e != nil {
		err = e
	}
	if any3[1], e = f.ZipMatchAny(key, q); e != nil {
		err = e
	}
	if any3[2], e = f.HashMatchAny(key, q); e != nil {
		err = e
	}
	return
}

var any3Names = [3]string{"MatchAny", "ZipMatchAny", "HashMatchAny"}

// checkBatch compares the three batch matchers with the expected existential answer.
func checkBatch(k *mon.Case, f *gcs.Filter, key [16]byte, q [][]byte, want bool, what string, set []uint64, F uint64) {
	got, err := matchAll3(f, key, q)
	if err != nil {
		k.Failf("gcs:batch:error", "%s: %v", what, err)
		return
	}
	for i := range got {
		if got[i] != want {
			dir := "false-negative"
			if got[i] {
				dir = "false-positive:other"
				// diagnose: does a query value equal a member value modulo 2^32 only?
				k0, k1 := reffilter.KeyFromBytes(key)
				low := map[uint32]struct{}{}
				for _, v := range set {
					low[uint32(v)] = struct{}{}
				}
				for _, e := range q {
					if _, ok := low[uint32(reffilter.HashToRange(e, F, k0, k1))]; ok {
						dir = "false-positive:value-equal-mod-2^32"
					}
				}
			}
			k.Failf("gcs:"+any3Names[i]+":neq-elementwise:"+dir, "%s: %s=%v but exists-Match=%v (|query|=%d, N=%d)", what, any3Names[i], got[i], want, len(q), f.N())
		}
	}
	k.Count("gcs.batch", 3)
	if want {
		k.Count("gcs.batch.true", 1)
	} else {
		k.Count("gcs.batch.false", 1)
	}
}

func famGCSBuild(c *mon.Ctx) func(k *mon.Case) {
	return func(k *mon.Case) {
		r := k.Rand
		p, m := pickPM(r)
		n := pickN(r, c.Thorough())
		var key [16]byte
		r.Fill(key[:])
		if r.Chance(1, 20) {
			key = [16]byte{}
		}
		data := genElements(r, n)
		k.Desc(map[string]any{"P": p, "M": m, "N": n, "key": hex.EncodeToString(key[:]), "elems_seeded": true})

		f, err := gcs.BuildGCSFilter(p, m, key, data)
		if err != nil {
			k.Failf("gcs:BuildGCSFilter:error", "P=%d M=%d N=%d: %v", p, m, n, err)
			return
		}
		if int(f.N()) != n || f.P() != p {
			k.Failf("gcs:metadata", "N()=%d P()=%d want %d %d", f.N(), f.P(), n, p)
		}
		set := reffilter.HashedSet(data, m, key)
		want := reffilter.EncodeSorted(set, uint(p))
		if n == 0 {
			want = nil
		}
		// oracle self-check
		if dec, err := reffilter.DecodeGCS(want, uint64(n), uint(p)); err != nil || fmt.Sprint(dec) != fmt.Sprint(set) {
			k.Failf("calibration:golomb:decode", "reference decode of reference encoding failed: %v", err)
			return
		}
		raw, _ := f.Bytes()
		if !bytes.Equal(raw, want) {
			k.Failf("gcs:Bytes:neq-bip158-encoding", "P=%d M=%d N=%d key=%x\n got  %x\n want %x", p, m, n, key, trunc(raw), trunc(want))
		}
		nb, _ := f.NBytes()
		pb, _ := f.PBytes()
		npb, _ := f.NPBytes()
		cs := reffilter.CompactSize(uint64(n))
		if !bytes.Equal(nb, append(append([]byte{}, cs...), want...)) {
			k.Failf("gcs:NBytes", "N=%d got %x", n, trunc(nb))
		}
		if !bytes.Equal(pb, append([]byte{p}, want...)) {
			k.Failf("gcs:PBytes", "N=%d got %x", n, trunc(pb))
		}
		if !bytes.Equal(npb, append(append(append([]byte{}, cs...), p), want...)) {
			k.Failf("gcs:NPBytes", "N=%d got %x", n, trunc(npb))
		}
		k.Count("gcs.encoding", 1)
		k.Count(fmt.Sprintf("gcs.P=%02d", p), 1)
		if m == reffilter.BasicM {
			k.Count("gcs.M=784931", 1)
		}
		if len(want) > 8 {
			k.Count("gcs.filter>64bits", 1)
		}

		// round trips
		filters := []*gcs.Filter{f}
		if f2, err := gcs.FromBytes(uint32(n), p, m, raw); err != nil {
			k.Failf("gcs:FromBytes:error", "%v", err)
		} else {
			filters = append(filters, f2)
		}
		if f3, err := gcs.FromNBytes(p, m, nb); err != nil {
			k.Failf("gcs:FromNBytes:error", "%v", err)
		} else {
			filters = append(filters, f3)
		}
		for i, g := range filters[1:] {
			b2, _ := g.NPBytes()
			if !bytes.Equal(b2, npb) || g.N() != f.N() || g.P() != f.P() {
				k.Failf("gcs:roundtrip", "deserialized filter %d re-serializes differently", i+1)
			}
			k.Count("gcs.roundtrip", 1)
		}

		k0, k1 := reffilter.KeyFromBytes(key)
		F := uint64(n) * m
		// every built element matches (sampled when the set is large: Match is linear)
		idx := r.Perm(n)
		if len(idx) > 150 {
			idx = idx[:150]
		}
		for _, i := range idx {
			g := filters[r.Intn(len(filters))]
			ok, err := g.Match(key, data[i])
			if err != nil || !ok {
				k.Failf("gcs:Match:false-negative", "built element %x not matched (P=%d M=%d N=%d key=%x err=%v)", data[i], p, m, n, key, err)
			}
			k.Count("gcs.match.member", 1)
		}
		// random queries: Match == reference membership of the hashed value
		var absent, present [][]byte
		nq := 40
		for i := 0; i < nq; i++ {
			q := r.Bytes(1 + r.Intn(40))
			wantM := n > 0 && reffilter.Contains(set, reffilter.HashToRange(q, F, k0, k1))
			g := filters[r.Intn(len(filters))]
			ok, err := g.Match(key, q)
			if err != nil || ok != wantM {
				dir := "false-negative"
				if ok {
					dir = "false-positive"
				}
				k.Failf("gcs:Match:neq-reference:"+dir, "query %x: Match=%v reference=%v (P=%d M=%d N=%d key=%x err=%v)", q, ok, wantM, p, m, n, key, err)
			}
			if wantM {
				present = append(present, q)
				k.Count("gcs.match.collision", 1)
			} else {
				absent = append(absent, q)
			}
			k.Count("gcs.match.query", 1)
		}
		// batch matching = exists element-wise match
		g := filters[r.Intn(len(filters))]
		checkBatch(k, g, key, nil, false, "empty query", set, F)
		checkBatch(k, g, key, [][]byte{}, false, "empty query", set, F)
		checkBatch(k, g, key, absent, false, "absent-only query", set, F)
		if n > 0 {
			// big absent query (>= N/2 elements steers MatchAny to the hash-set strategy)
			big := append([][]byte(nil), absent...)
			for tries := 0; len(big) < n/2+1 && len(big) < 3000 && tries < 20000; tries++ {
				q := r.Bytes(4 + r.Intn(30))
				if !reffilter.Contains(set, reffilter.HashToRange(q, F, k0, k1)) {
					big = append(big, q)
				}
			}
			checkBatch(k, g, key, big, false, "large absent query", set, F)
			// one member hidden at a random position in an absent query
			for _, base := range [][][]byte{absent, big, nil} {
				q := append([][]byte(nil), base...)
				mem := data[r.Intn(n)]
				pos := r.Intn(len(q) + 1)
				q = append(q[:pos], append([][]byte{mem}, q[pos:]...)...)
				checkBatch(k, g, key, q, true, "query with one member", set, F)
			}
			if len(present) > 0 {
				checkBatch(k, g, key, append(append([][]byte(nil), absent...), present[0]), true, "query with a colliding non-member", set, F)
			}
		}
		k.C.EvalN(int64(len(idx) + nq + 8))
		k.Eval(mon.Sig("gcs.build", p, m, n, hex.EncodeToString(want[:min(len(want), 6)])), n > 0)
		if n > 0 && n < 10 {
			k.Sample(map[string]any{"family": "gcs.build", "P": p, "M": m, "N": n, "filter": hex.EncodeToString(nb)})
		}
	}
}

func trunc(b []byte) []byte {
	if len(b) > 96 {
		return b[:96]
	}
	return b
}

// famGCSCrafted loads reference-encoded filters whose value lists are crafted (zero deltas, deltas of exactly
// 2^P-1 / 2^P / 2^P+1, long unary runs that straddle 64-bit words) and compares Match and the batch matchers with
// reference membership on random queries.
func famGCSCrafted(c *mon.Ctx) func(k *mon.Case) {
	return func(k *mon.Case) {
		r := k.Rand
		p := uint8(1 + r.Intn(32))
		if r.Chance(1, 3) {
			p = uint8(1 + r.Intn(8))
		}
		n := 1 + r.Intn(300)
		dense := r.Chance(2, 3)
		vals := make([]uint64, 0, n)
		var last uint64
		pp := uint64(1) << p
		for i := 0; i < n; i++ {
			var d uint64
			switch r.Intn(10) {
			case 0:
				d = 0
			case 1:
				d = pp - 1
			case 2:
				d = pp
			case 3:
				d = pp + 1
			case 4:
				if !dense {
					d = pp * uint64(50+r.Intn(200)) // unary run of 50..250 ones
				} else {
					d = 1
				}
			default:
				if dense {
					d = uint64(r.Intn(6))
				} else {
					d = r.Uint64() % (pp * 4)
				}
			}
			last += d
			vals = append(vals, last)
		}
		// F = N*M must exceed the largest value
		m := last/uint64(n) + 1 + uint64(r.Intn(3))
		F := uint64(n) * m
		var key [16]byte
		r.Fill(key[:])
		k0, k1 := reffilter.KeyFromBytes(key)
		enc := reffilter.EncodeSorted(vals, uint(p))
		k.Desc(map[string]any{"P": p, "M": m, "N": n, "key": hex.EncodeToString(key[:]), "filter": hex.EncodeToString(trunc(enc))})
		var f *gcs.Filter
		var err error
		if r.Bool() {
			f, err = gcs.FromBytes(uint32(n), p, m, enc)
		} else {
			f, err = gcs.FromNBytes(p, m, append(reffilter.CompactSize(uint64(n)), enc...))
		}
		if err != nil {
			k.Failf("gcs:From*:error", "%v", err)
			return
		}
		if b, _ := f.Bytes(); !bytes.Equal(b, enc) {
			k.Failf("gcs:roundtrip", "crafted filter bytes changed by deserialization")
		}
		var absent, present [][]byte
		for i := 0; i < 400; i++ {
			q := le32(uint32(i))
			q = append(q, r.Bytes(r.Intn(6))...)
			wantM := reffilter.Contains(vals, reffilter.HashToRange(q, F, k0, k1))
			ok, err := f.Match(key, q)
			if err != nil || ok != wantM {
				dir := "false-negative"
				if ok {
					dir = "false-positive"
				}
				k.Failf("gcs:Match:neq-reference:"+dir, "crafted filter: query %x Match=%v reference=%v err=%v", q, ok, wantM, err)
			}
			if wantM {
				present = append(present, q)
			} else {
				absent = append(absent, q)
			}
			k.Count("gcs.crafted.query", 1)
		}
		k.Count("gcs.crafted.hits", int64(len(present)))
		checkBatch(k, f, key, absent, false, "crafted: absent-only query", vals, F)
		for i := 0; i < len(present) && i < 4; i++ {
			q := append(append([][]byte(nil), absent[:r.Intn(len(absent)+1)]...), present[i])
			checkBatch(k, f, key, q, true, "crafted: query with one hit", vals, F)
		}
		k.C.EvalN(400)
		k.Eval(mon.Sig("gcs.crafted", p, n, dense, len(present), hex.EncodeToString(enc[:min(len(enc), 6)])), true)
	}
}

// famGCSWide exercises sets whose range N*M exceeds 2^32 with queries whose hashed value equals a member's value
// modulo 2^32 without being equal to it (a 32-bit truncation boundary), found by search with the reference hash.
func famGCSWide(c *mon.Ctx) func(k *mon.Case) {
	return func(k *mon.Case) {
		r := k.Rand
		n := 6000 + r.Intn(14001)
		p, m := uint8(reffilter.BasicP), uint64(reffilter.BasicM)
		var key [16]byte
		r.Fill(key[:])
		data := make([][]byte, n)
		for i := range data {
			data[i] = r.Bytes(12)
		}
		k.Desc(map[string]any{"P": p, "M": m, "N": n, "key": hex.EncodeToString(key[:])})
		f, err := gcs.BuildGCSFilter(p, m, key, data)
		if err != nil {
			k.Failf("gcs:BuildGCSFilter:error", "%v", err)
			return
		}
		set := reffilter.HashedSet(data, m, key)
		if raw, _ := f.Bytes(); !bytes.Equal(raw, reffilter.EncodeSorted(set, uint(p))) {
			k.Failf("gcs:Bytes:neq-bip158-encoding", "wide filter N=%d", n)
		}
		k0, k1 := reffilter.KeyFromBytes(key)
		F := uint64(n) * m
		low := make(map[uint32]struct{}, n)
		for _, v := range set {
			low[uint32(v)] = struct{}{}
		}
		var absent [][]byte
		var alias []byte
		for i := 0; i < 4000000 && (alias == nil || len(absent) < n/2+1); i++ {
			q := append(le32(uint32(i)), 0xa5)
			v := reffilter.HashToRange(q, F, k0, k1)
			if reffilter.Contains(set, v) {
				continue
			}
			if _, ok := low[uint32(v)]; ok {
				if alias == nil {
					alias = q
				}
				continue
			}
			if len(absent) < n/2+1 {
				absent = append(absent, q)
			}
		}
		checkBatch(k, f, key, absent, false, "wide: absent-only query", set, F)
		if alias != nil {
			k.Count("gcs.wide.alias-found", 1)
			if ok, _ := f.Match(key, alias); ok {
				k.Failf("gcs:Match:neq-reference:false-positive", "wide: alias query %x matched", alias)
			}
			checkBatch(k, f, key, append(append([][]byte(nil), absent...), alias), false,
				fmt.Sprintf("wide (N*M > 2^32): query holding %x whose hashed value equals a member's value only modulo 2^32", alias), set, F)
			checkBatch(k, f, key, [][]byte{alias}, false,
				fmt.Sprintf("wide (N*M > 2^32): single query %x whose hashed value equals a member's value only modulo 2^32", alias), set, F)
		}
		k.Eval(mon.Sig("gcs.wide", n, alias != nil, hex.EncodeToString(key[:4])), true)
	}
}
