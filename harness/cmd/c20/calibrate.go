package main

import (
	"bytes"
	"encoding/hex"
	"encoding/json"
	"fmt"
	"os"
	"path/filepath"

	"verif/mon"
	"verif/ref/reffilter"
)

func vectorsDir() string {
	h := os.Getenv("VERIF_HOME")
	if h == "" {
		h = "/verif"
	}
	return filepath.Join(h, "vectors")
}

func loadJSON(k *mon.Case, rel string, into any) bool {
	b, err := os.ReadFile(filepath.Join(vectorsDir(), rel))
	if err != nil {
		k.Failf("calibration:vectors-missing:"+rel, "%v", err)
		return false
	}
	if err := json.Unmarshal(b, into); err != nil {
		k.Failf("calibration:vectors-unreadable:"+rel, "%v", err)
		return false
	}
	return true
}

func unhex(s string) []byte {
	b, err := hex.DecodeString(s)
	if err != nil {
		panic("bad hex in vector file: " + s)
	}
	return b
}

func rev32(b []byte) (out [32]byte) {
	for i := 0; i < 32 && i < len(b); i++ {
		out[31-i] = b[i]
	}
	return
}

const nCalibrate = 8

// calibrate runs the reference models (only the reference models) against published vectors.
func calibrate(k *mon.Case) {
	switch k.Index {
	case 0: // SipHash-2-4 reference vectors
		var v struct {
			Key     string   `json:"key"`
			Outputs []string `json:"outputs_le_hex"`
		}
		if !loadJSON(k, "siphash/vectors64.json", &v) {
			return
		}
		var key [16]byte
		copy(key[:], unhex(v.Key))
		k0, k1 := reffilter.KeyFromBytes(key)
		msg := make([]byte, 0, 64)
		for i, o := range v.Outputs {
			got := reffilter.SipHash24(k0, k1, msg)
			if !bytes.Equal(le64(got), unhex(o)) {
				k.Failf("calibration:siphash", "vector %d: got %x want %s", i, le64(got), o)
			}
			msg = append(msg, byte(i))
			k.Count("calibrate.siphash", 1)
		}
	case 1: // BIP158 genesis filters and headers
		var v struct {
			Blocks []struct {
				Net, Block    string
				BlockHashBE   string   `json:"block_hash_be"`
				PrevScripts   []string `json:"prev_scripts"`
				PrevHeaderBE  string   `json:"prev_header_be"`
				BasicFilter   string   `json:"basic_filter"`
				BasicHeaderBE string   `json:"basic_header_be"`
			}
		}
		if !loadJSON(k, "bip158/genesis.json", &v) {
			return
		}
		for _, b := range v.Blocks {
			blk, err := reffilter.ParseBlock(unhex(b.Block))
			if err != nil {
				k.Failf("calibration:bip158:parse", "%s: %v", b.Net, err)
				continue
			}
			if blk.Hash != rev32(unhex(b.BlockHashBE)) {
				k.Failf("calibration:bip158:blockhash", "%s: got %x", b.Net, blk.Hash)
			}
			var outs, prevs [][]byte
			for _, t := range blk.Txs {
				outs = append(outs, t.Outputs...)
			}
			for _, p := range b.PrevScripts {
				prevs = append(prevs, unhex(p))
			}
			nb, _ := reffilter.BasicFilter(blk.Hash, outs, prevs)
			if !bytes.Equal(nb, unhex(b.BasicFilter)) {
				k.Failf("calibration:bip158:filter", "%s: got %x want %s", b.Net, nb, b.BasicFilter)
			}
			hdr := reffilter.FilterHeader(reffilter.FilterHash(nb), rev32(unhex(b.PrevHeaderBE)))
			if hdr != rev32(unhex(b.BasicHeaderBE)) {
				k.Failf("calibration:bip158:header", "%s: got %x (internal order) want %s (display order)", b.Net, hdr, b.BasicHeaderBE)
			}
			k.Count("calibrate.bip158", 1)
		}
	case 2: // Golomb-Rice coder: decode(encode(x)) = x, bit-exact hand examples from the BIP158 definition
		// x=0,P=1 -> "0" "0"; x=5,P=2 -> q=1 r=1 -> "10" "01"; packed MSB first: 0 0 1 0 0 1 -> 0b00100100 = 0x24
		var w reffilter.BitWriter
		reffilter.GolombEncode(&w, 0, 1)
		reffilter.GolombEncode(&w, 5, 2)
		if !bytes.Equal(w.Bytes(), []byte{0x24}) {
			k.Failf("calibration:golomb:hand", "got %x want 24", w.Bytes())
		}
		r := k.Rand
		for i := 0; i < 300; i++ {
			p := uint(1 + r.Intn(32))
			n := r.Intn(40)
			var vals []uint64
			var last uint64
			for j := 0; j < n; j++ {
				last += r.EdgeU64() >> uint(64-int(p)-r.Intn(8))
				vals = append(vals, last)
			}
			enc := reffilter.EncodeSorted(vals, p)
			dec, err := reffilter.DecodeGCS(enc, uint64(n), p)
			if err != nil || fmt.Sprint(dec) != fmt.Sprint(vals) {
				k.Failf("calibration:golomb:roundtrip", "p=%d vals=%v dec=%v err=%v", p, vals, dec, err)
			}
			k.Count("calibrate.golomb", 1)
		}
	case 3, 4, 5, 6, 7:
		var v bloomVectors
		if !loadJSON(k, "bip37/bloom_vectors.json", &v) {
			return
		}
		calibrateBloom(k, &v)
	}
	k.Eval(mon.Sig("calibrate", k.Index), true)
}

type bloomVectors struct {
	Murmur3 [][]any `json:"murmur3"`
	Insert  []struct {
		Elements   uint32
		Fprate     float64
		Tweak      uint32
		Flags      byte
		Insert     []string
		Absent     []string
		Filterload string
	}
	BloomMatch struct {
		Tx         string
		SpendingTx string `json:"spending_tx"`
		Elements   uint32
		Fprate     float64
		Tweak      uint32
		Flags      byte
		Cases      []struct {
			Kind                string
			Data                string
			Index               uint32
			Match               bool
			ThenSpendingMatches bool `json:"then_spending_matches"`
		}
	} `json:"bloom_match"`
	P2PK struct {
		Block                string
		Elements             uint32
		Fprate               float64
		Tweak                uint32
		Insert               []string
		OutpointGenerationBE string `json:"outpoint_generation_be"`
		OutpointTx4BE        string `json:"outpoint_tx4_be"`
	} `json:"p2pubkey_only_block"`
	MB3 struct {
		Block        string
		Elements     uint32
		Fprate       float64
		Tweak        uint32
		Flags        byte
		InsertHashBE string `json:"insert_hash_be"`
		Merkleblock  string
	} `json:"merkle_block_3"`
}

func newRefBloom(elements uint32, fprate float64, tweak uint32, flags byte) *reffilter.Bloom {
	size, kk, _ := reffilter.BloomParams(elements, fprate)
	return &reffilter.Bloom{Data: make([]byte, size), K: kk, Tweak: tweak, Flags: flags}
}

func serializeFilterLoad(b *reffilter.Bloom) []byte {
	out := reffilter.CompactSize(uint64(len(b.Data)))
	out = append(out, b.Data...)
	out = append(out, le32(b.K)...)
	out = append(out, le32(b.Tweak)...)
	return append(out, b.Flags)
}

func calibrateBloom(k *mon.Case, v *bloomVectors) {
	switch k.Index {
	case 3:
		for i, m := range v.Murmur3 {
			seed := uint32(m[0].(float64))
			want := uint32(m[2].(float64))
			if got := reffilter.Murmur3(seed, unhex(m[1].(string))); got != want {
				k.Failf("calibration:murmur3", "vector %d got %08x want %08x", i, got, want)
			}
			k.Count("calibrate.murmur3", 1)
		}
	case 4:
		for i, t := range v.Insert {
			b := newRefBloom(t.Elements, t.Fprate, t.Tweak, t.Flags)
			for _, s := range t.Insert {
				b.Insert(unhex(s))
				if !b.Contains(unhex(s)) {
					k.Failf("calibration:bloom:insert", "vector %d: inserted element not contained", i)
				}
			}
			for _, s := range t.Absent {
				if b.Contains(unhex(s)) {
					k.Failf("calibration:bloom:absent", "vector %d: absent element contained", i)
				}
			}
			if got := serializeFilterLoad(b); !bytes.Equal(got, unhex(t.Filterload)) {
				k.Failf("calibration:bloom:filterload", "vector %d: got %x want %s", i, got, t.Filterload)
			}
			k.Count("calibrate.bloom.insert", 1)
		}
	case 5:
		bm := v.BloomMatch
		tx, err := reffilter.ParseTx(unhex(bm.Tx))
		sp, err2 := reffilter.ParseTx(unhex(bm.SpendingTx))
		if err != nil || err2 != nil {
			k.Failf("calibration:bloom:parse", "%v %v", err, err2)
			return
		}
		for i, c := range bm.Cases {
			b := newRefBloom(bm.Elements, bm.Fprate, bm.Tweak, bm.Flags)
			switch c.Kind {
			case "hash_be":
				h := rev32(unhex(c.Data))
				b.Insert(h[:])
			case "data":
				b.Insert(unhex(c.Data))
			case "outpoint_be":
				b.Insert(reffilter.OutPointBytes(rev32(unhex(c.Data)), c.Index))
			}
			if got := b.RelevantAndUpdate(tx); got != c.Match {
				k.Failf("calibration:bloom:relevant", "case %d: got %v want %v", i, got, c.Match)
			}
			if c.ThenSpendingMatches && !b.RelevantAndUpdate(sp) {
				k.Failf("calibration:bloom:relevant-spending", "case %d: spending tx not matched after outpoint auto-insertion", i)
			}
			k.Count("calibrate.bloom.match", 1)
		}
	case 6:
		// the published 7-transaction block: update flags and the partial merkle tree verifier over all 2^7 subsets
		pk := v.P2PK
		blk, err := reffilter.ParseBlock(unhex(pk.Block))
		if err != nil {
			k.Failf("calibration:bloom:parse-block", "%v", err)
			return
		}
		var txids [][32]byte
		for _, t := range blk.Txs {
			txids = append(txids, t.TxID)
		}
		if reffilter.MerkleRoot(txids) != blk.MerkleRoot {
			k.Failf("calibration:pmt:merkleroot", "reference merkle root of the parsed txids differs from the header field")
		}
		gen, tx4 := rev32(unhex(pk.OutpointGenerationBE)), rev32(unhex(pk.OutpointTx4BE))
		if txids[0] != gen || txids[3] != tx4 {
			k.Failf("calibration:rawtx:txid", "parsed txids differ from the published ones")
		}
		for _, flags := range []byte{0, 1, 2} {
			b := newRefBloom(pk.Elements, pk.Fprate, pk.Tweak, flags)
			for _, s := range pk.Insert {
				b.Insert(unhex(s))
			}
			for _, t := range blk.Txs {
				b.RelevantAndUpdate(t)
			}
			g, t4 := b.Contains(reffilter.OutPointBytes(gen, 0)), b.Contains(reffilter.OutPointBytes(tx4, 0))
			wantG, wantT := flags != 0, flags == 1
			if g != wantG || t4 != wantT {
				k.Failf("calibration:bloom:update-flags", "flags=%d generation outpoint %v (want %v) tx4 outpoint %v (want %v)", flags, g, wantG, t4, wantT)
			}
			k.Count("calibrate.bloom.flags", 1)
		}
		n := len(txids)
		for mask := 0; mask < 1<<uint(n); mask++ {
			match := make([]bool, n)
			var wantIdx []uint32
			for i := range match {
				if mask>>uint(i)&1 == 1 {
					match[i] = true
					wantIdx = append(wantIdx, uint32(i))
				}
			}
			hs, fl := reffilter.BuildPartialMerkleTree(txids, match)
			res, err := reffilter.VerifyPartialMerkleTree(uint32(n), hs, fl)
			if err != nil || res.Root != blk.MerkleRoot || fmt.Sprint(res.Index) != fmt.Sprint(wantIdx) {
				k.Failf("calibration:pmt:verify", "mask %b: err=%v", mask, err)
				continue
			}
			// tampering must be detected or change the root
			if len(hs) > 0 {
				hs2 := append([][32]byte(nil), hs...)
				hs2[k.Rand.Intn(len(hs2))][k.Rand.Intn(32)] ^= 1
				if r2, err := reffilter.VerifyPartialMerkleTree(uint32(n), hs2, fl); err == nil && r2.Root == blk.MerkleRoot {
					k.Failf("calibration:pmt:tamper", "mask %b: tampered hash still verifies under the root", mask)
				}
			}
			if _, err := reffilter.VerifyPartialMerkleTree(uint32(n), hs, append(append([]byte{}, fl...), 0)); err == nil {
				k.Failf("calibration:pmt:extra-flag-byte", "mask %b: trailing flag byte accepted", mask)
			}
			k.Count("calibrate.pmt", 1)
		}
	case 7:
		// published merkleblock message of a 1-transaction block
		mb := v.MB3
		blk, err := reffilter.ParseBlock(unhex(mb.Block))
		if err != nil {
			k.Failf("calibration:bloom:parse-block", "%v", err)
			return
		}
		b := newRefBloom(mb.Elements, mb.Fprate, mb.Tweak, mb.Flags)
		h := rev32(unhex(mb.InsertHashBE))
		b.Insert(h[:])
		var txids [][32]byte
		var match []bool
		for _, t := range blk.Txs {
			txids = append(txids, t.TxID)
			match = append(match, b.RelevantAndUpdate(t))
		}
		hs, fl := reffilter.BuildPartialMerkleTree(txids, match)
		out := append([]byte{}, blk.Header...)
		out = append(out, le32(uint32(len(txids)))...)
		out = append(out, reffilter.CompactSize(uint64(len(hs)))...)
		for _, x := range hs {
			out = append(out, x[:]...)
		}
		out = append(out, reffilter.CompactSize(uint64(len(fl)))...)
		out = append(out, fl...)
		if !bytes.Equal(out, unhex(mb.Merkleblock)) {
			k.Failf("calibration:pmt:merkleblock3", "got %x want %s", out, mb.Merkleblock)
		}
		k.Count("calibrate.merkleblock", 1)
	}
}
