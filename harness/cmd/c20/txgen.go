package main

import (
	"verif/mon"
	"verif/ref/reffilter"

	"github.com/btcsuite/btcd/chainhash/v2"
	"github.com/btcsuite/btcd/wire/v2"
)

// gScript is a generated script together with what the generator knows about it.
type gScript struct {
	script    []byte
	kind      string
	pushes    [][]byte // non-empty data pushes, in order
	emptyPush bool     // contains an empty push (OP_0 / zero-length PUSHDATA)
	pubkeyish bool     // pay-to-pubkey or bare multisig (BIP37 BLOOM_UPDATE_P2PUBKEY_ONLY class)
}

func push(data []byte) []byte {
	n := len(data)
	switch {
	case n <= 0x4b:
		return append([]byte{byte(n)}, data...)
	case n <= 0xff:
		return append([]byte{0x4c, byte(n)}, data...)
	default:
		return append([]byte{0x4d, byte(n), byte(n >> 8)}, data...)
	}
}

func randPubKey(r *mon.Rand) []byte {
	if r.Chance(2, 3) {
		k := r.Bytes(33)
		k[0] = 2 + byte(r.Intn(2))
		return k
	}
	k := r.Bytes(65)
	k[0] = 4
	return k
}

var scriptKinds = []string{"p2pkh", "p2sh", "p2wpkh", "p2wsh", "p2tr", "p2pk", "multisig", "opreturn", "opreturn-bare",
	"empty", "nonstd", "pushonly"}

// genOutputScript draws an output script. pool, when not nil, is a list of data elements the generator likes
// to reuse (so that one watched element occurs in several scripts).
func genOutputScript(r *mon.Rand, pool *[][]byte) gScript {
	pick := func(n int) []byte {
		if pool != nil && len(*pool) > 0 && r.Chance(1, 6) {
			for try := 0; try < 4; try++ {
				c := (*pool)[r.Intn(len(*pool))]
				if len(c) == n {
					return c
				}
			}
		}
		b := r.Bytes(n)
		if pool != nil && len(*pool) < 64 {
			*pool = append(*pool, b)
		}
		return b
	}
	kind := scriptKinds[r.PickW([]int{6, 4, 3, 3, 3, 4, 3, 2, 1, 1, 3, 1})]
	g := gScript{kind: kind}
	switch kind {
	case "p2pkh":
		h := pick(20)
		g.script = append(append([]byte{0x76, 0xa9, 0x14}, h...), 0x88, 0xac)
		g.pushes = [][]byte{h}
	case "p2sh":
		h := pick(20)
		g.script = append(append([]byte{0xa9, 0x14}, h...), 0x87)
		g.pushes = [][]byte{h}
	case "p2wpkh":
		h := pick(20)
		g.script = append([]byte{0x00, 0x14}, h...)
		g.pushes = [][]byte{h}
		g.emptyPush = true
	case "p2wsh":
		h := pick(32)
		g.script = append([]byte{0x00, 0x20}, h...)
		g.pushes = [][]byte{h}
		g.emptyPush = true
	case "p2tr":
		h := pick(32)
		g.script = append([]byte{0x51, 0x20}, h...)
		g.pushes = [][]byte{h}
	case "p2pk":
		k := randPubKey(r)
		g.script = append(push(k), 0xac)
		g.pushes = [][]byte{k}
		g.pubkeyish = true
	case "multisig":
		n := 1 + r.Intn(4)
		m := 1 + r.Intn(n)
		g.script = []byte{0x50 + byte(m)}
		for i := 0; i < n; i++ {
			k := randPubKey(r)
			g.script = append(g.script, push(k)...)
			g.pushes = append(g.pushes, k)
		}
		g.script = append(g.script, 0x50+byte(n), 0xae)
		g.pubkeyish = true
	case "opreturn":
		d := r.Bytes(1 + r.Intn(60))
		g.script = append([]byte{0x6a}, push(d)...)
		g.pushes = [][]byte{d}
	case "opreturn-bare":
		g.script = []byte{0x6a}
	case "empty":
		g.script = []byte{}
	case "nonstd":
		// a mix of non-push opcodes and well-formed pushes (incl. PUSHDATA1/2 and the occasional empty push)
		for i := 1 + r.Intn(6); i > 0; i-- {
			switch r.Intn(5) {
			case 0:
				g.script = append(g.script, []byte{0x61, 0x75, 0x76, 0x87, 0xac, 0x51, 0x52, 0x60, 0x4f, 0xb1, 0xb2}[r.Intn(11)])
			case 1:
				d := r.Bytes(r.Intn(3)*100 + r.Intn(80))
				g.script = append(g.script, push(d)...)
				if len(d) == 0 {
					g.emptyPush = true
				} else {
					g.pushes = append(g.pushes, d)
				}
			case 2:
				d := pick([]int{20, 32, 33}[r.Intn(3)])
				g.script = append(g.script, 0x4c, byte(len(d)))
				g.script = append(g.script, d...)
				g.pushes = append(g.pushes, d)
			default:
				d := pick(1 + r.Intn(40))
				g.script = append(g.script, push(d)...)
				g.pushes = append(g.pushes, d)
			}
		}
	case "pushonly":
		d := pick(1 + r.Intn(75))
		g.script = push(d)
		g.pushes = [][]byte{d}
	}
	if g.script == nil {
		g.script = []byte{}
	}
	return g
}

// genSigScript draws a signature script: pushes only (a DER-looking blob and a key, or arbitrary pushes).
func genSigScript(r *mon.Rand, pool *[][]byte) gScript {
	g := gScript{kind: "sigscript"}
	switch r.Intn(4) {
	case 0:
		return g
	case 1:
		sig := append([]byte{0x30}, r.Bytes(68+r.Intn(4))...)
		key := randPubKey(r)
		g.script = append(push(sig), push(key)...)
		g.pushes = [][]byte{sig, key}
	case 2:
		g.script = []byte{0x00}
		g.emptyPush = true
		for i := 1 + r.Intn(3); i > 0; i-- {
			sig := append([]byte{0x30}, r.Bytes(68+r.Intn(4))...)
			g.script = append(g.script, push(sig)...)
			g.pushes = append(g.pushes, sig)
		}
	default:
		for i := 1 + r.Intn(3); i > 0; i-- {
			d := r.Bytes(1 + r.Intn(90))
			g.script = append(g.script, push(d)...)
			g.pushes = append(g.pushes, d)
		}
	}
	if pool != nil && len(*pool) < 64 {
		*pool = append(*pool, g.pushes...)
	}
	return g
}

// gTx is a generated transaction: the btcd message, the reference view and generator knowledge.
type gTx struct {
	msg       *wire.MsgTx
	view      *reffilter.TxView
	outs      []gScript
	ins       []gScript
	emptyPush bool
}

func le32(v uint32) []byte { return []byte{byte(v), byte(v >> 8), byte(v >> 16), byte(v >> 24)} }
func le64(v uint64) []byte {
	return append(le32(uint32(v)), le32(uint32(v>>32))...)
}

// serializeLegacy is the harness' own legacy transaction serialization (for the txid).
func serializeLegacy(version uint32, ins []reffilter.TxInView, seqs []uint32, outs [][]byte, values []uint64, lock uint32) []byte {
	b := le32(version)
	b = append(b, reffilter.CompactSize(uint64(len(ins)))...)
	for i, in := range ins {
		b = append(b, in.PrevHash[:]...)
		b = append(b, le32(in.PrevIndex)...)
		b = append(b, reffilter.CompactSize(uint64(len(in.SigScript)))...)
		b = append(b, in.SigScript...)
		b = append(b, le32(seqs[i])...)
	}
	b = append(b, reffilter.CompactSize(uint64(len(outs)))...)
	for i, o := range outs {
		b = append(b, le64(values[i])...)
		b = append(b, reffilter.CompactSize(uint64(len(o)))...)
		b = append(b, o...)
	}
	return append(b, le32(lock)...)
}

type prevRef struct {
	txid  [32]byte
	index uint32
}

// genTx draws a transaction with nin inputs and nout outputs. spend, when not nil, is used as the first
// input's previous outpoint (to chain transactions).
func genTx(r *mon.Rand, nin, nout int, pool *[][]byte, spend *prevRef) *gTx {
	return genTxWith(r, nin, nout, pool, spend, genOutputScript)
}

// genTxWith is genTx with a chosen output-script generator.
func genTxWith(r *mon.Rand, nin, nout int, pool *[][]byte, spend *prevRef, outGen func(*mon.Rand, *[][]byte) gScript) *gTx {
	g := &gTx{view: &reffilter.TxView{}}
	version := uint32(1 + r.Intn(2))
	lock := uint32(0)
	if r.Chance(1, 4) {
		lock = r.Uint32()
	}
	var seqs []uint32
	var values []uint64
	for i := 0; i < nin; i++ {
		var in reffilter.TxInView
		if i == 0 && spend != nil {
			in.PrevHash, in.PrevIndex = spend.txid, spend.index
		} else {
			r.Fill(in.PrevHash[:])
			in.PrevIndex = uint32(r.Intn(5))
			if r.Chance(1, 20) {
				in.PrevIndex = r.Uint32()
			}
		}
		s := genSigScript(r, pool)
		in.SigScript = s.script
		g.ins = append(g.ins, s)
		g.emptyPush = g.emptyPush || s.emptyPush
		g.view.Inputs = append(g.view.Inputs, in)
		seqs = append(seqs, 0xffffffff-uint32(r.Intn(3)))
	}
	for i := 0; i < nout; i++ {
		s := outGen(r, pool)
		g.outs = append(g.outs, s)
		g.emptyPush = g.emptyPush || s.emptyPush
		g.view.Outputs = append(g.view.Outputs, s.script)
		values = append(values, uint64(r.Int63n(21e14)))
	}
	g.view.TxID = reffilter.DSHA(serializeLegacy(version, g.view.Inputs, seqs, g.view.Outputs, values, lock))

	tx := wire.NewMsgTx(int32(version))
	for i, in := range g.view.Inputs {
		h := chainhash.Hash(in.PrevHash)
		ti := wire.NewTxIn(wire.NewOutPoint(&h, in.PrevIndex), append([]byte(nil), in.SigScript...), nil)
		ti.Sequence = seqs[i]
		tx.AddTxIn(ti)
	}
	for i, o := range g.view.Outputs {
		tx.AddTxOut(wire.NewTxOut(int64(values[i]), append([]byte(nil), o...)))
	}
	tx.LockTime = lock
	g.msg = tx
	return g
}

var hostileKinds = []string{"trunc-direct", "trunc-pushdata1", "trunc-pushdata2", "trunc-pushdata4", "lone-pushdata", "valid-then-trunc",
	"len>10000", "len=10000", "len=9999", "single-byte", "second-byte-opreturn", "opreturn-odd", "opreturn-long", "garbage"}

// genHostileScript draws scripts that no standardness notion likes but that BIP158 treats like any other byte string:
// scripts that do not parse (truncated pushes), oversized scripts, one-byte scripts of every opcode, scripts whose second
// byte is OP_RETURN, and OP_RETURN scripts with odd payloads. Only the first byte (0x6a) and emptiness matter to BIP158.
func genHostileScript(r *mon.Rand) gScript {
	kind := hostileKinds[r.Intn(len(hostileKinds))]
	g := gScript{kind: "hostile:" + kind}
	filler := func(n int) []byte {
		// non-push opcodes only, so that the bulk parses
		b := make([]byte, n)
		ops := []byte{0x61, 0x75, 0x76, 0x51, 0x52, 0x87, 0xac, 0xb1}
		for i := range b {
			b[i] = ops[r.Intn(len(ops))]
		}
		return b
	}
	switch kind {
	case "trunc-direct":
		n := 1 + r.Intn(75)
		g.script = append([]byte{byte(n)}, r.Bytes(r.Intn(n))...)
		if r.Chance(1, 4) {
			g.script = []byte{0x05, 0x01}
		}
	case "trunc-pushdata1":
		n := 1 + r.Intn(255)
		g.script = append([]byte{0x4c, byte(n)}, r.Bytes(r.Intn(n))...)
		if r.Chance(1, 4) {
			g.script = []byte{0x51, 0x4c}
		}
	case "trunc-pushdata2":
		switch r.Intn(3) {
		case 0:
			g.script = []byte{0x4d, byte(r.Intn(256))}
		default:
			n := 1 + r.Intn(600)
			g.script = append([]byte{0x4d, byte(n), byte(n >> 8)}, r.Bytes(r.Intn(n))...)
		}
	case "trunc-pushdata4":
		switch r.Intn(3) {
		case 0:
			g.script = append([]byte{0x4e}, r.Bytes(1+r.Intn(3))...)
		case 1:
			g.script = append([]byte{0x4e, 0xff, 0xff, 0xff, 0xff}, r.Bytes(r.Intn(40))...)
		default:
			n := 1 + r.Intn(300)
			g.script = append([]byte{0x4e, byte(n), byte(n >> 8), 0, 0}, r.Bytes(r.Intn(n))...)
		}
	case "lone-pushdata":
		g.script = []byte{[]byte{0x4c, 0x4d, 0x4e}[r.Intn(3)]}
	case "valid-then-trunc":
		g.script = append(append([]byte{0x76, 0xa9, 0x14}, r.Bytes(20)...), 0x88, 0xac)
		g.script = append(g.script, [][]byte{{0x4c}, {0x4d, 0x01}, {0x4e}, {0x20, 0x01, 0x02}, {0x4b}}[r.Intn(5)]...)
	case "len>10000":
		g.script = filler(10001 + r.Intn(2000))
		if r.Chance(1, 3) {
			// a big well-formed push inside
			g.script = append([]byte{0x4d, 0x10, 0x27}, r.Bytes(10000)...)
			g.script = append(g.script, 0x75, 0x51)
		}
	case "len=10000":
		g.script = filler(10000)
	case "len=9999":
		g.script = filler(9999)
	case "single-byte":
		g.script = []byte{byte(r.Intn(256))}
		switch r.Intn(6) {
		case 0:
			g.script[0] = 0x6a
		case 1:
			g.script[0] = 0x00
		case 2:
			g.script[0] = 0xff
		}
	case "second-byte-opreturn":
		first := []byte{0x00, 0x01, 0x51, 0x61, 0x4c, 0x75, 0xff, 0x6b}[r.Intn(8)]
		g.script = append([]byte{first, 0x6a}, r.Bytes(r.Intn(30))...)
	case "opreturn-odd":
		switch r.Intn(6) {
		case 0:
			g.script = []byte{0x6a, 0x4c}
		case 1:
			g.script = append([]byte{0x6a, 0x20}, r.Bytes(r.Intn(32))...) // truncated push after OP_RETURN
		case 2:
			g.script = []byte{0x6a, 0x6a}
		case 3:
			g.script = append([]byte{0x6a}, filler(1+r.Intn(50))...)
		case 4:
			g.script = append([]byte{0x6a, 0x4d, 0xff, 0xff}, r.Bytes(r.Intn(20))...)
		default:
			g.script = append([]byte{0x6a}, r.Bytes(1+r.Intn(90))...)
		}
	case "opreturn-long":
		g.script = append([]byte{0x6a}, filler(10000+r.Intn(1500))...)
	default:
		g.script = r.Bytes(1 + r.Intn(120))
	}
	return g
}
