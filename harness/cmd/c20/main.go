// Worker for C20: light-client filters never miss (BIP158 GCS filters, BIP157 headers, BIP37 bloom filters and
// merkle blocks). The real btcd packages btcutil/gcs, btcutil/gcs/builder and btcutil/bloom are executed on generated
// inputs; the oracle is verif/ref/reffilter (written from the BIPs, calibrated in the calibrate family).
package main

import (
	"fmt"

	"verif/mon"
)

func main() {
	mon.Main("C20", func(c *mon.Ctx) {
		c.Rule("gcs.*: random element multisets (0..20000 elements, duplicates, empty element), P in 1..32, M = 784931 or M in [1,2^(P+4)], " +
			"random SipHash keys; crafted value lists loaded through FromBytes/FromNBytes; sets with N*M > 2^32. " +
			"basic: chains of generated blocks (all standard script types, OP_RETURN, empty scripts, shared scripts, and hostile output / spent scripts: " +
			"truncated pushes, lone PUSHDATA opcodes, 9999 / 10000 / >10000-byte scripts, every one-byte script, second byte OP_RETURN, odd OP_RETURN payloads). " +
			"bloom.*: filters from NewFilter / LoadFilter (1..36000 bytes, 0..50 hash functions, tweaks, three update flags), op sequences and " +
			"transaction graphs watching txids / script data / outpoints. merkle.*: blocks of 1..600 transactions with none/all/single/sparse/dense/" +
			"run/enumerated matched subsets. distinct = (family, parameters, sizes, leading filter / flag bytes); non-trivial = non-empty set / at least " +
			"one insertion / at least one proved transaction")
		c.Note("oracle verif/ref/reffilter is independent of btcd (std crypto/sha256 and math/bits only); calibrated on the SipHash-2-4 reference vectors, " +
			"the BIP158 genesis-block filters/headers, Bitcoin Core's murmur3 / bloom / merkleblock examples shipped in btcutil/bloom/*_test.go")

		c.Family("calibrate", nCalibrate, calibrate)

		c.Family("gcs.build", c.N(2500, 40000), famGCSBuild(c))
		c.Family("gcs.crafted", c.N(1200, 40000), famGCSCrafted(c))
		c.Family("gcs.wide", c.N(14, 100), famGCSWide(c))
		c.Family("basic", c.N(700, 15000), famBasic(c))
		c.Family("bloom.ops", c.N(4000, 150000), famBloomOps(c))
		c.Family("bloom.tx", c.N(4000, 150000), famBloomTx(c))
		c.Family("merkle", c.N(1500, 25000), famMerkle(c))
		maxN := int(c.N(7, 11))
		c.Family("merkle.subsets", merkleSubsetCount(maxN), famMerkleSubsets(c, maxN))
		c.Exhaustive(fmt.Sprintf("every matched subset of every block size 1..%d (family merkle.subsets)", maxN))

		c.Family("cfindex", c.N(84, 4000), famCfIndex)
		c.Require("cfindex.blocks_checked", 2000)
		c.Require("cfindex.reorgs", 20)
		c.Require("cfindex.catch-ups", 20)

		c.Require("calibrate.siphash", 64)
		c.Require("calibrate.bip158", 2)
		c.Require("calibrate.pmt", 128)
		c.Require("gcs.encoding", 1000)
		c.Require("gcs.match.member", 10000)
		c.Require("gcs.batch", 5000)
		c.Require("gcs.crafted.hits", 1000)
		c.Require("gcs.wide.alias-found", 5)
		c.Require("basic.blocks", 500)
		c.Require("basic.match.output", 2000)
		c.Require("basic.match.prevout", 1000)
		c.Require("basic.match.excluded-opreturn", 50)
		for _, hk := range hostileKinds {
			c.Require("basic.script.hostile:"+hk, 20)
		}
		c.Require("bloom.add", 10000)
		c.Require("bloom.query", 10000)
		c.Require("bloom.tx.relevant", 1000)
		c.Require("bloom.tx.auto-inserted.flags=1", 50)
		c.Require("bloom.tx.auto-inserted.flags=2", 20)
		c.Require("merkle.blocks", 1000)
		c.Require("merkle.matched=some", 200)
		c.Require("merkle.n>=256", 20)
	})
}
