package main

import (
	"bytes"
	"encoding/hex"
	"fmt"
	"math"

	"verif/mon"
	"verif/ref/reffilter"

	"github.com/btcsuite/btcd/btcutil/v2"
	"github.com/btcsuite/btcd/btcutil/v2/bloom"
	"github.com/btcsuite/btcd/chainhash/v2"
	"github.com/btcsuite/btcd/wire/v2"
)

// genFilter creates a btcd filter and its reference twin, either through NewFilter (BIP37 sizing) or LoadFilter
// (arbitrary bit field, hash function count, tweak). The returned description is replayable.
func genFilter(k *mon.Case, r *mon.Rand, wantUsable bool) (*bloom.Filter, *reffilter.Bloom, map[string]any) {
	flags := byte(r.Intn(3))
	tweak := r.Uint32()
	switch r.Intn(6) {
	case 0:
		tweak = 0
	case 1:
		tweak = 0xffffffff
	}
	if r.Chance(3, 5) {
		var elements uint32
		switch r.Intn(6) {
		case 0:
			elements = uint32(1 + r.Intn(4))
		case 1:
			elements = uint32(1000 + r.Intn(200000))
		default:
			elements = uint32(1 + r.Intn(300))
		}
		fprate := math.Pow(10, -9*r.Float64()) // NewFilter documents that it clamps the rate to [1e-9, 1]
		if r.Chance(1, 8) {
			fprate = []float64{1e-9, 0.5, 0.01, 1.0, 0.999, 1e-6}[r.Intn(6)]
		}
		if wantUsable && fprate > 0.3 {
			fprate = 0.001
		}
		f := bloom.NewFilter(elements, tweak, fprate, wire.BloomUpdateType(flags))
		desc := map[string]any{"ctor": "NewFilter", "elements": elements, "fprate": fprate, "tweak": tweak, "flags": flags}
		msg := f.MsgFilterLoad()
		size, kk, exact := reffilter.BloomParams(elements, fprate)
		if exact {
			if uint32(len(msg.Filter)) != size || msg.HashFuncs != kk {
				k.Failf("bloom:NewFilter:neq-bip37-sizing", "NewFilter(%d, %v): %d bytes / %d hash funcs, BIP37 formulas give %d / %d", elements, fprate, len(msg.Filter), msg.HashFuncs, size, kk)
			}
			k.Count("bloom.newfilter.sizing", 1)
		}
		if msg.Tweak != tweak || byte(msg.Flags) != flags {
			k.Failf("bloom:NewFilter:params", "tweak/flags not carried")
		}
		if len(msg.Filter) > reffilter.MaxBloomFilterSize || msg.HashFuncs > reffilter.MaxHashFuncs {
			k.Failf("bloom:NewFilter:limits", "%d bytes / %d hash funcs exceed the BIP37 limits", len(msg.Filter), msg.HashFuncs)
		}
		ref := &reffilter.Bloom{Data: append([]byte(nil), msg.Filter...), K: msg.HashFuncs, Tweak: msg.Tweak, Flags: byte(msg.Flags)}
		return f, ref, desc
	}
	var size int
	switch r.Intn(8) {
	case 0:
		size = 1
	case 1:
		size = 2 + r.Intn(7)
	case 2:
		size = reffilter.MaxBloomFilterSize - r.Intn(2)
	case 3:
		size = 1000 + r.Intn(30000)
	default:
		size = 1 + r.Intn(600)
	}
	kk := uint32(1 + r.Intn(50))
	switch r.Intn(10) {
	case 0:
		kk = 50
	case 1:
		if !wantUsable {
			kk = 0
		}
	case 2:
		kk = 1
	}
	data := make([]byte, size)
	if r.Chance(1, 4) {
		// pre-populated bit field
		r.Fill(data)
		for i := range data {
			data[i] &= byte(r.Uint32())
		}
	}
	desc := map[string]any{"ctor": "LoadFilter", "filter": hex.EncodeToString(trunc(data)), "size": size, "hashfuncs": kk, "tweak": tweak, "flags": flags}
	f := bloom.LoadFilter(&wire.MsgFilterLoad{Filter: append([]byte(nil), data...), HashFuncs: kk, Tweak: tweak, Flags: wire.BloomUpdateType(flags)})
	ref := &reffilter.Bloom{Data: data, K: kk, Tweak: tweak, Flags: flags}
	return f, ref, desc
}

func kClass(ref *reffilter.Bloom) string {
	if ref.K == 0 {
		return "hashfuncs=0"
	}
	return "hashfuncs>0"
}

// famBloomOps: Add / AddHash / AddOutPoint / Matches / MatchesOutPoint sequences mirrored into the reference filter.
func famBloomOps(c *mon.Ctx) func(k *mon.Case) {
	return func(k *mon.Case) {
		r := k.Rand
		// murmur3 first (pure function)
		for i := 0; i < 20; i++ {
			seed := r.Uint32()
			d := r.Bytes(r.Intn(70))
			if got, want := bloom.MurmurHash3(seed, d), reffilter.Murmur3(seed, d); got != want {
				k.Failf("bloom:MurmurHash3", "seed %08x data %x: got %08x want %08x", seed, d, got, want)
			}
			k.Count("bloom.murmur3", 1)
		}
		f, ref, desc := genFilter(k, r, false)
		k.Desc(desc)
		if len(ref.Data) == 0 {
			// an empty bit field: the property only demands that nothing crashes
			f.Add([]byte{1})
			f.Matches([]byte{1})
			k.Count("bloom.empty-bitfield", 1)
			k.Eval(mon.Sig("bloom.ops.empty", ref.K), false)
			return
		}
		nops := 5 + r.Intn(60)
		var inserted [][]byte
		for i := 0; i < nops; i++ {
			switch r.Intn(6) {
			case 0, 1:
				d := r.Bytes([]int{20, 32, 33, 65, 1 + r.Intn(80), 0}[r.Intn(6)])
				f.Add(d)
				ref.Insert(d)
				inserted = append(inserted, d)
				if !f.Matches(d) {
					k.Failf("bloom:inserted-not-matched:"+kClass(ref), "Add(%x) then Matches = false (bit field %d bytes, %d hash funcs, tweak %d)", d, len(ref.Data), ref.K, ref.Tweak)
				}
				k.Count("bloom.add", 1)
			case 2:
				var h chainhash.Hash
				r.Fill(h[:])
				if r.Bool() {
					f.AddHash(&h)
					ref.Insert(h[:])
					inserted = append(inserted, append([]byte(nil), h[:]...))
					if !f.Matches(h[:]) {
						k.Failf("bloom:inserted-not-matched:"+kClass(ref), "AddHash(%x) then Matches = false", h[:])
					}
				} else {
					idx := uint32(r.Intn(4))
					if r.Chance(1, 6) {
						idx = r.Uint32()
					}
					op := wire.NewOutPoint(&h, idx)
					f.AddOutPoint(op)
					ob := reffilter.OutPointBytes(h, idx)
					ref.Insert(ob)
					inserted = append(inserted, ob)
					if !f.MatchesOutPoint(op) {
						k.Failf("bloom:inserted-not-matched:"+kClass(ref), "AddOutPoint(%x:%d) then MatchesOutPoint = false", h[:], idx)
					}
					if f.Matches(ob) != f.MatchesOutPoint(op) {
						k.Failf("bloom:MatchesOutPoint:serialization", "MatchesOutPoint differs from Matches(txid || LE32(index))")
					}
				}
				k.Count("bloom.add", 1)
			case 3:
				if len(inserted) > 0 {
					d := inserted[r.Intn(len(inserted))]
					if !f.Matches(d) {
						k.Failf("bloom:inserted-not-matched:"+kClass(ref), "earlier inserted %x no longer matched", d)
					}
					k.Count("bloom.rematch", 1)
				}
			default:
				if ref.K == 0 {
					// zero hash functions: only the stated property (inserted => matched) is checked
					continue
				}
				q := r.Bytes(1 + r.Intn(40))
				got, want := f.Matches(q), ref.Contains(q)
				if got != want {
					dir := "false-negative"
					if got {
						dir = "false-positive"
					}
					k.Failf("bloom:Matches:neq-reference:"+dir+":"+kClass(ref), "Matches(%x)=%v reference=%v", q, got, want)
				}
				if want {
					k.Count("bloom.query.hit", 1)
				}
				k.Count("bloom.query", 1)
			}
		}
		for _, d := range inserted {
			if !f.Matches(d) {
				k.Failf("bloom:inserted-not-matched:"+kClass(ref), "at the end: inserted %x not matched", d)
			}
		}
		if got := f.MsgFilterLoad(); !bytes.Equal(got.Filter, ref.Data) || got.HashFuncs != ref.K || got.Tweak != ref.Tweak {
			k.Failf("bloom:bitfield:neq-reference:"+kClass(ref), "bit field after %d insertions differs from the BIP37 reference", len(inserted))
		}
		k.Count("bloom.ops.cases", 1)
		k.C.EvalN(int64(nops))
		k.Count(fmt.Sprintf("bloom.flags=%d", ref.Flags), 1)
		if ref.K == 0 {
			k.Count("bloom.hashfuncs=0", 1)
		}
		k.Eval(mon.Sig("bloom.ops", len(ref.Data), ref.K, ref.Tweak, len(inserted)), len(inserted) > 0)
	}
}

// watch inserts into both filters some data that makes tx t relevant.
func watch(r *mon.Rand, f *bloom.Filter, ref *reffilter.Bloom, t *gTx) string {
	type cand struct {
		what string
		data []byte
	}
	var cs []cand
	cs = append(cs, cand{"txid", t.view.TxID[:]})
	for _, o := range t.outs {
		for _, p := range o.pushes {
			cs = append(cs, cand{"out-push:" + o.kind, p})
		}
	}
	for i, in := range t.ins {
		cs = append(cs, cand{"outpoint", reffilter.OutPointBytes(t.view.Inputs[i].PrevHash, t.view.Inputs[i].PrevIndex)})
		for _, p := range in.pushes {
			cs = append(cs, cand{"sig-push", p})
		}
	}
	c := cs[r.Intn(len(cs))]
	f.Add(c.data)
	ref.Insert(c.data)
	return c.what
}

func bitsSubset(a, b []byte) bool { // a ⊆ b
	if len(a) != len(b) {
		return false
	}
	for i := range a {
		if a[i]&^b[i] != 0 {
			return false
		}
	}
	return true
}

// matchStep runs MatchTxAndUpdate on btcd and the reference rule and compares verdict and bit field.
func matchStep(k *mon.Case, f *bloom.Filter, ref *reffilter.Bloom, t *gTx, exact *bool) (got, want bool) {
	bt := btcutil.NewTx(t.msg)
	if [32]byte(*bt.Hash()) != t.view.TxID {
		k.Failf("harness:txid", "btcd txid %x differs from the harness' own %x", bt.Hash()[:], t.view.TxID)
	}
	got = f.MatchTxAndUpdate(bt)
	want = ref.RelevantAndUpdate(t.view)
	if t.emptyPush && ref.Contains(nil) {
		// btcd also tests empty data pushes (BIP37 / Core skip them): when the empty element is in the filter
		// (bits only grow, so this covers the whole step) btcd may match more, never less
		*exact = false
	}
	fl := fmt.Sprintf("flags=%d", ref.Flags)
	if want && !got {
		k.Failf("bloom:MatchTxAndUpdate:missed:"+fl, "relevant transaction %x not matched", t.view.TxID)
	}
	if *exact && got && !want {
		k.Failf("bloom:MatchTxAndUpdate:extra-match:"+fl, "transaction %x matched but is not relevant per BIP37", t.view.TxID)
	}
	bf := f.MsgFilterLoad().Filter
	if !bitsSubset(ref.Data, bf) {
		k.Failf("bloom:MatchTxAndUpdate:update-missing:"+fl, "after tx %x: bits the BIP37 update rule sets are missing (outpoint auto-insertion)", t.view.TxID)
	}
	if *exact && !bytes.Equal(ref.Data, bf) {
		k.Failf("bloom:MatchTxAndUpdate:update-extra:"+fl, "after tx %x: bit field has bits the BIP37 update rule does not set", t.view.TxID)
	}
	if !*exact {
		// resynchronise the reference to btcd's superset so that later steps stay comparable
		copy(ref.Data, bf)
	}
	return
}

// famBloomTx: small transaction graphs against filters watching txids / script data / outpoints.
func famBloomTx(c *mon.Ctx) func(k *mon.Case) {
	return func(k *mon.Case) {
		r := k.Rand
		f, ref, desc := genFilter(k, r, true)
		if len(ref.Data) == 0 || ref.K == 0 {
			k.Count("bloom.tx.skipped-unusable-filter", 1)
			return
		}
		ntx := 1 + r.Intn(6)
		desc["ntx"] = ntx
		k.Desc(desc)
		var pool [][]byte
		var txs []*gTx
		for i := 0; i < ntx; i++ {
			var spend *prevRef
			if i > 0 && r.Chance(1, 2) {
				j := r.Intn(i)
				if len(txs[j].outs) > 0 {
					spend = &prevRef{txid: txs[j].view.TxID, index: uint32(r.Intn(len(txs[j].outs)))}
				}
			}
			txs = append(txs, genTx(r, 1+r.Intn(3), 1+r.Intn(4), &pool, spend))
		}
		nwatch := 1 + r.Intn(2)
		for i := 0; i < nwatch; i++ {
			w := watch(r, f, ref, txs[r.Intn(1+r.Intn(ntx))])
			k.Count("bloom.tx.watch."+w, 1)
		}
		exact := true
		before := append([]byte(nil), ref.Data...)
		for _, t := range txs {
			got, want := matchStep(k, f, ref, t, &exact)
			if want {
				k.Count("bloom.tx.relevant", 1)
			} else if !got {
				k.Count("bloom.tx.irrelevant", 1)
			}
			k.Count("bloom.tx.steps", 1)
			k.C.EvalN(1)
		}
		if ref.Flags == reffilter.UpdateNone && exact && !bytes.Equal(before, f.MsgFilterLoad().Filter) {
			k.Failf("bloom:MatchTxAndUpdate:update-extra:flags=0", "BLOOM_UPDATE_NONE filter changed")
		}
		if !bytes.Equal(before, ref.Data) {
			k.Count(fmt.Sprintf("bloom.tx.auto-inserted.flags=%d", ref.Flags), 1)
		}
		if exact {
			k.Count("bloom.tx.exact-cases", 1)
		}
		k.Eval(mon.Sig("bloom.tx", len(ref.Data), ref.K, ref.Flags, ntx, hex.EncodeToString(txs[0].view.TxID[:4])), true)
	}
}
