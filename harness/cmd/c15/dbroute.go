package main

import (
	"bytes"
	"fmt"
	"math/big"
	"os"
	"path/filepath"
	"sort"
	"time"

	"verif/mon"
	"verif/ref/refcodec"

	"github.com/btcsuite/btcd/address/v2"
	"github.com/btcsuite/btcd/blockchain"
	"github.com/btcsuite/btcd/btcec/v2"
	"github.com/btcsuite/btcd/btcutil/v2"
	"github.com/btcsuite/btcd/chaincfg/v2"
	"github.com/btcsuite/btcd/chainhash/v2"
	"github.com/btcsuite/btcd/database"
	_ "github.com/btcsuite/btcd/database/ffldb"
	"github.com/btcsuite/btcd/txscript/v2"
	"github.com/btcsuite/btcd/wire/v2"
)

type fixedTime struct{ now int64 }

func (f *fixedTime) AdjustedTime() time.Time         { return time.Unix(f.now, 0) }
func (f *fixedTime) AddTimeSample(string, time.Time) {}
func (f *fixedTime) Offset() time.Duration           { return 0 }

func randBig(r *mon.Rand) *big.Int {
	switch r.Intn(4) {
	case 0:
		return new(big.Int)
	case 1:
		return new(big.Int).Lsh(big.NewInt(1), uint(r.Intn(300)))
	default:
		return new(big.Int).SetBytes(r.Bytes(r.Intn(40)))
	}
}

func dbParams() chaincfg.Params {
	p := chaincfg.RegressionNetParams
	p.Name = "regtest-c15"
	for i := range p.Deployments {
		p.Deployments[i].DeploymentStarter = chaincfg.NewMedianTimeDeploymentStarter(time.Time{})
		p.Deployments[i].DeploymentEnder = chaincfg.NewMedianTimeDeploymentEnder(time.Time{})
	}
	p.CoinbaseMaturity = 2
	return p
}

type node struct {
	dir   string
	p     chaincfg.Params
	db    database.DB
	chain *blockchain.BlockChain
}

func openNode(dir string, create bool) (*node, error) {
	n := &node{dir: dir, p: dbParams()}
	var err error
	if create {
		n.db, err = database.Create("ffldb", dir, n.p.Net)
	} else {
		n.db, err = database.Open("ffldb", dir, n.p.Net)
	}
	if err != nil {
		return nil, err
	}
	now := n.p.GenesisBlock.Header.Timestamp.Unix() + 20*365*86400
	n.chain, err = blockchain.New(&blockchain.Config{DB: n.db, ChainParams: &n.p, TimeSource: &fixedTime{now}})
	if err != nil {
		n.db.Close()
		return nil, err
	}
	return n, nil
}

func (n *node) close() { n.db.Close() }

// ---------------------------------------------------------------------------------------------
// block rows through dbStoreBlockNode (route 2, needs a database transaction)

func blockRowFamily(c *mon.Ctx) {
	c.Family("blockrow", tierN(c, 28, 2000), func(k *mon.Case) {
		r := k.Rand
		dir := filepath.Join(k.C.OutDir, fmt.Sprintf("c15-row-%d-%d", k.C.Shard, k.Index))
		os.RemoveAll(dir)
		defer os.RemoveAll(dir)
		n, err := openNode(dir, true)
		if err != nil {
			panic(err)
		}
		defer n.close()
		type row struct {
			h      refcodec.Header
			height int32
			status byte
		}
		var rows []row
		var descs []string
		for i := 0; i < 48; i++ {
			rw := row{randHeader(r), genHeight(r), byte(r.Intn(256))}
			if r.Chance(1, 3) {
				rw.status = []byte{0, 1, 2, 3, 4, 8, 16, 17, 19}[r.Intn(9)]
			}
			rows = append(rows, rw)
			descs = append(descs, fmt.Sprintf("%s h=%d st=%d", hdrDesc(rw.h), rw.height, rw.status))
		}
		k.Desc(descs)
		err = n.db.Update(func(tx database.Tx) error {
			for _, rw := range rows {
				wh := &wire.BlockHeader{Version: rw.h.Version, PrevBlock: rw.h.Prev, MerkleRoot: rw.h.MerkleRoot,
					Timestamp: time.Unix(int64(rw.h.Time), 0), Bits: rw.h.Bits, Nonce: rw.h.Nonce}
				if err := blockchain.VerifStoreBlockNode(tx, wh, rw.height, rw.status); err != nil {
					return err
				}
			}
			return nil
		})
		if err != nil {
			k.Failf("blockrow:dbStoreBlockNode:error", "%v", err)
			return
		}
		_ = n.db.View(func(tx database.Tx) error {
			b := tx.Metadata().Bucket([]byte("blockheaderidx"))
			for _, rw := range rows {
				hash := dsha(rw.h.Bytes())
				ch := chainhash.Hash(hash)
				wantKey := refcodec.BlockIndexKey(hash, uint32(rw.height))
				if gk := blockchain.VerifBlockIndexKey(&ch, uint32(rw.height)); !bytes.Equal(gk, wantKey) {
					k.Failf("blockrow:blockIndexKey", "key %x, documented form %x", gk, wantKey)
				}
				got := b.Get(wantKey)
				want := refcodec.BlockRow(rw.h, rw.status)
				if !bytes.Equal(got, want) {
					k.Failf("blockrow:dbStoreBlockNode:bytes", "row under key %x = %x, documented form %x", wantKey, got, want)
					continue
				}
				gh, st, err := blockchain.VerifDeserializeBlockRow(got)
				if err != nil || st != rw.status || !headerEqual(gh, rw.h.Bytes()) {
					k.Failf("blockrow:deserializeBlockRow", "row %x decodes to %+v status %d err %v", got, gh, st, err)
				}
				k.Count("blockrow.roundtrip", 1)
			}
			return nil
		})
		k.Eval(mon.Sig("blockrow", k.Index), true)
		k.C.EvalN(int64(len(rows) - 1))
	})
	c.Require("blockrow.roundtrip", 1000)
}

// ---------------------------------------------------------------------------------------------
// route 1: the records a real node writes

type coin struct {
	height   int32
	coinbase bool
	amount   int64
	script   []byte
	// how to spend it (nil key: anyone-can-spend forms)
	key    *btcec.PrivateKey
	kind   string
	redeem []byte
}

type keyed struct {
	priv *btcec.PrivateKey
	pub  *btcec.PublicKey
}

func newKey(r *mon.Rand) keyed {
	for {
		b := r.Bytes(32)
		b[0] &= 0x7f
		if new(big.Int).SetBytes(b).Sign() == 0 {
			continue
		}
		priv, pub := btcec.PrivKeyFromBytes(b)
		return keyed{priv, pub}
	}
}

// parseableOther builds a script of complete pushes and plain opcodes (never provably unspendable).
func parseableOther(r *mon.Rand) []byte {
	var s []byte
	for i := 0; i < r.Intn(8); i++ {
		switch r.Intn(3) {
		case 0:
			n := r.Intn(76)
			s = append(s, byte(n))
			s = append(s, r.Bytes(n)...)
		case 1:
			s = append(s, byte(0x51+r.Intn(16)))
		default:
			s = append(s, []byte{0x61, 0x75, 0x76, 0x87, 0xac, 0x00}[r.Intn(6)])
		}
	}
	return s
}

// genOutput draws an output script for the real chain together with the way to spend it.
func genOutput(r *mon.Rand, amount int64, height int32, cb bool) coin {
	c := coin{height: height, coinbase: cb, amount: amount}
	kinds := []string{"true", "p2pkh", "p2pkh-uncomp", "p2sh", "p2pk-comp", "p2pk-uncomp", "p2pk-comp-offcurve", "p2pk-uncomp-wrong-y",
		"p2pk-hybrid", "witness", "empty", "other", "near-p2pkh-parseable"}
	c.kind = kinds[r.Intn(len(kinds))]
	switch c.kind {
	case "true":
		c.script = []byte{txscript.OP_TRUE}
	case "p2pkh", "p2pkh-uncomp":
		kk := newKey(r)
		c.key = kk.priv
		pk := kk.pub.SerializeCompressed()
		if c.kind == "p2pkh-uncomp" {
			pk = kk.pub.SerializeUncompressed()
		}
		c.script = cat([]byte{0x76, 0xa9, 20}, address.Hash160(pk), []byte{0x88, 0xac})
	case "p2sh":
		c.redeem = []byte{txscript.OP_TRUE}
		c.script = cat([]byte{0xa9, 20}, address.Hash160(c.redeem), []byte{0x87})
	case "p2pk-comp":
		kk := newKey(r)
		c.key = kk.priv
		c.script = cat([]byte{33}, kk.pub.SerializeCompressed(), []byte{0xac})
	case "p2pk-uncomp":
		kk := newKey(r)
		c.key = kk.priv
		c.script = cat([]byte{65}, kk.pub.SerializeUncompressed(), []byte{0xac})
	case "near-p2pkh-parseable":
		c.script = cat([]byte{0x76, 0xa9, 20}, r.Bytes(20), []byte{0x88, 0xad})
	case "other":
		c.script = parseableOther(r)
	default:
		c.script = genScript(r, c.kind)
	}
	return c
}

func (c *coin) spendable() bool {
	switch c.kind {
	case "true", "p2pkh", "p2pkh-uncomp", "p2sh", "p2pk-comp", "p2pk-uncomp":
		return true
	}
	return false
}

func pushData(d []byte) []byte {
	s, err := txscript.NewScriptBuilder().AddData(d).Script()
	if err != nil {
		panic(err)
	}
	return s
}

// sign fills the signature script of input idx spending c.
func sign(tx *wire.MsgTx, idx int, c *coin) {
	switch c.kind {
	case "true":
	case "p2sh":
		tx.TxIn[idx].SignatureScript = pushData(c.redeem)
	case "p2pkh", "p2pkh-uncomp":
		s, err := txscript.SignatureScript(tx, idx, c.script, txscript.SigHashAll, c.key, c.kind == "p2pkh")
		if err != nil {
			panic(err)
		}
		tx.TxIn[idx].SignatureScript = s
	case "p2pk-comp", "p2pk-uncomp":
		sig, err := txscript.RawTxInSignature(tx, idx, c.script, txscript.SigHashAll, c.key)
		if err != nil {
			panic(err)
		}
		tx.TxIn[idx].SignatureScript = pushData(sig)
	}
}

func dsha(b []byte) [32]byte { return chainhash.DoubleHashH(b) }

func solve(h *wire.BlockHeader) {
	limit := new(big.Int).Lsh(big.NewInt(1), 255)
	for {
		hash := h.BlockHash()
		// little-endian number below 2^255: top bit of the last byte clear
		if hash[31]&0x80 == 0 && new(big.Int).SetBytes(reverse(hash[:])).Cmp(limit) < 0 {
			return
		}
		h.Nonce++
	}
}

func reverse(b []byte) []byte {
	out := make([]byte, len(b))
	for i := range b {
		out[len(b)-1-i] = b[i]
	}
	return out
}

type world struct {
	utxo     map[wire.OutPoint]*coin
	journal  map[chainhash.Hash][]refcodec.Stxo // per block, in spending order
	blocks   []*wire.MsgBlock
	totalTxs uint64
}

func (w *world) stxoOf(c *coin) refcodec.Stxo {
	return refcodec.Stxo{Height: c.height, CoinBase: c.coinbase, Amount: uint64(c.amount), Script: c.script}
}

// buildChain mines nblocks blocks on the node, spending and creating outputs of every class.
func buildChain(k *mon.Case, n *node, w *world, nblocks int) bool {
	r := k.Rand
	prev := n.p.GenesisBlock.Header
	if len(w.blocks) > 0 {
		prev = w.blocks[len(w.blocks)-1].Header
	}
	height := int32(len(w.blocks))
	ts := prev.Timestamp.Unix()
	if ts < 1400000000 { // after the BIP16 switch-over time, so that P2SH evaluation is on (btcd keys it on the block time)
		ts = 1400000000
	}
	for b := 0; b < nblocks; b++ {
		height++
		ts += 600
		var txs []*wire.MsgTx
		var spentList []refcodec.Stxo
		created := map[wire.OutPoint]*coin{}
		removed := map[wire.OutPoint]bool{}
		var fees int64
		// spending transactions
		var cands []wire.OutPoint
		for op, c := range w.utxo {
			if c.spendable() && (!c.coinbase || height-c.height >= int32(n.p.CoinbaseMaturity)) {
				cands = append(cands, op)
			}
		}
		sort.Slice(cands, func(i, j int) bool {
			if c := bytes.Compare(cands[i].Hash[:], cands[j].Hash[:]); c != 0 {
				return c < 0
			}
			return cands[i].Index < cands[j].Index
		})
		for _, i := range r.Perm(len(cands)) {
			if len(txs) >= 4 || len(cands) == 0 {
				break
			}
			_ = i
			tx := wire.NewMsgTx(2)
			var ins []*coin
			var inSum int64
			nin := 1 + r.Intn(3)
			for _, j := range r.Perm(len(cands)) {
				op := cands[j]
				if removed[op] || len(ins) >= nin {
					continue
				}
				removed[op] = true
				c := w.utxo[op]
				tx.AddTxIn(wire.NewTxIn(&op, nil, nil))
				ins = append(ins, c)
				inSum += c.amount
			}
			if len(ins) == 0 {
				break
			}
			fee := r.Int63n(inSum/10 + 1)
			rest := inSum - fee
			nout := 1 + r.Intn(4)
			var outs []coin
			for o := 0; o < nout; o++ {
				amt := rest
				if o < nout-1 {
					amt = r.Int63n(rest + 1)
					if r.Chance(1, 4) { // round amounts exercise the exponent digits
						amt -= amt % pow10i(r.Intn(10))
					}
				}
				rest -= amt
				c := genOutput(r, amt, height, false)
				outs = append(outs, c)
				tx.AddTxOut(wire.NewTxOut(amt, c.script))
			}
			for idx, c := range ins {
				sign(tx, idx, c)
			}
			fees += fee
			txs = append(txs, tx)
			for _, c := range ins {
				spentList = append(spentList, w.stxoOf(c))
			}
			h := tx.TxHash()
			for o := range outs {
				created[wire.OutPoint{Hash: h, Index: uint32(o)}] = &outs[o]
			}
		}
		// coinbase
		cbScript, _ := txscript.NewScriptBuilder().AddInt64(int64(height)).AddInt64(int64(r.Uint32())).Script()
		cb := wire.NewMsgTx(1)
		cb.AddTxIn(wire.NewTxIn(wire.NewOutPoint(&chainhash.Hash{}, wire.MaxPrevOutIndex), cbScript, nil))
		rest := int64(50*100000000)>>uint(height/150) + fees
		if r.Chance(1, 5) {
			rest -= r.Int63n(rest/2 + 1) // claims less than allowed
		}
		ncb := 2 + r.Intn(5)
		var cbOuts []coin
		for o := 0; o < ncb; o++ {
			amt := rest
			if o < ncb-1 {
				amt = r.Int63n(rest/2 + 1)
				if r.Chance(1, 3) {
					amt -= amt % pow10i(r.Intn(10))
				}
			}
			rest -= amt
			c := genOutput(r, amt, height, true)
			if o == 0 { // always keep something spendable around
				c.kind, c.script, c.key = "true", []byte{txscript.OP_TRUE}, nil
			}
			cbOuts = append(cbOuts, c)
			cb.AddTxOut(wire.NewTxOut(amt, c.script))
		}
		cbHash := cb.TxHash()
		for o := range cbOuts {
			created[wire.OutPoint{Hash: cbHash, Index: uint32(o)}] = &cbOuts[o]
		}
		blk := &wire.MsgBlock{Header: wire.BlockHeader{Version: 0x20000000, PrevBlock: prev.BlockHash(), Timestamp: time.Unix(ts, 0), Bits: n.p.PowLimitBits}}
		blk.AddTransaction(cb)
		for _, tx := range txs {
			blk.AddTransaction(tx)
		}
		blk.Header.MerkleRoot = blockchain.CalcMerkleRoot(btcutilTxs(blk), false)
		solve(&blk.Header)
		main, orphan, err := n.chain.ProcessBlock(btcutil.NewBlock(blk), blockchain.BFNone)
		if err != nil || !main || orphan {
			// the generator produced something the node refuses: not this property's business, but the case is void
			k.Count("db.generator-block-refused", 1)
			k.C.Note(fmt.Sprintf("db family: generated block refused at height %d: main=%v orphan=%v err=%v", height, main, orphan, err))
			return false
		}
		for op := range removed {
			delete(w.utxo, op)
		}
		for op, c := range created {
			w.utxo[op] = c
		}
		w.journal[blk.Header.BlockHash()] = spentList
		w.blocks = append(w.blocks, blk)
		w.totalTxs += uint64(len(blk.Transactions))
		prev = blk.Header
	}
	return true
}

func pow10i(k int) int64 {
	v := int64(1)
	for i := 0; i < k; i++ {
		v *= 10
	}
	return v
}

func btcutilTxs(b *wire.MsgBlock) []*btcutil.Tx {
	var out []*btcutil.Tx
	for _, t := range b.Transactions {
		out = append(out, btcutil.NewTx(t))
	}
	return out
}

// compareRaw reads the raw records and compares them with the reference encoding of the model.
func compareRaw(k *mon.Case, n *node, w *world) {
	_ = n.db.View(func(tx database.Tx) error {
		meta := tx.Metadata()
		// utxo set: exactly the model's outpoints, each with the documented bytes
		ub := meta.Bucket([]byte("utxosetv2"))
		if ub == nil {
			k.Failf("db:utxo-bucket-missing", "bucket utxosetv2 not found")
			return nil
		}
		seen := 0
		_ = ub.ForEach(func(key, val []byte) error {
			seen++
			return nil
		})
		for op, c := range w.utxo {
			key := refcodec.OutpointKey(op.Hash, op.Index)
			want, _ := refcodec.UtxoEntry(c.height, c.coinbase, uint64(c.amount), c.script)
			got := ub.Get(key)
			cls := refcodec.ScriptClass(c.script)
			if got == nil {
				k.Failf("db:utxo:record-missing:"+cls, "no record under the documented key %x for %v (%s)", key, op, c.kind)
				continue
			}
			if !bytes.Equal(got, want) {
				k.Failf("db:utxo:bytes:"+cls, "record of %v (%s h=%d cb=%v amt=%d script=%x) = %x, documented form %x", op, c.kind, c.height, c.coinbase, c.amount, c.script, got, want)
			}
			k.Count("db.utxo.raw."+cls, 1)
			k.Count("db.utxo.raw", 1)
		}
		if seen != len(w.utxo) {
			k.Failf("db:utxo:record-count", "%d records in the bucket, %d unspent outputs in the model", seen, len(w.utxo))
		}
		// spend journal
		jb := meta.Bucket([]byte("spendjournal"))
		for _, blk := range w.blocks {
			h := blk.Header.BlockHash()
			want, _ := refcodec.SpendJournal(w.journal[h])
			got := jb.Get(h[:])
			if !bytes.Equal(got, want) {
				k.Failf("db:journal:bytes", "journal of block %s (%d spent outputs) = %x, documented form %x", h, len(w.journal[h]), got, want)
			}
			k.Count("db.journal.raw", 1)
			k.Count("db.journal.raw.stxos", int64(len(w.journal[h])))
			for _, s := range w.journal[h] {
				k.Count("db.journal.raw."+refcodec.ScriptClass(s.Script), 1)
			}
		}
		// best chain state
		tip := w.blocks[len(w.blocks)-1].Header.BlockHash()
		work := big.NewInt(2 * int64(len(w.blocks)+1)) // every block has target 2^255-1: work 2
		want := refcodec.BestState(tip, uint32(len(w.blocks)), w.totalTxs+1, work)
		if got := meta.Get([]byte("chainstate")); !bytes.Equal(got, want) {
			k.Failf("db:chainstate:bytes", "chainstate = %x, documented form %x", got, want)
		}
		// block index rows
		ib := meta.Bucket([]byte("blockheaderidx"))
		for i, blk := range w.blocks {
			var buf bytes.Buffer
			blk.Header.Serialize(&buf)
			hdr := buf.Bytes()
			rh := refcodec.Header{Version: blk.Header.Version, Prev: blk.Header.PrevBlock, MerkleRoot: blk.Header.MerkleRoot,
				Time: uint32(blk.Header.Timestamp.Unix()), Bits: blk.Header.Bits, Nonce: blk.Header.Nonce}
			if !bytes.Equal(hdr, rh.Bytes()) {
				k.Failf("calibration:refcodec.Header", "wire header %x, reference %x", hdr, rh.Bytes())
			}
			key := refcodec.BlockIndexKey(dsha(rh.Bytes()), uint32(i+1))
			got := ib.Get(key)
			if len(got) != 81 || !bytes.Equal(got[:80], rh.Bytes()) || got[80]&3 != 3 {
				k.Failf("db:blockrow:bytes", "row of block %d under %x = %x, documented form %x + status with data-stored|valid", i+1, key, got, rh.Bytes())
			}
			k.Count("db.blockrow.raw", 1)
		}
		return nil
	})
}

// compareFetched reads the values back through the public API.
func compareFetched(k *mon.Case, n *node, w *world, spent []wire.OutPoint) {
	for op, c := range w.utxo {
		var e *blockchain.UtxoEntry
		var err error
		if safely(k, "FetchUtxoEntry", nil, func() { e, err = n.chain.FetchUtxoEntry(op) }) {
			continue
		}
		if err != nil || !entryEqual(e, c.height, c.coinbase, uint64(c.amount), c.script) {
			k.Failf("db:FetchUtxoEntry:"+refcodec.ScriptClass(c.script), "FetchUtxoEntry(%v) after reopen: err %v entry %+v, stored h=%d cb=%v amt=%d script=%x", op, err, e, c.height, c.coinbase, c.amount, c.script)
		}
		k.Count("db.utxo.fetched", 1)
	}
	for _, op := range spent {
		e, err := n.chain.FetchUtxoEntry(op)
		if err != nil || (e != nil && !e.IsSpent()) {
			k.Failf("db:FetchUtxoEntry:spent-output-present", "FetchUtxoEntry(%v) = %+v err %v for a spent output", op, e, err)
		}
	}
	for _, blk := range w.blocks {
		h := blk.Header.BlockHash()
		var got []blockchain.SpentTxOut
		var err error
		if safely(k, "FetchSpendJournal", nil, func() { got, err = n.chain.FetchSpendJournal(btcutil.NewBlock(blk)) }) {
			continue
		}
		want := w.journal[h]
		if err != nil || len(got) != len(want) {
			k.Failf("db:FetchSpendJournal", "block %s: %d entries err %v, %d spent outputs", h, len(got), err, len(want))
			continue
		}
		for i := range got {
			if !stxoEqual(got[i], want[i]) {
				k.Failf("db:FetchSpendJournal:value:"+refcodec.ScriptClass(want[i].Script), "block %s entry %d = %+v, spent %+v", h, i, got[i], want[i])
				break
			}
		}
		k.Count("db.journal.fetched", 1)
	}
}

func dbFamily(c *mon.Ctx) {
	c.Family("db", tierN(c, 36, 2500), func(k *mon.Case) {
		r := k.Rand
		dir := filepath.Join(k.C.OutDir, fmt.Sprintf("c15-db-%d-%d", k.C.Shard, k.Index))
		os.RemoveAll(dir)
		defer os.RemoveAll(dir)
		n, err := openNode(dir, true)
		if err != nil {
			panic(err)
		}
		w := &world{utxo: map[wire.OutPoint]*coin{}, journal: map[chainhash.Hash][]refcodec.Stxo{}}
		nblocks := 8 + r.Intn(10)
		k.Desc(map[string]any{"blocks": nblocks})
		if !buildChain(k, n, w, nblocks) {
			n.close()
			return
		}
		// outpoints spent along the way (for the negative lookups)
		var spentOps []wire.OutPoint
		for _, blk := range w.blocks {
			for _, tx := range blk.Transactions[1:] {
				for _, in := range tx.TxIn {
					spentOps = append(spentOps, in.PreviousOutPoint)
				}
			}
		}
		// several block-index rows written by one flush: invalidate a block below the tip and reconsider it (the
		// chain ends where it was, every row from that block up has been rewritten twice in a batch)
		if r.Chance(2, 3) && len(w.blocks) >= 4 {
			at := 1 + r.Intn(len(w.blocks)-2)
			h := w.blocks[at].Header.BlockHash()
			if err := n.chain.InvalidateBlock(&h); err != nil {
				k.Failf("db:InvalidateBlock:error", "block %d of %d: %v", at+1, len(w.blocks), err)
			} else if err := n.chain.ReconsiderBlock(&h); err != nil {
				k.Failf("db:ReconsiderBlock:error", "block %d of %d: %v", at+1, len(w.blocks), err)
			}
			k.Count("db.index-rows-flushed-in-a-batch", int64(len(w.blocks)-at))
			k.Count("db.chains-with-batch-flush", 1)
		}
		if err := n.chain.FlushUtxoCache(blockchain.FlushRequired); err != nil {
			k.Failf("db:FlushUtxoCache:error", "%v", err)
		}
		compareRaw(k, n, w)
		n.close()

		// reopen: values through the public readers
		n, err = openNode(dir, false)
		if err != nil {
			k.Failf("db:reopen:error", "blockchain.New on the flushed database: %v", err)
			return
		}
		if bs := n.chain.BestSnapshot(); int(bs.Height) != len(w.blocks) || bs.Hash != w.blocks[len(w.blocks)-1].Header.BlockHash() || bs.TotalTxns != w.totalTxs+1 {
			k.Failf("db:reopen:best-state", "after reopen height %d hash %s txns %d", bs.Height, bs.Hash, bs.TotalTxns)
		}
		compareFetched(k, n, w, spentOps)
		n.close()
		k.Count("db.chains", 1)

		// hostile bytes in the records of the real database, then the public readers
		hostileDB(k, dir, w)
		k.Eval(mon.Sig("db", nblocks, len(w.utxo), len(spentOps)), true)
	})
	c.Require("db.chains", 20)
	c.Require("db.chains-with-batch-flush", 10)
	c.Require("db.utxo.raw", 1000)
	for _, cl := range []string{"p2pkh", "p2sh", "p2pk-comp", "p2pk-uncomp", "other"} {
		c.Require("db.utxo.raw."+cl, 15)
		c.Require("db.journal.raw."+cl, 10)
	}
	c.Require("db.utxo.fetched", 1000)
	c.Require("db.journal.fetched", 200)
	c.Require("db.hostile.utxo", 300)
	c.Require("db.hostile.journal", 100)
	c.Require("db.hostile.reopen", 20)
}

// hostileDB overwrites records with mutated bytes and calls the readers: error or value, never a panic.
func hostileDB(k *mon.Case, dir string, w *world) {
	r := k.Rand
	n, err := openNode(dir, false)
	if err != nil {
		k.Failf("db:reopen:error", "second reopen: %v", err)
		return
	}
	// pick victims
	var ops []wire.OutPoint
	for op := range w.utxo {
		ops = append(ops, op)
	}
	sort.Slice(ops, func(i, j int) bool {
		if c := bytes.Compare(ops[i].Hash[:], ops[j].Hash[:]); c != 0 {
			return c < 0
		}
		return ops[i].Index < ops[j].Index
	})
	type victim struct {
		op  wire.OutPoint
		val []byte
		how string
	}
	var uv []victim
	for _, i := range r.Perm(len(ops)) {
		if len(uv) >= 24 {
			break
		}
		c := w.utxo[ops[i]]
		valid, _ := refcodec.UtxoEntry(c.height, c.coinbase, uint64(c.amount), c.script)
		val, how := mutate(r, valid)
		if len(val) == 0 {
			val = []byte{0x80}
		}
		uv = append(uv, victim{ops[i], val, how})
	}
	type jvictim struct {
		blk *wire.MsgBlock
		val []byte
	}
	var jv []jvictim
	for _, blk := range w.blocks {
		h := blk.Header.BlockHash()
		if len(w.journal[h]) == 0 && !r.Chance(1, 4) {
			continue
		}
		valid, _ := refcodec.SpendJournal(w.journal[h])
		val, _ := mutate(r, valid)
		jv = append(jv, jvictim{blk, val})
	}
	err = n.db.Update(func(tx database.Tx) error {
		ub := tx.Metadata().Bucket([]byte("utxosetv2"))
		for _, v := range uv {
			if err := ub.Put(refcodec.OutpointKey(v.op.Hash, v.op.Index), v.val); err != nil {
				return err
			}
		}
		jb := tx.Metadata().Bucket([]byte("spendjournal"))
		for _, v := range jv {
			h := v.blk.Header.BlockHash()
			if err := jb.Put(h[:], v.val); err != nil {
				return err
			}
		}
		return nil
	})
	if err != nil {
		panic(err)
	}
	for _, v := range uv {
		var e *blockchain.UtxoEntry
		var err error
		if safely(k, "FetchUtxoEntry(hostile record)", v.val, func() { e, err = n.chain.FetchUtxoEntry(v.op) }) {
			// the chain lock may be held by the panicked call: use a fresh node for the rest
			n.close()
			n, err = openNode(dir, false)
			if err != nil {
				return
			}
			continue
		}
		if p, ok := refcodec.ParseUtxoEntry(v.val); ok && p.Clean && err == nil && e != nil && !entryEqual(e, p.Height, p.CoinBase, p.Amount, p.Script) {
			k.Failf("db:hostile:FetchUtxoEntry:wrong-value:"+v.how, "record %x read as h=%d cb=%v amt=%d script=%x", v.val, e.BlockHeight(), e.IsCoinBase(), e.Amount(), e.PkScript())
		}
		k.Count("db.hostile.utxo", 1)
		if err != nil {
			k.Count("db.hostile.utxo.error", 1)
		}
	}
	for _, v := range jv {
		var err error
		if safely(k, "FetchSpendJournal(hostile record)", v.val, func() { _, err = n.chain.FetchSpendJournal(btcutil.NewBlock(v.blk)) }) {
			n.close()
			n, err = openNode(dir, false)
			if err != nil {
				return
			}
			continue
		}
		k.Count("db.hostile.journal", 1)
		if err != nil {
			k.Count("db.hostile.journal.error", 1)
		}
	}
	// hostile chain state / block index rows, then blockchain.New
	var tipKey []byte
	tipHdr := w.blocks[len(w.blocks)-1].Header
	var hb bytes.Buffer
	tipHdr.Serialize(&hb)
	tipKey = refcodec.BlockIndexKey(dsha(hb.Bytes()), uint32(len(w.blocks)))
	which := r.Intn(3)
	err = n.db.Update(func(tx database.Tx) error {
		meta := tx.Metadata()
		switch which {
		case 0:
			val, _ := mutate(r, meta.Get([]byte("chainstate")))
			return meta.Put([]byte("chainstate"), val)
		case 1:
			ib := meta.Bucket([]byte("blockheaderidx"))
			val, _ := mutate(r, ib.Get(tipKey))
			if len(val) == 0 {
				val = []byte{0}
			}
			return ib.Put(tipKey, val)
		default:
			ib := meta.Bucket([]byte("blockheaderidx"))
			return ib.Put(refcodec.BlockIndexKey(dsha(r.Bytes(80)), uint32(r.Intn(40))), r.Bytes(r.Intn(120)+1))
		}
	})
	n.close()
	if err != nil {
		return
	}
	safely(k, fmt.Sprintf("blockchain.New(hostile %s)", []string{"chainstate", "tip block row", "extra block row"}[which]), nil, func() {
		n2, err := openNode(dir, false)
		if err == nil {
			n2.close()
			k.Count("db.hostile.reopen.value", 1)
		} else {
			k.Count("db.hostile.reopen.error", 1)
		}
	})
	k.Count("db.hostile.reopen", 1)
}
