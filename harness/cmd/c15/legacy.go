package main

import (
	"bytes"
	"fmt"
	"math"
	"os"
	"path/filepath"
	"sort"

	"verif/mon"
	"verif/ref/refcodec"

	"github.com/btcsuite/btcd/blockchain"
	"github.com/btcsuite/btcd/chainhash/v2"
	"github.com/btcsuite/btcd/database"
	"github.com/btcsuite/btcd/wire/v2"
)

// genLegacy draws a legacy (version 1 utxo set) per-transaction entry of every shape: outputs 0 / 1
// unspent or not, 0..N bitmap bytes, far outputs, trailing zero bitmap bytes.
func genLegacy(r *mon.Rand, maxScript int) (refcodec.LegacyEntry, string) {
	for {
		e := refcodec.LegacyEntry{Height: genHeight(r), CoinBase: r.Bool(), Outs: map[uint32]refcodec.LegacyOut{}}
		switch r.Intn(4) {
		case 0:
			e.Version = 1
		case 1:
			e.Version = 2
		default:
			e.Version = genU64(r)
		}
		add := func(idx uint32) {
			kind := randScriptKind(r)
			s := genScript(r, kind)
			if len(s) > maxScript {
				s = s[:maxScript]
			}
			e.Outs[idx] = refcodec.LegacyOut{Amount: genRepresentableAmount(r, math.MaxInt64), Script: s}
		}
		o0, o1 := r.Bool(), r.Bool()
		if o0 {
			add(0)
		}
		if o1 {
			add(1)
		}
		var high string
		switch r.Intn(6) {
		case 0: // nothing beyond the first two
			high = "none"
		case 1: // one output in the first bitmap byte
			add(uint32(2 + r.Intn(8)))
			high = "1byte"
		case 2: // bitmap byte boundaries
			add([]uint32{9, 10, 17, 18, 25, 26}[r.Intn(6)])
			high = "boundary"
		case 3: // a few scattered outputs
			for i := 0; i < 1+r.Intn(4); i++ {
				add(uint32(2 + r.Intn(40)))
			}
			high = "few"
		case 4: // a far output: many bitmap bytes, header code needs two VLQ bytes from 16 bitmap bytes on
			add(uint32(2 + 8*(10+r.Intn(30)) + r.Intn(8)))
			high = "far"
		default: // the header-code VLQ boundary: 15/16 bitmap bytes with, 16/17 without the first two outputs
			add(uint32(2 + 8*(14+r.Intn(3)) + r.Intn(8)))
			high = "code-boundary"
		}
		pad := ""
		if r.Chance(1, 5) {
			e.BitmapBytes = e.MinBitmapBytes() + 1 + r.Intn(3)
			pad = "+pad"
		}
		if _, ok := e.Bytes(); !ok {
			continue // neither of the first two outputs and no bitmap: not expressible
		}
		return e, fmt.Sprintf("o0=%v,o1=%v,%s%s", o0, o1, high, pad)
	}
}

func legacyEqual(got map[uint32]*blockchain.UtxoEntry, e *refcodec.LegacyEntry) (bool, string) {
	if len(got) != len(e.Outs) {
		return false, fmt.Sprintf("%d outputs decoded, %d encoded", len(got), len(e.Outs))
	}
	for idx, o := range e.Outs {
		if !entryEqual(got[idx], e.Height, e.CoinBase, o.Amount, o.Script) {
			g := got[idx]
			if g == nil {
				return false, fmt.Sprintf("output %d missing", idx)
			}
			return false, fmt.Sprintf("output %d = h=%d cb=%v amt=%d script=%x, encoded h=%d cb=%v amt=%d script=%x", idx,
				g.BlockHeight(), g.IsCoinBase(), g.Amount(), g.PkScript(), e.Height, e.CoinBase, o.Amount, o.Script)
		}
	}
	return true, ""
}

// judgeLegacy runs the legacy decoder on arbitrary bytes: never a panic; a well-formed entry must
// decode to the documented value.
func judgeLegacy(k *mon.Case, in []byte, how string) {
	var got map[uint32]*blockchain.UtxoEntry
	var err error
	if safely(k, "deserializeUtxoEntryV0", in, func() { got, err = blockchain.VerifDeserializeUtxoEntryV0(in) }) {
		return
	}
	p, clean, ok := refcodec.ParseLegacyEntry(in)
	switch {
	case err != nil:
		if ok && clean {
			k.Failf("legacy:deserializeUtxoEntryV0:rejects-well-formed:"+how, "input %x is a well-formed legacy entry but: %v", in, err)
		}
		k.Count("legacy.hostile.error", 1)
	case ok && clean:
		if eq, why := legacyEqual(got, &p); !eq {
			k.Failf("legacy:deserializeUtxoEntryV0:wrong-value:"+how, "input %x: %s", in, why)
		}
		k.Count("legacy.hostile.value-checked", 1)
	default:
		k.Count("legacy.hostile.value-unspecified", 1)
	}
}

func legacyFamily(c *mon.Ctx) {
	c.Family("calibrate.legacy", 1, func(k *mon.Case) {
		blk1Key := unhex("410496b538e853519c726a2c91e61ec11600ae1390813a627c66fb8be7947be63c52da7589379515d4e0a604f8141781e62294721166bf621e73a82cbf2342c858eeac")
		for _, v := range []struct {
			e    refcodec.LegacyEntry
			want string
		}{
			{refcodec.LegacyEntry{Version: 1, Height: 1, CoinBase: true, Outs: map[uint32]refcodec.LegacyOut{0: {Amount: 5000000000, Script: blk1Key}}},
				"010103320496b538e853519c726a2c91e61ec11600ae1390813a627c66fb8be7947be63c52"},
			{refcodec.LegacyEntry{Version: 1, Height: 113931, Outs: map[uint32]refcodec.LegacyOut{
				0: {Amount: 20000000, Script: unhex("76a914e2ccd6ec7c6e2e581349c77e067385fa8236bf8a88ac")},
				2: {Amount: 15000000, Script: unhex("76a914b8025be1b3efc63b0ad48e7f9f10e87544528d5888ac")}}},
				"0185f90b0a011200e2ccd6ec7c6e2e581349c77e067385fa8236bf8a800900b8025be1b3efc63b0ad48e7f9f10e87544528d58"},
			{refcodec.LegacyEntry{Version: 1, Height: 338156, Outs: map[uint32]refcodec.LegacyOut{
				22: {Amount: 366875659, Script: unhex("a9141dd46a006572d820e448e12d2bbb38640bc718e687")}}},
				"0193d06c100000108ba5b9e763011dd46a006572d820e448e12d2bbb38640bc718e6"},
		} {
			got, ok := v.e.Bytes()
			if !ok || !bytes.Equal(got, unhex(v.want)) {
				k.Failf("calibration:refcodec.LegacyEntry", "height %d: reference %x, documented example %s", v.e.Height, got, v.want)
			}
			p, clean, ok := refcodec.ParseLegacyEntry(unhex(v.want))
			if !ok || !clean || p.Height != v.e.Height || p.CoinBase != v.e.CoinBase || p.Version != 1 || len(p.Outs) != len(v.e.Outs) {
				k.Failf("calibration:refcodec.ParseLegacyEntry", "height %d: reference %+v", v.e.Height, p)
			}
			for idx, o := range v.e.Outs {
				if po := p.Outs[idx]; po.Amount != o.Amount || !bytes.Equal(po.Script, o.Script) {
					k.Failf("calibration:refcodec.ParseLegacyEntry", "height %d output %d: reference %+v", v.e.Height, idx, po)
				}
			}
		}
		k.Count("calibrate.legacy", 1)
		k.Eval(mon.Sig("calibrate.legacy"), false)
	})
	c.Require("calibrate.legacy", 1)

	c.Family("legacy", tierN(c, 2500, 300000), func(k *mon.Case) {
		r := k.Rand
		e, shape := genLegacy(r, 80)
		valid, _ := e.Bytes()
		k.Desc(map[string]any{"shape": shape, "entry": fmt.Sprintf("%x", valid)})
		// round trip of the reference-encoded entry
		var got map[uint32]*blockchain.UtxoEntry
		var err error
		if !safely(k, "deserializeUtxoEntryV0", valid, func() { got, err = blockchain.VerifDeserializeUtxoEntryV0(valid) }) {
			if err != nil {
				k.Failf("legacy:deserializeUtxoEntryV0:roundtrip:error:"+shape, "entry %x: %v", valid, err)
			} else if eq, why := legacyEqual(got, &e); !eq {
				k.Failf("legacy:deserializeUtxoEntryV0:roundtrip:"+shape, "entry %x: %s", valid, why)
			}
			k.Count("legacy.roundtrip", 1)
			k.Count("legacy.shape."+shape, 1)
		}
		// every proper prefix (long entries: every prefix of the head, then a sample)
		for L := 0; L < len(valid); L++ {
			if L > 160 && !r.Chance(1, 8) {
				continue
			}
			judgeLegacy(k, valid[:L], "prefix")
			k.Count("legacy.prefixes", 1)
		}
		// mutated bytes
		for i := 0; i < 12; i++ {
			in, how := mutate(r, valid)
			judgeLegacy(k, in, how)
		}
		k.Eval(mon.Sig("legacy", shape, e.CoinBase, len(e.Outs), e.MinBitmapBytes()), true)
	})
	c.Require("legacy.roundtrip", 2000)
	c.Require("legacy.prefixes", 100000)
	c.Require("legacy.hostile.error", 50000)
	c.Require("legacy.hostile.value-checked", 2000)
}

// ---------------------------------------------------------------------------------------------
// the upgrade paths through blockchain.New on a real database written in the older layouts

func legacyDBFamily(c *mon.Ctx) {
	c.Family("legacydb", tierN(c, 42, 1500), func(k *mon.Case) {
		r := k.Rand
		dir := filepath.Join(k.C.OutDir, fmt.Sprintf("c15-legacy-%d-%d", k.C.Shard, k.Index))
		os.RemoveAll(dir)
		defer os.RemoveAll(dir)
		n, err := openNode(dir, true)
		if err != nil {
			panic(err)
		}
		w := &world{utxo: map[wire.OutPoint]*coin{}, journal: map[chainhash.Hash][]refcodec.Stxo{}}
		nblocks := 3 + r.Intn(5)
		if !buildChain(k, n, w, nblocks) {
			n.close()
			return
		}
		if err := n.chain.FlushUtxoCache(blockchain.FlushRequired); err != nil {
			k.Failf("db:FlushUtxoCache:error", "%v", err)
		}
		// legacy utxo set bucket with per-transaction entries + version 1
		type ltx struct {
			hash  chainhash.Hash
			e     refcodec.LegacyEntry
			bytes []byte
		}
		var txs []ltx
		var descs []string
		for i := 0; i < 6+r.Intn(10); i++ {
			e, shape := genLegacy(r, 200)
			b, _ := e.Bytes()
			var h chainhash.Hash
			r.Fill(h[:])
			txs = append(txs, ltx{h, e, b})
			descs = append(descs, fmt.Sprintf("%s:%x", shape, b))
		}
		hostile := r.Chance(1, 3)
		var hostileBytes []byte
		if hostile {
			v := &txs[r.Intn(len(txs))]
			if r.Bool() {
				hostileBytes = v.bytes[:r.Intn(len(v.bytes))]
			} else {
				hostileBytes, _ = mutate(r, v.bytes)
			}
			if len(hostileBytes) == 0 {
				hostileBytes = []byte{0x01}
			}
			v.bytes = hostileBytes
		}
		blockIdx := r.Intn(3) // 0: leave the block index alone, 1: older layout (header kept in ffldb-blockidx), 2: bucket missing on the current layout
		k.Desc(map[string]any{"blocks": nblocks, "legacy": descs, "hostile": fmt.Sprintf("%x", hostileBytes), "blockIndexMode": blockIdx})
		err = n.db.Update(func(tx database.Tx) error {
			meta := tx.Metadata()
			b, err := meta.CreateBucket([]byte("utxoset"))
			if err != nil {
				return err
			}
			for _, t := range txs {
				if err := b.Put(t.hash[:], t.bytes); err != nil {
					return err
				}
			}
			if err := meta.Put([]byte("utxosetversion"), []byte{1, 0, 0, 0}); err != nil {
				return err
			}
			if blockIdx == 0 {
				return nil
			}
			if blockIdx == 1 {
				v1 := meta.Bucket([]byte("ffldb-blockidx"))
				hdrs := map[chainhash.Hash][]byte{}
				var gb bytes.Buffer
				n.p.GenesisBlock.Header.Serialize(&gb)
				hdrs[n.p.GenesisBlock.Header.BlockHash()] = gb.Bytes()
				for _, blk := range w.blocks {
					var hb bytes.Buffer
					blk.Header.Serialize(&hb)
					hdrs[blk.Header.BlockHash()] = hb.Bytes()
				}
				for h, hdr := range hdrs {
					h := h
					row := v1.Get(h[:])
					if len(row) != 12 {
						return fmt.Errorf("ffldb-blockidx row of %s has %d bytes", h, len(row))
					}
					if err := v1.Put(h[:], cat(row, hdr)); err != nil {
						return err
					}
				}
			}
			return meta.DeleteBucket([]byte("blockheaderidx"))
		})
		n.close()
		if err != nil {
			k.Count("legacydb.setup-failed", 1)
			k.C.Note("legacydb: could not rewrite the database in the older layout: " + err.Error())
			return
		}

		// reopen: blockchain.New runs the migrations
		var n2 *node
		what := "blockchain.New(legacy utxo set)"
		if hostile {
			what = "blockchain.New(hostile legacy utxo entry)"
		}
		if blockIdx == 2 {
			what = "blockchain.New(block index bucket missing, current ffldb rows)"
		}
		if safely(k, what, hostileBytes, func() { n2, err = openNode(dir, false) }) {
			return
		}
		k.Count(fmt.Sprintf("legacydb.reopen.blockidx-mode%d", blockIdx), 1)
		if err != nil {
			if !hostile && blockIdx != 2 {
				k.Failf("legacydb:reopen:error", "blockchain.New on a well-formed older-layout database: %v", err)
			}
			k.Count("legacydb.reopen.error", 1)
			return
		}
		defer n2.close()
		if hostile || blockIdx == 2 {
			k.Count("legacydb.reopen.hostile-value", 1)
			return
		}
		// every legacy output is now a current-format record and readable
		_ = n2.db.View(func(tx database.Tx) error {
			meta := tx.Metadata()
			if meta.Bucket([]byte("utxoset")) != nil {
				k.Failf("legacydb:utxoset-bucket-left", "legacy bucket still present after the upgrade")
			}
			if v := meta.Get([]byte("utxosetversion")); !bytes.Equal(v, []byte{2, 0, 0, 0}) {
				k.Failf("legacydb:utxosetversion", "version record %x after the upgrade", v)
			}
			ub := meta.Bucket([]byte("utxosetv2"))
			for _, t := range txs {
				for idx, o := range t.e.Outs {
					want, _ := refcodec.UtxoEntry(t.e.Height, t.e.CoinBase, o.Amount, o.Script)
					if got := ub.Get(refcodec.OutpointKey(t.hash, idx)); !bytes.Equal(got, want) {
						k.Failf("legacydb:migrated-utxo:bytes:"+refcodec.ScriptClass(o.Script), "legacy entry %x output %d migrated to %x, documented form %x", t.bytes, idx, got, want)
					}
					k.Count("legacydb.migrated.utxos", 1)
				}
			}
			if blockIdx == 1 {
				ib := meta.Bucket([]byte("blockheaderidx"))
				if ib == nil {
					k.Failf("legacydb:blockindex:bucket-missing", "no block index bucket after the migration")
					return nil
				}
				hdrs := []wire.BlockHeader{n.p.GenesisBlock.Header}
				for _, blk := range w.blocks {
					hdrs = append(hdrs, blk.Header)
				}
				for height, hdr := range hdrs {
					var hb bytes.Buffer
					hdr.Serialize(&hb)
					key := refcodec.BlockIndexKey(dsha(hb.Bytes()), uint32(height))
					got := ib.Get(key)
					if len(got) != 81 || !bytes.Equal(got[:80], hb.Bytes()) || got[80]&3 != 3 {
						k.Failf("legacydb:blockindex:row", "migrated row of block %d under %x = %x, documented form %x + data-stored|valid", height, key, got, hb.Bytes())
					}
					k.Count("legacydb.migrated.blockrows", 1)
				}
			}
			return nil
		})
		if bs := n2.chain.BestSnapshot(); int(bs.Height) != len(w.blocks) {
			k.Failf("legacydb:reopen:best-state", "height %d after the migration, chain has %d blocks", bs.Height, len(w.blocks))
		}
		var ops []wire.OutPoint
		want := map[wire.OutPoint]struct {
			h   int32
			cb  bool
			out refcodec.LegacyOut
		}{}
		for _, t := range txs {
			for idx, o := range t.e.Outs {
				op := wire.OutPoint{Hash: t.hash, Index: idx}
				ops = append(ops, op)
				want[op] = struct {
					h   int32
					cb  bool
					out refcodec.LegacyOut
				}{t.e.Height, t.e.CoinBase, o}
			}
		}
		sort.Slice(ops, func(i, j int) bool {
			if c := bytes.Compare(ops[i].Hash[:], ops[j].Hash[:]); c != 0 {
				return c < 0
			}
			return ops[i].Index < ops[j].Index
		})
		for _, op := range ops {
			wv := want[op]
			e, err := n2.chain.FetchUtxoEntry(op)
			if err != nil || !entryEqual(e, wv.h, wv.cb, wv.out.Amount, wv.out.Script) {
				k.Failf("legacydb:FetchUtxoEntry:"+refcodec.ScriptClass(wv.out.Script), "FetchUtxoEntry(%v) after the upgrade: err %v entry %+v", op, err, e)
			}
			k.Count("legacydb.fetched", 1)
		}
		// the chain's own outputs are still there
		for op, cn := range w.utxo {
			e, err := n2.chain.FetchUtxoEntry(op)
			if err != nil || !entryEqual(e, cn.height, cn.coinbase, uint64(cn.amount), cn.script) {
				k.Failf("legacydb:FetchUtxoEntry:own-output", "FetchUtxoEntry(%v) after the upgrade: err %v entry %+v", op, err, e)
			}
		}
		k.Count("legacydb.upgrades", 1)
		k.Eval(mon.Sig("legacydb", blockIdx, len(txs), nblocks), true)
	})
	c.Require("legacydb.upgrades", 8)
	c.Require("legacydb.migrated.utxos", 100)
	c.Require("legacydb.fetched", 100)
}
