package main

import (
	"fmt"
	"os"
	"strconv"

	"verif/mon"
)

// tierN is c.N with an escape hatch for a machine that cannot afford the thorough tier:
// VERIF_THOROUGH_DIV=d (default 1) divides the thorough case counts of the random families
// (never below the quick count); the run says so in its notes.
func tierN(c *mon.Ctx, quick, thorough int64) int64 {
	if !c.Thorough() {
		return c.N(quick, thorough) // honours the VERIF_DEV_N development cap
	}
	if d, err := strconv.Atoi(os.Getenv("VERIF_THOROUGH_DIV")); err == nil && d > 1 {
		c.Note(fmt.Sprintf("thorough case counts divided by VERIF_THOROUGH_DIV=%d", d))
		return c.N(quick, max(quick, thorough/int64(d)))
	}
	return c.N(quick, thorough)
}
