package main

import (
	"math"

	"verif/mon"
	"verif/ref/refcodec"
)

const maxSatoshi = uint64(21000000 * 100000000)

var fieldPBytes = []byte{0xff, 0xff, 0xff, 0xff, 0xff, 0xff, 0xff, 0xff, 0xff, 0xff, 0xff, 0xff, 0xff, 0xff, 0xff, 0xff,
	0xff, 0xff, 0xff, 0xff, 0xff, 0xff, 0xff, 0xff, 0xff, 0xff, 0xff, 0xfe, 0xff, 0xff, 0xfc, 0x2f}

// randPoint draws a curve point (x, y-even, y-odd) without using btcec.
func randPoint(r *mon.Rand) (x, yEven, yOdd []byte) {
	for {
		x = r.Bytes(32)
		if r.Chance(1, 16) { // small x values too
			for i := 0; i < 24+r.Intn(8); i++ {
				x[i] = 0
			}
		}
		ye, ok := refcodec.LiftX(x, false)
		if !ok {
			continue
		}
		yo, _ := refcodec.LiftX(x, true)
		return x, ye, yo
	}
}

// offCurveX draws an x < p that is not the abscissa of a curve point.
func offCurveX(r *mon.Rand) []byte {
	for {
		x := r.Bytes(32)
		x[0] &= 0x7f
		if _, ok := refcodec.LiftX(x, false); !ok {
			return x
		}
	}
}

func cat(parts ...[]byte) []byte {
	var out []byte
	for _, p := range parts {
		out = append(out, p...)
	}
	return out
}

var scriptKinds = []string{"p2pkh", "p2sh", "p2pk-comp", "p2pk-comp-offcurve", "p2pk-comp-x>=p", "p2pk-uncomp", "p2pk-uncomp-wrong-y",
	"p2pk-uncomp-offcurve", "p2pk-uncomp-y>=p", "p2pk-hybrid", "near-p2pkh", "near-p2sh", "near-p2pk", "empty", "short", "witness",
	"nulldata", "random", "long", "size-boundary"}

// genScript draws a script of the named kind; the reference decides its compression class.
func genScript(r *mon.Rand, kind string) []byte {
	switch kind {
	case "p2pkh":
		return cat([]byte{0x76, 0xa9, 20}, r.Bytes(20), []byte{0x88, 0xac})
	case "p2sh":
		return cat([]byte{0xa9, 20}, r.Bytes(20), []byte{0x87})
	case "p2pk-comp":
		x, _, _ := randPoint(r)
		return cat([]byte{33, byte(2 + r.Intn(2))}, x, []byte{0xac})
	case "p2pk-comp-offcurve":
		return cat([]byte{33, byte(2 + r.Intn(2))}, offCurveX(r), []byte{0xac})
	case "p2pk-comp-x>=p":
		x := append([]byte{}, fieldPBytes...)
		x[31] += byte(r.Intn(6)) // p .. p+5 (p+? may lift mod p in a sloppy parser)
		return cat([]byte{33, byte(2 + r.Intn(2))}, x, []byte{0xac})
	case "p2pk-uncomp":
		x, ye, yo := randPoint(r)
		y := ye
		if r.Bool() {
			y = yo
		}
		return cat([]byte{65, 4}, x, y, []byte{0xac})
	case "p2pk-uncomp-wrong-y":
		x, ye, _ := randPoint(r)
		y := append([]byte{}, ye...)
		y[r.Intn(32)] ^= 1 << uint(r.Intn(8))
		return cat([]byte{65, 4}, x, y, []byte{0xac})
	case "p2pk-uncomp-offcurve":
		return cat([]byte{65, 4}, offCurveX(r), r.Bytes(32), []byte{0xac})
	case "p2pk-uncomp-y>=p":
		x, _, _ := randPoint(r)
		y := append([]byte{}, fieldPBytes...)
		y[31] += byte(r.Intn(6))
		return cat([]byte{65, 4}, x, y, []byte{0xac})
	case "p2pk-hybrid":
		x, ye, yo := randPoint(r)
		if r.Bool() {
			return cat([]byte{65, 6}, x, ye, []byte{0xac})
		}
		return cat([]byte{65, 7}, x, yo, []byte{0xac})
	case "near-p2pkh":
		s := genScript(r, "p2pkh")
		switch r.Intn(4) {
		case 0:
			s[r.Intn(3)] ^= byte(1 + r.Intn(255))
		case 1:
			s[23+r.Intn(2)] ^= byte(1 + r.Intn(255))
		case 2:
			s = append(s, byte(r.Intn(256)))
		default:
			s = s[:24]
		}
		return s
	case "near-p2sh":
		s := genScript(r, "p2sh")
		switch r.Intn(4) {
		case 0:
			s[r.Intn(2)] ^= byte(1 + r.Intn(255))
		case 1:
			s[22] ^= byte(1 + r.Intn(255))
		case 2:
			s = append(s, byte(r.Intn(256)))
		default:
			s = s[:22]
		}
		return s
	case "near-p2pk":
		s := genScript(r, []string{"p2pk-comp", "p2pk-uncomp"}[r.Intn(2)])
		switch r.Intn(4) {
		case 0:
			s[0] ^= byte(1 + r.Intn(255))
		case 1:
			s[len(s)-1] ^= byte(1 + r.Intn(255))
		case 2:
			s[1] = []byte{0, 1, 5, 6, 7, 8, 0x82, 0x84}[r.Intn(8)]
		default:
			s = append(s, 0xac)
		}
		return s
	case "empty":
		return nil
	case "short":
		return r.Bytes(1 + r.Intn(4))
	case "witness":
		switch r.Intn(3) {
		case 0:
			return cat([]byte{0x00, 20}, r.Bytes(20))
		case 1:
			return cat([]byte{0x00, 32}, r.Bytes(32))
		default:
			return cat([]byte{0x51, 32}, r.Bytes(32))
		}
	case "nulldata":
		n := r.Intn(81)
		return cat([]byte{0x6a, byte(n)}, r.Bytes(n))
	case "long":
		return r.Bytes(500 + r.Intn(10500))
	case "size-boundary":
		// script lengths around the VLQ size boundaries of len+6: 121/122 (1->2 bytes), 16505/16506 (2->3 bytes)
		n := []int{120, 121, 122, 123, 16504, 16505, 16506, 16507}[r.Intn(8)]
		return r.Bytes(n)
	default:
		return r.Bytes(r.Intn(200))
	}
}

func randScriptKind(r *mon.Rand) string { return scriptKinds[r.Intn(len(scriptKinds))] }

var pow10 = func() (t [20]uint64) {
	t[0] = 1
	for i := 1; i < 20; i++ {
		t[i] = t[i-1] * 10
	}
	return
}()

// genAmount draws a 64-bit amount biased to decimal digit-pattern boundaries.
func genAmount(r *mon.Rand, limit uint64) (uint64, string) {
	var a uint64
	var kind string
	switch r.Intn(12) {
	case 0:
		a, kind = uint64(r.Intn(11)), "tiny"
	case 1: // d * 10^k
		a, kind = uint64(1+r.Intn(9))*pow10[r.Intn(20)], "digit*10^k"
	case 2: // 10^k + delta
		a, kind = pow10[r.Intn(20)]+uint64(r.Intn(21))-10, "10^k+-d"
	case 3: // m * 10^k, m random
		k := r.Intn(12)
		a, kind = (r.Uint64()%pow10[1+r.Intn(10)])*pow10[k], "m*10^k"
	case 4: // 99..9 patterns and neighbours
		a, kind = pow10[1+r.Intn(19)]-1-uint64(r.Intn(3)), "nines"
	case 5: // exactly nine / ten trailing zeros
		a, kind = (1+r.Uint64()%1000000)*pow10[8+r.Intn(3)], "zeros8-10"
	case 6:
		a, kind = r.Uint64()%(maxSatoshi+1), "<=maxSatoshi"
	case 7:
		a, kind = maxSatoshi-uint64(r.Intn(1000)), "maxSatoshi-"
	case 8:
		a, kind = r.Uint64(), "any64"
	case 9:
		a, kind = r.Uint64()>>uint(r.Intn(64)), "any-bits"
	case 10:
		a, kind = math.MaxUint64-uint64(r.Intn(1000)), "max64-"
	default: // last digit sweep near a power of ten multiple
		a, kind = (r.Uint64()%1000000)*10+uint64(r.Intn(10)), "last-digit"
	}
	if a > limit {
		a %= limit + 1
		kind += "%"
	}
	return a, kind
}

// genRepresentableAmount draws an amount the format can store (its code fits 64 bits).
func genRepresentableAmount(r *mon.Rand, limit uint64) uint64 {
	for {
		a, _ := genAmount(r, limit)
		if _, ok := refcodec.CompressAmount(a); ok {
			return a
		}
	}
}

func genHeight(r *mon.Rand) int32 {
	switch r.Intn(8) {
	case 0:
		return int32(r.Intn(3))
	case 1:
		return int32(uint32(1)<<uint(r.Intn(31))) - int32(r.Intn(2))
	case 2:
		return math.MaxInt32 - int32(r.Intn(3))
	case 3:
		return int32(r.Intn(1000000))
	case 4: // VLQ boundaries of height*2(+1): 63/64, 8255/8256, 1056831/1056832
		return []int32{63, 64, 8255, 8256, 1056831, 1056832, 135274559, 135274560}[r.Intn(8)]
	default:
		return int32(r.Uint32() >> 1 >> uint(r.Intn(31)))
	}
}

func genU64(r *mon.Rand) uint64 {
	switch r.Intn(6) {
	case 0: // VLQ length boundaries: first(L)-1, first(L), first(L)+1
		L := 1 + r.Intn(10)
		var f uint64
		p := uint64(128)
		for i := 1; i < L; i++ {
			f += p
			p *= 128
		}
		return f + uint64(r.Intn(3)) - 1
	case 1:
		return r.EdgeU64()
	case 2:
		return uint64(r.Intn(70000))
	default:
		return r.Uint64() >> uint(r.Intn(64))
	}
}
