package main

import (
	"bytes"
	"fmt"
	"math"

	"verif/mon"
	"verif/ref/refcodec"

	"github.com/btcsuite/btcd/blockchain"
	"github.com/btcsuite/btcd/chainhash/v2"
	"github.com/btcsuite/btcd/wire/v2"
)

// mutate derives a hostile byte string from a valid record. The result has no spare capacity, so that a decoder reading
// past the end of its input (which Go permits up to the capacity of the slice) panics instead of passing unnoticed.
func mutate(r *mon.Rand, valid []byte) ([]byte, string) {
	b, how := mutate0(r, valid)
	out := make([]byte, len(b))
	copy(out, b)
	return out, how
}

// wrappedVLQ is a ten-byte quantity whose value exceeds 64 bits and wraps around to v (0..127).
func wrappedVLQ(v byte) []byte {
	return []byte{0x80, 0xfe, 0xfe, 0xfe, 0xfe, 0xfe, 0xfe, 0xfe, 0xff, v & 0x7f}
}

func mutate0(r *mon.Rand, valid []byte) ([]byte, string) {
	b := append([]byte{}, valid...)
	if r.Chance(1, 12) {
		// a script size (or any other field) written as a quantity that wraps around 2^64 to a small value: the special
		// script types 0..5 and short raw scripts behind a ten-byte prefix, followed by 0..45 bytes
		head := cat(refcodec.PutVLQ(genU64(r)), refcodec.PutVLQ(genU64(r)))
		if r.Chance(1, 4) {
			head = head[:r.Intn(len(head)+1)]
		}
		v := byte(r.Intn(8))
		if r.Chance(1, 4) {
			v = byte(r.Intn(128))
		}
		return cat(head, wrappedVLQ(v), r.Bytes(r.Intn(46))), "wrapped-vlq"
	}
	switch r.Intn(9) {
	case 0: // truncate
		if len(b) > 0 {
			return b[:r.Intn(len(b))], "truncate"
		}
		return b, "truncate"
	case 1: // flip bits
		for i := 0; i < 1+r.Intn(3) && len(b) > 0; i++ {
			b[r.Intn(len(b))] ^= 1 << uint(r.Intn(8))
		}
		return b, "bitflip"
	case 2: // set continuation bits: a VLQ that runs on
		if len(b) > 0 {
			p := r.Intn(len(b))
			for i := p; i < len(b) && i < p+1+r.Intn(12); i++ {
				b[i] |= 0x80
			}
		}
		return b, "continuation"
	case 3: // insert a long / overflowing VLQ somewhere near the front
		p := 0
		if len(b) > 0 {
			p = r.Intn(min(len(b), 6))
		}
		v := bytes.Repeat([]byte{0xff}, 1+r.Intn(12))
		switch r.Intn(3) {
		case 0:
			v = append(v, 0x7f)
		case 1:
			v = refcodec.PutVLQ(math.MaxUint64 - uint64(r.Intn(40)))
		default:
			v = refcodec.PutVLQ(uint64(1)<<63 + uint64(r.Intn(40)) - 20)
		}
		return cat(b[:p], v, b[p:]), "huge-vlq"
	case 4: // replace a byte by a special value
		if len(b) > 0 {
			b[r.Intn(len(b))] = []byte{0, 1, 2, 3, 4, 5, 6, 7, 0x7f, 0x80, 0xff}[r.Intn(11)]
		}
		return b, "special-byte"
	case 5: // append garbage
		return append(b, r.Bytes(1+r.Intn(40))...), "append"
	case 6: // pure random
		return r.Bytes(r.Intn(80)), "random"
	case 7: // script size that claims more than is there / a special type with short data
		head := refcodec.PutVLQ(uint64(r.Intn(1 << 20)))
		if r.Bool() {
			head = []byte{byte(r.Intn(6))}
		}
		return cat(refcodec.PutVLQ(genU64(r)), refcodec.PutVLQ(genU64(r)), head, r.Bytes(r.Intn(40))), "crafted-script-size"
	default: // drop a byte
		if len(b) > 1 {
			p := r.Intn(len(b))
			return append(b[:p], b[p+1:]...), "drop"
		}
		return b, "drop"
	}
}

func hostileFamily(c *mon.Ctx) {
	c.Family("hostile", tierN(c, 5000, 600000), func(k *mon.Case) {
		r := k.Rand
		k.Desc(map[string]any{"inputs": 48})
		for i := 0; i < 16; i++ {
			s, _ := genStxo(r)
			if len(s.Script) > 300 {
				s.Script = s.Script[:300]
			}
			// --- utxo entry
			valid, _ := refcodec.UtxoEntry(s.Height, s.CoinBase, s.Amount, s.Script)
			in, how := mutate(r, valid)
			var e *blockchain.UtxoEntry
			var err error
			if !safely(k, "deserializeUtxoEntry", in, func() { e, err = blockchain.VerifDeserializeUtxoEntry(in) }) {
				p, ok := refcodec.ParseUtxoEntry(in)
				switch {
				case err == nil && e == nil:
					k.Failf("hostile:deserializeUtxoEntry:nil-without-error", "input %x", in)
				case ok && p.Clean && err != nil:
					k.Failf("hostile:deserializeUtxoEntry:rejects-well-formed:"+how, "input %x is a well-formed entry (h=%d cb=%v amt=%d script=%x) but: %v", in, p.Height, p.CoinBase, p.Amount, p.Script, err)
				case ok && p.Clean && err == nil && !entryEqual(e, p.Height, p.CoinBase, p.Amount, p.Script):
					k.Failf("hostile:deserializeUtxoEntry:wrong-value:"+how, "input %x decodes to h=%d cb=%v amt=%d script=%x, documented h=%d cb=%v amt=%d script=%x",
						in, e.BlockHeight(), e.IsCoinBase(), e.Amount(), e.PkScript(), p.Height, p.CoinBase, p.Amount, p.Script)
				}
				count(k, "utxo", ok, p.Clean, err)
			}
			// --- single stxo
			valid, _ = refcodec.StxoBytes(s)
			in, how = mutate(r, valid)
			var ds blockchain.SpentTxOut
			var n int
			if !safely(k, "decodeSpentTxOut", in, func() { n, err = blockchain.VerifDecodeSpentTxOut(in, &ds) }) {
				p, ok := refcodec.ParseStxo(in)
				switch {
				case ok && p.Clean && err != nil:
					k.Failf("hostile:decodeSpentTxOut:rejects-well-formed:"+how, "input %x is a well-formed stxo but: %v", in, err)
				case ok && p.Clean && err == nil && (!stxoEqual(ds, p.Stxo) || n != p.Size):
					k.Failf("hostile:decodeSpentTxOut:wrong-value:"+how, "input %x decodes to %+v (%d bytes), documented %+v (%d bytes)", in, ds, n, p.Stxo, p.Size)
				case err == nil && (n < 0 || n > len(in)):
					k.Failf("hostile:decodeSpentTxOut:size-out-of-range", "input %x (%d bytes): read %d", in, len(in), n)
				}
				count(k, "stxo", ok, p.Clean, err)
			}
			// --- journal with a transaction shape
			s2, _ := genStxo(r)
			if len(s2.Script) > 300 {
				s2.Script = s2.Script[:300]
			}
			valid, _ = refcodec.SpendJournal([]refcodec.Stxo{s, s2})
			in, _ = mutate(r, valid)
			tx := wire.NewMsgTx(2)
			for j := 0; j < 1+r.Intn(3); j++ {
				tx.AddTxIn(wire.NewTxIn(wire.NewOutPoint(&chainhash.Hash{}, uint32(j)), nil, nil))
			}
			var js []blockchain.SpentTxOut
			if !safely(k, "deserializeSpendJournalEntry", in, func() { js, err = blockchain.VerifDeserializeSpendJournalEntry(in, []*wire.MsgTx{tx}) }) {
				if err == nil && len(in) > 0 && len(js) != len(tx.TxIn) {
					k.Failf("hostile:deserializeSpendJournalEntry:count", "input %x for %d inputs: %d entries without error", in, len(tx.TxIn), len(js))
				}
				if err == nil {
					// whatever was decoded must be what the documented format says, entry by entry (last input first)
					off := 0
					for j := len(tx.TxIn) - 1; j >= 0 && len(in) > 0; j-- {
						p, ok := refcodec.ParseStxo(in[off:])
						if !ok {
							// decoded without error although the documented format calls the record malformed:
							// "error or value" allows it; counted, not judged
							k.Count("hostile.journal.malformed-accepted-as-value", 1)
							break
						}
						if !p.Clean {
							// a quantity does not fit its field: the decoded value, and with it the framing of
							// the entries that follow, is unspecified
							break
						}
						if !stxoEqual(js[j], p.Stxo) {
							k.Failf("hostile:deserializeSpendJournalEntry:wrong-value", "input %x entry %d = %+v, documented %+v", in, j, js[j], p.Stxo)
							break
						}
						off += p.Size
					}
					k.Count("hostile.journal.value", 1)
				} else {
					k.Count("hostile.journal.error", 1)
				}
			}
		}
		// --- best state, block row
		for i := 0; i < 8; i++ {
			var h chainhash.Hash
			r.Fill(h[:])
			valid := refcodec.BestState(h, uint32(genU64(r)), genU64(r), randBig(r))
			in, _ := mutate(r, valid)
			if r.Chance(1, 4) { // work length field claims more than is there
				in = append([]byte{}, valid...)
				if len(in) >= 48 {
					copy(in[44:48], r.Bytes(4))
				}
			}
			var err error
			if !safely(k, "deserializeBestChainState", in, func() { _, _, _, _, err = blockchain.VerifDeserializeBestChainState(in) }) {
				if len(in) < 48 && err == nil {
					k.Failf("hostile:deserializeBestChainState:accepts-short", "input %x (%d bytes) decoded without error", in, len(in))
				}
				countErr(k, "beststate", err)
			}
			hdr := randHeader(r)
			valid = refcodec.BlockRow(hdr, byte(r.Intn(256)))
			in, _ = mutate(r, valid)
			var gh *wire.BlockHeader
			var st byte
			if !safely(k, "deserializeBlockRow", in, func() { gh, st, err = blockchain.VerifDeserializeBlockRow(in) }) {
				if len(in) < 81 && err == nil {
					k.Failf("hostile:deserializeBlockRow:accepts-short", "input %x (%d bytes) decoded without error", in, len(in))
				}
				if len(in) >= 81 {
					if err != nil {
						k.Failf("hostile:deserializeBlockRow:rejects-well-formed", "input %x: %v", in, err)
					} else if !headerEqual(gh, in[:80]) || st != in[80] {
						k.Failf("hostile:deserializeBlockRow:wrong-value", "input %x decodes to %+v status %d", in, gh, st)
					}
				}
				countErr(k, "blockrow", err)
			}
			// VLQ and script size readers never panic and never claim more bytes than given
			in = r.Bytes(r.Intn(24))
			if r.Bool() {
				for j := range in {
					in[j] |= 0x80
				}
			}
			safely(k, "deserializeVLQ", in, func() {
				_, n := blockchain.VerifDeserializeVLQ(in)
				if n < 0 || n > len(in) {
					k.Failf("hostile:deserializeVLQ:size-out-of-range", "input %x: read %d", in, n)
				}
			})
			safely(k, "decodeCompressedScriptSize", in, func() { _ = blockchain.VerifDecodeCompressedScriptSize(in) })
			safely(k, "decodeCompressedTxOut", in, func() { _, _, _, _ = blockchain.VerifDecodeCompressedTxOut(in) })
		}
		k.Eval(mon.Sig("hostile", k.Index), true)
		k.C.EvalN(16*3 + 8*5 - 1)
	})
	c.Require("hostile.utxo.error", 5000)
	c.Require("hostile.utxo.value-checked", 3000)
	c.Require("hostile.stxo.error", 5000)
	c.Require("hostile.stxo.value-checked", 3000)
	c.Require("hostile.journal.error", 5000)
	c.Require("hostile.beststate.error", 2000)
	c.Require("hostile.blockrow.error", 2000)
}

func count(k *mon.Case, what string, wellFormed, clean bool, err error) {
	switch {
	case err != nil:
		k.Count("hostile."+what+".error", 1)
	case wellFormed && clean:
		k.Count("hostile."+what+".value-checked", 1)
	default:
		k.Count("hostile."+what+".value-unspecified", 1)
	}
}

func countErr(k *mon.Case, what string, err error) {
	if err != nil {
		k.Count("hostile."+what+".error", 1)
	} else {
		k.Count("hostile."+what+".value", 1)
	}
}

func randHeader(r *mon.Rand) refcodec.Header {
	h := refcodec.Header{Version: int32(r.Uint32()), Time: r.Uint32(), Bits: r.Uint32(), Nonce: r.Uint32()}
	r.Fill(h.Prev[:])
	r.Fill(h.MerkleRoot[:])
	return h
}

func headerEqual(h *wire.BlockHeader, raw []byte) bool {
	if h == nil {
		return false
	}
	want := refcodec.Header{Version: h.Version, Prev: h.PrevBlock, MerkleRoot: h.MerkleRoot, Time: uint32(h.Timestamp.Unix()), Bits: h.Bits, Nonce: h.Nonce}
	return bytes.Equal(want.Bytes(), raw) && h.Timestamp.Nanosecond() == 0
}

func hdrDesc(h refcodec.Header) string { return fmt.Sprintf("%x", h.Bytes()) }
