// Worker for C15: persisted chain-state records are lossless, format-stable and robust
// (reference model: verif/ref/refcodec). Route (2) drives the unexported codecs through the
// blockchain/verif_export.go wrappers (hook H2) over their full domain; route (1) goes through a
// real ffldb database and the public readers.
package main

import (
	"bytes"
	"encoding/hex"
	"math/big"
	"syscall"

	"verif/mon"
	"verif/ref/refcodec"
)

func unhex(s string) []byte {
	b, err := hex.DecodeString(s)
	if err != nil {
		panic(err)
	}
	return b
}

func main() {
	// Backstop: a decoder that trusts a hostile length can ask for terabytes; with the address space
	// capped such a request kills this worker ("fatal error: out of memory", reported by ./check as a
	// violation with the case from the sidecar) instead of the machine.
	lim := syscall.Rlimit{Cur: 6 << 30, Max: 6 << 30}
	_ = syscall.Setrlimit(syscall.RLIMIT_AS, &lim)
	mon.Main("C15", func(c *mon.Ctx) {
		c.Rule("vlq/amount: bulk values, signature = (byte length) resp. (generator class, decimal digits); script: (generator kind, " +
			"compression class, compressed length); entry: utxo entry + stxo + txout + outpoint key of one (height, coinbase, amount, script) " +
			"tuple, signature = (script kind, class, header-code length, height-zero flag, coinbase, amount-code length); journal: one " +
			"block shape (inputs per transaction) with its spent outputs; beststate: (work length, field magnitudes); blockrow: 48 rows " +
			"through dbStoreBlockNode in a real database; hostile: 88 mutated / random byte strings per case through the decoders; " +
			"db: one real chain (ffldb + blockchain.New) per case, raw bucket bytes + reopen + hostile records; legacy: one legacy " +
			"(utxo set v1) per-transaction entry per case = (outputs 0/1 unspent, bitmap shape, padding), decoded whole, at every " +
			"prefix length and mutated; legacydb: one real database rewritten in the older layouts (legacy utxo bucket, block " +
			"index kept in ffldb-blockidx) and reopened through blockchain.New")
		calibrate(c)
		vlqFamily(c)
		amountFamily(c)
		scriptFamily(c)
		entryFamily(c)
		journalFamily(c)
		bestStateFamily(c)
		hostileFamily(c)
		legacyFamily(c)
		blockRowFamily(c)
		dbFamily(c)
		legacyDBFamily(c)
	})
}

// calibrate checks the reference codec against the vectors that ship in /repo
// (blockchain/compress_test.go, blockchain/chainio_test.go and the format documentation blocks).
func calibrate(c *mon.Ctx) {
	c.Family("calibrate.refcodec", 1, func(k *mon.Case) {
		for _, v := range []struct {
			n uint64
			h string
		}{{0, "00"}, {1, "01"}, {127, "7f"}, {128, "8000"}, {129, "8001"}, {255, "807f"}, {256, "8100"}, {16383, "fe7f"}, {16384, "ff00"},
			{16511, "ff7f"}, {16512, "808000"}, {16513, "808001"}, {16639, "80807f"}, {32895, "80ff7f"}, {2113663, "ffff7f"},
			{2113664, "80808000"}, {270549119, "ffffff7f"}, {270549120, "8080808000"}, {2147483647, "86fefefe7f"},
			{2147483648, "86fefeff00"}, {4294967295, "8efefefe7f"}, {18446744073709551615, "80fefefefefefefefe7f"}} {
			if got := refcodec.PutVLQ(v.n); !bytes.Equal(got, unhex(v.h)) {
				k.Failf("calibration:refcodec.PutVLQ", "%d: reference %x, vector %s", v.n, got, v.h)
			}
			n, sz, ok := refcodec.ReadVLQ(append(unhex(v.h), 0x55))
			if !ok || !n.IsUint64() || n.Uint64() != v.n || sz != len(v.h)/2 {
				k.Failf("calibration:refcodec.ReadVLQ", "%s: reference %v %d %v, vector %d", v.h, n, sz, ok, v.n)
			}
		}
		for _, v := range []struct{ a, code uint64 }{{0, 0}, {546, 4911}, {1000, 4}, {10000, 5}, {12345678, 111111101}, {50000000, 48},
			{100000000, 9}, {500000000, 49}, {2100000000000000, 21000000}, {5000000000, 50}, {15000000, 137}} {
			if got, ok := refcodec.CompressAmount(v.a); !ok || got != v.code {
				k.Failf("calibration:refcodec.CompressAmount", "%d: reference %d, vector %d", v.a, got, v.code)
			}
			if got := refcodec.DecompressAmountExact(v.code); !got.IsUint64() || got.Uint64() != v.a {
				k.Failf("calibration:refcodec.DecompressAmount", "%d: reference %v, vector %d", v.code, got, v.a)
			}
		}
		for _, v := range []struct{ name, script, comp string }{
			{"nil", "", "06"},
			{"p2pkh", "76a9141018853670f9f3b0582c5b9ee8ce93764ac32b9388ac", "001018853670f9f3b0582c5b9ee8ce93764ac32b93"},
			{"p2sh", "a914da1745e9b549bd0bfa1a569971c77eba30cd5a4b87", "01da1745e9b549bd0bfa1a569971c77eba30cd5a4b"},
			{"p2pk 02", "2102192d74d0cb94344c9569c2e77901573d8d7903c3ebec3a957724895dca52c6b4ac", "02192d74d0cb94344c9569c2e77901573d8d7903c3ebec3a957724895dca52c6b4"},
			{"p2pk 03", "2103b0bd634234abbb1ba1e986e884185c61cf43e001f9137f23c2c409273eb16e65ac", "03b0bd634234abbb1ba1e986e884185c61cf43e001f9137f23c2c409273eb16e65"},
			{"p2pk 04 even", "4104192d74d0cb94344c9569c2e77901573d8d7903c3ebec3a957724895dca52c6b40d45264838c0bd96852662ce6a847b197376830160c6d2eb5e6a4c44d33f453eac", "04192d74d0cb94344c9569c2e77901573d8d7903c3ebec3a957724895dca52c6b4"},
			{"p2pk 04 odd", "410411db93e1dcdb8a016b49840f8c53bc1eb68a382e97b1482ecad7b148a6909a5cb2e0eaddfb84ccf9744464f82e160bfa9b8b64f9d4c03f999b8643f656b412a3ac", "0511db93e1dcdb8a016b49840f8c53bc1eb68a382e97b1482ecad7b148a6909a5c"},
			{"invalid pubkey", "3302aaaaaaaaaaaaaaaaaaaaaaaaaaaaaaaaaaaaaaaaaaaaaaaaaaaaaaaaaaaaaaaaac", "293302aaaaaaaaaaaaaaaaaaaaaaaaaaaaaaaaaaaaaaaaaaaaaaaaaaaaaaaaaaaaaaaaac"},
			{"null data", "6a200102030405060708090a0b0c0d0e0f101112131415161718191a1b1c1d1e1f20", "286a200102030405060708090a0b0c0d0e0f101112131415161718191a1b1c1d1e1f20"},
		} {
			if got := refcodec.CompressScript(unhex(v.script)); !bytes.Equal(got, unhex(v.comp)) {
				k.Failf("calibration:refcodec.CompressScript", "%s: reference %x, vector %s", v.name, got, v.comp)
			}
			s, n, ok := refcodec.DecompressScript(unhex(v.comp))
			if !ok || n != len(v.comp)/2 || !bytes.Equal(s, unhex(v.script)) {
				k.Failf("calibration:refcodec.DecompressScript", "%s: reference %x %d %v", v.name, s, n, ok)
			}
		}
		two := append(unhex("4cc8"), make([]byte, 200)...)
		if got := refcodec.CompressScript(two); !bytes.Equal(got, append(unhex("80504cc8"), make([]byte, 200)...)) {
			k.Failf("calibration:refcodec.CompressScript", "200-byte push: reference %x", got[:8])
		}
		// utxo entries (format documentation in chainio.go / chainio_test.go)
		blk1Key := unhex("410496b538e853519c726a2c91e61ec11600ae1390813a627c66fb8be7947be63c52da7589379515d4e0a604f8141781e62294721166bf621e73a82cbf2342c858eeac")
		for _, v := range []struct {
			h      int32
			cb     bool
			amt    uint64
			script []byte
			want   string
		}{
			{1, true, 5000000000, blk1Key, "03320496b538e853519c726a2c91e61ec11600ae1390813a627c66fb8be7947be63c52"},
			{113931, false, 15000000, unhex("76a914b8025be1b3efc63b0ad48e7f9f10e87544528d5888ac"), "8cf316800900b8025be1b3efc63b0ad48e7f9f10e87544528d58"},
			{338156, false, 366875659, unhex("a9141dd46a006572d820e448e12d2bbb38640bc718e687"), "a8a2588ba5b9e763011dd46a006572d820e448e12d2bbb38640bc718e6"},
		} {
			got, ok := refcodec.UtxoEntry(v.h, v.cb, v.amt, v.script)
			if !ok || !bytes.Equal(got, unhex(v.want)) {
				k.Failf("calibration:refcodec.UtxoEntry", "height %d: reference %x, vector %s", v.h, got, v.want)
			}
			p, ok := refcodec.ParseUtxoEntry(unhex(v.want))
			if !ok || !p.Clean || p.Height != v.h || p.CoinBase != v.cb || p.Amount != v.amt || !bytes.Equal(p.Script, v.script) || p.Size != len(v.want)/2 {
				k.Failf("calibration:refcodec.ParseUtxoEntry", "height %d: reference %+v %v", v.h, p, ok)
			}
		}
		// spend journal (format documentation, block 170 and adapted block 100025)
		blk9Key := unhex("410411db93e1dcdb8a016b49840f8c53bc1eb68a382e97b1482ecad7b148a6909a5cb2e0eaddfb84ccf9744464f82e160bfa9b8b64f9d4c03f999b8643f656b412a3ac")
		j1, _ := refcodec.SpendJournal([]refcodec.Stxo{{Height: 9, CoinBase: true, Amount: 5000000000, Script: blk9Key}})
		if !bytes.Equal(j1, unhex("1300320511db93e1dcdb8a016b49840f8c53bc1eb68a382e97b1482ecad7b148a6909a5c")) {
			k.Failf("calibration:refcodec.SpendJournal", "block 170: reference %x", j1)
		}
		j2, _ := refcodec.SpendJournal([]refcodec.Stxo{
			{Height: 100024, Amount: 13761000000, Script: unhex("76a914b2fb57eadf61e106a100a7445a8c3f67898841ec88ac")},
			{Height: 100024, Amount: 34405000000, Script: unhex("76a9146edbc6c4d31bae9f1ccc38538a114bf42de65e8688ac")}})
		if !bytes.Equal(j2, unhex("8b99700091f20f006edbc6c4d31bae9f1ccc38538a114bf42de65e868b99700086c64700b2fb57eadf61e106a100a7445a8c3f67898841ec")) {
			k.Failf("calibration:refcodec.SpendJournal", "block 100025: reference %x", j2)
		}
		if p, ok := refcodec.ParseStxo(j2); !ok || !p.Clean || p.Height != 100024 || p.Amount != 34405000000 || p.Size != 28 {
			k.Failf("calibration:refcodec.ParseStxo", "block 100025: reference %+v %v", p, ok)
		}
		// best chain state (chainio_test.go)
		var gh [32]byte
		copy(gh[:], unhex("6fe28c0ab6f1b372c1a6a246ae63f74f931e8365e15a089c68d6190000000000"))
		if got := refcodec.BestState(gh, 0, 1, big.NewInt(0x0100010001)); !bytes.Equal(got, unhex("6fe28c0ab6f1b372c1a6a246ae63f74f931e8365e15a089c68d6190000000000000000000100000000000000050000000100010001")) {
			k.Failf("calibration:refcodec.BestState", "genesis: reference %x", got)
		}
		// secp256k1 generator
		gx := unhex("79be667ef9dcbbac55a06295ce870b07029bfcdb2dce28d959f2815b16f81798")
		gy := unhex("483ada7726a3c4655da4fbfc0e1108a8fd17b448a68554199c47d08ffb10d4b8")
		if y, ok := refcodec.LiftX(gx, false); !ok || !bytes.Equal(y, gy) || !refcodec.ValidPubKey(cat([]byte{4}, gx, gy)) || refcodec.ValidPubKey(cat([]byte{4}, gx, gx)) {
			k.Failf("calibration:refcodec.LiftX", "generator point")
		}
		if amountOverflowThreshold != 2049638230412172403 {
			k.Failf("calibration:amount-overflow-threshold", "reference threshold %d, derived by hand 2049638230412172403", amountOverflowThreshold)
		}
		k.Count("calibrate.vectors", 1)
		k.Eval(mon.Sig("calibrate"), false)
	})
	c.Require("calibrate.vectors", 1)
}
