package main

import (
	"bytes"
	"encoding/hex"
	"fmt"
	"math"
	"math/big"
	"runtime/debug"
	"strings"

	"verif/mon"
	"verif/ref/refcodec"

	"github.com/btcsuite/btcd/blockchain"
	"github.com/btcsuite/btcd/chainhash/v2"
	"github.com/btcsuite/btcd/wire/v2"
)

// safely runs f; a panic inside is reported as a violation keyed by the panicking function.
func safely(k *mon.Case, what string, input []byte, f func()) (panicked bool) {
	defer func() {
		if rec := recover(); rec != nil {
			panicked = true
			st := string(debug.Stack())
			site := st
			if i := strings.LastIndex(st, "\npanic("); i >= 0 { // the original panic, not a deferred re-panic
				site = st[i+1:]
			}
			in := hex.EncodeToString(input)
			if len(in) > 400 {
				in = in[:400] + "..."
			}
			k.Violation("panic:"+what+":"+mon.PanicSite(site), fmt.Sprintf("%s panicked on input %s: %v\n%s", what, in, rec, st),
				map[string]any{"decoder": what, "input": hex.EncodeToString(input)})
		}
	}()
	f()
	return false
}

// smallest amount whose code does not fit the 64-bit VLQ it is stored in (computed from the
// reference: the code of a is at most 9a+9, so nothing below (2^64-10)/9 can overflow).
var amountOverflowThreshold = func() uint64 {
	for a := (uint64(math.MaxUint64) - 10) / 9; ; a++ {
		if _, ok := refcodec.CompressAmount(a); !ok {
			return a
		}
	}
}()

func vlqFamily(c *mon.Ctx) {
	const per = 512
	c.Family("vlq", tierN(c, 400, 60000), func(k *mon.Case) {
		r := k.Rand
		k.Desc(map[string]any{"values": per})
		seen := map[int]struct{}{}
		buf := make([]byte, 16)
		for i := 0; i < per; i++ {
			n := genU64(r)
			want := refcodec.PutVLQ(n)
			size := blockchain.VerifSerializeSizeVLQ(n)
			cls := fmt.Sprintf("len%d", len(want))
			if size != len(want) {
				k.Failf("vlq:serializeSizeVLQ:"+cls, "serializeSizeVLQ(%d) = %d, documented encoding %x has %d bytes", n, size, want, len(want))
			}
			for j := range buf {
				buf[j] = 0xa5
			}
			w := blockchain.VerifPutVLQ(buf, n)
			if w != len(want) || !bytes.Equal(buf[:min(w, 16)], want) {
				k.Failf("vlq:putVLQ:"+cls, "putVLQ(%d) wrote %x (%d bytes), documented encoding %x", n, buf[:min(w, 16)], w, want)
			}
			if w < 16 && buf[w] != 0xa5 {
				k.Failf("vlq:putVLQ:writes-past-size:"+cls, "putVLQ(%d) touched byte %d", n, w)
			}
			// decode, also with trailing bytes
			in := append(append([]byte{}, want...), r.Bytes(r.Intn(3))...)
			got, read := blockchain.VerifDeserializeVLQ(in)
			if got != n || read != len(want) {
				k.Failf("vlq:deserializeVLQ:"+cls, "deserializeVLQ(%x) = (%d, %d), encoded value %d (%d bytes)", in, got, read, n, len(want))
			}
			seen[len(want)] = struct{}{}
		}
		// uniqueness: every well-formed byte string of up to 9 bytes stands for one integer and
		// re-encodes to itself
		for i := 0; i < 64; i++ {
			L := 1 + r.Intn(9)
			b := r.Bytes(L)
			for j := range b {
				b[j] |= 0x80
			}
			b[L-1] &= 0x7f
			if r.Chance(1, 4) {
				for j := 0; j < L-1; j++ {
					b[j] = []byte{0x80, 0xff}[r.Intn(2)]
				}
			}
			wantN, _, _ := refcodec.ReadVLQ(b)
			got, read := blockchain.VerifDeserializeVLQ(b)
			if read != L || !wantN.IsUint64() || got != wantN.Uint64() {
				k.Failf(fmt.Sprintf("vlq:deserializeVLQ:bytes:len%d", L), "deserializeVLQ(%x) = (%d, %d), documented value %v", b, got, read, wantN)
			}
			n2 := blockchain.VerifPutVLQ(buf, got)
			if !bytes.Equal(buf[:n2], b) {
				k.Failf(fmt.Sprintf("vlq:not-unique:len%d", L), "bytes %x decode to %d which encodes as %x", b, got, buf[:n2])
			}
			k.Count("vlq.decode-first", 1)
		}
		for l := range seen {
			k.Eval(mon.Sig("vlq", l), true)
		}
		k.C.EvalN(int64(per + 64 - len(seen)))
		k.Count("vlq.values", per)
	})
	c.Require("vlq.values", 100000)
}

func amountFamily(c *mon.Ctx) {
	const per = 1024
	T := amountOverflowThreshold
	overflowKey := fmt.Sprintf("amount:roundtrip:overflow>=%d", T)
	c.Note(fmt.Sprintf("amount compression: the smallest amount whose code exceeds 64 bits is %d (reference); amounts whose code does not fit are "+
		"reported under the single key %q", T, overflowKey))
	c.Family("amount", tierN(c, 600, 300000), func(k *mon.Case) {
		r := k.Rand
		k.Desc(map[string]any{"values": per})
		seen := map[uint64]struct{}{}
		check := func(a uint64, kind string) {
			exact := refcodec.CompressAmountExact(a)
			got := blockchain.VerifCompressTxOutAmount(a)
			back := blockchain.VerifDecompressTxOutAmount(got)
			digits := len(fmt.Sprint(a))
			if !exact.IsUint64() {
				// the documented code does not fit the 64-bit quantity it is stored in
				k.Count("amount.code-overflows-64-bits", 1)
				if back != a {
					k.Violation(overflowKey, fmt.Sprintf("decompress(compress(%d)) = %d: the code %v of the amount exceeds 64 bits (compress returned %d); "+
						"smallest such amount is %d", a, back, exact, got, T), map[string]any{"amount": a})
				}
				return
			}
			if got != exact.Uint64() {
				k.Failf(fmt.Sprintf("amount:compress:%s", kind), "compressTxOutAmount(%d) = %d, documented code %v", a, got, exact)
			}
			if back != a {
				k.Failf(fmt.Sprintf("amount:roundtrip:%s", kind), "decompress(compress(%d)) = %d (code %d)", a, back, got)
			}
			seen[mon.Sig(kind, digits)] = struct{}{}
		}
		for i := 0; i < per; i++ {
			a, kind := genAmount(r, math.MaxUint64)
			check(a, kind)
		}
		// the edge of the representable range
		for _, a := range []uint64{T - 2, T - 1, T - 3 - uint64(r.Intn(100000))} {
			check(a, "below-threshold")
			k.Count("amount.just-below-threshold", 1)
		}
		if k.Index%16 == 0 {
			check(T, "threshold")
			check(T+uint64(r.Intn(7)), "threshold")
		}
		// decompression of arbitrary codes: decompress is the inverse on every code whose amount fits 64 bits
		for i := 0; i < 256; i++ {
			code := genU64(r)
			if r.Bool() {
				code = r.Uint64() >> uint(r.Intn(64))
			}
			exact := refcodec.DecompressAmountExact(code)
			if !exact.IsUint64() {
				k.Count("amount.decompress.amount-overflows-64-bits", 1)
				continue
			}
			got := blockchain.VerifDecompressTxOutAmount(code)
			if got != exact.Uint64() {
				k.Failf("amount:decompress", "decompressTxOutAmount(%d) = %d, documented amount %v", code, got, exact)
			}
			if again := blockchain.VerifCompressTxOutAmount(got); again != code {
				k.Failf("amount:code-not-unique", "code %d decodes to %d which encodes as %d", code, got, again)
			}
			k.Count("amount.decompress", 1)
		}
		for s := range seen {
			k.Eval(s, true)
		}
		k.C.EvalN(int64(per + 256 - len(seen)))
		k.Count("amount.values", per)
	})
	c.Require("amount.values", 500000)
	c.Require("amount.decompress", 50000)
	c.Require("amount.just-below-threshold", 1000)
}

func scriptFamily(c *mon.Ctx) {
	const per = 16
	c.Family("script", tierN(c, 3000, 400000), func(k *mon.Case) {
		r := k.Rand
		var descs []string
		scripts := make([][]byte, per)
		kinds := make([]string, per)
		for i := range scripts {
			kinds[i] = randScriptKind(r)
			scripts[i] = genScript(r, kinds[i])
			if len(scripts[i]) <= 80 {
				descs = append(descs, kinds[i]+":"+hex.EncodeToString(scripts[i]))
			} else {
				descs = append(descs, fmt.Sprintf("%s:len%d", kinds[i], len(scripts[i])))
			}
		}
		k.Desc(descs)
		for i, s := range scripts {
			kind := kinds[i]
			want := refcodec.CompressScript(s)
			cls := refcodec.ScriptClass(s)
			key := kind + "->" + cls
			size := blockchain.VerifCompressedScriptSize(s)
			if size != len(want) {
				k.Failf("script:compressedScriptSize:"+key, "compressedScriptSize(%x) = %d, documented form %x has %d bytes", s, size, want, len(want))
			}
			buf := make([]byte, max(size, len(want))+4)
			for j := range buf {
				buf[j] = 0xa5
			}
			var w int
			if safely(k, "putCompressedScript", s, func() { w = blockchain.VerifPutCompressedScript(buf, s) }) {
				continue
			}
			if w != len(want) || !bytes.Equal(buf[:w], want) {
				k.Failf("script:putCompressedScript:"+key, "putCompressedScript(%x) = %x, documented form %x", s, buf[:min(w, len(buf))], want)
				continue
			}
			if buf[w] != 0xa5 {
				k.Failf("script:putCompressedScript:writes-past-size:"+key, "script %x", s)
			}
			if ds := blockchain.VerifDecodeCompressedScriptSize(want); ds != len(want) {
				k.Failf("script:decodeCompressedScriptSize:"+key, "decodeCompressedScriptSize(%x) = %d, want %d", want, ds, len(want))
			}
			var back []byte
			safely(k, "decompressScript", want, func() { back = blockchain.VerifDecompressScript(want) })
			if !bytes.Equal(back, s) {
				k.Failf("script:roundtrip:"+key, "decompressScript(%x) = %x, original %x", want, back, s)
			}
			k.Count("script.class."+cls, 1)
			k.Count("script.kind."+kind, 1)
			k.Eval(mon.Sig("script", kind, cls, len(want)), true)
		}
	})
	for _, cl := range []string{"p2pkh", "p2sh", "p2pk-comp", "p2pk-uncomp", "other"} {
		c.Require("script.class."+cl, 1000)
	}
	c.Require("script.kind.p2pk-comp-offcurve", 500)
	c.Require("script.kind.p2pk-uncomp-wrong-y", 500)
}

func entryEqual(e *blockchain.UtxoEntry, height int32, cb bool, amount uint64, script []byte) bool {
	return e != nil && e.BlockHeight() == height && e.IsCoinBase() == cb && uint64(e.Amount()) == amount &&
		bytes.Equal(e.PkScript(), script) && !e.IsSpent()
}

func genStxo(r *mon.Rand) (refcodec.Stxo, string) {
	kind := randScriptKind(r)
	return refcodec.Stxo{Height: genHeight(r), CoinBase: r.Bool(), Amount: genRepresentableAmount(r, math.MaxInt64), Script: genScript(r, kind)}, kind
}

func toBtcdStxo(s refcodec.Stxo) blockchain.SpentTxOut {
	return blockchain.SpentTxOut{Amount: int64(s.Amount), PkScript: s.Script, Height: s.Height, IsCoinBase: s.CoinBase}
}

func stxoEqual(g blockchain.SpentTxOut, s refcodec.Stxo) bool {
	return g.Height == s.Height && g.IsCoinBase == s.CoinBase && uint64(g.Amount) == s.Amount && bytes.Equal(g.PkScript, s.Script)
}

func entryFamily(c *mon.Ctx) {
	const per = 8
	c.Family("entry", tierN(c, 4000, 500000), func(k *mon.Case) {
		r := k.Rand
		var descs []string
		type item struct {
			s    refcodec.Stxo
			kind string
		}
		items := make([]item, per)
		for i := range items {
			s, kind := genStxo(r)
			items[i] = item{s, kind}
			sc := hex.EncodeToString(s.Script)
			if len(sc) > 140 {
				sc = fmt.Sprintf("len%d", len(s.Script))
			}
			descs = append(descs, fmt.Sprintf("%s h=%d cb=%v amt=%d script=%s", kind, s.Height, s.CoinBase, s.Amount, sc))
		}
		k.Desc(descs)
		for _, it := range items {
			s := it.s
			cls := refcodec.ScriptClass(s.Script)
			// compressed txout
			wantTx, _ := refcodec.TxOut(s.Amount, s.Script)
			if sz := blockchain.VerifCompressedTxOutSize(s.Amount, s.Script); sz != len(wantTx) {
				k.Failf("txout:compressedTxOutSize:"+cls, "size %d, documented form has %d bytes (amount %d script %x)", sz, len(wantTx), s.Amount, s.Script)
			}
			buf := make([]byte, len(wantTx)+8)
			var w int
			if safely(k, "putCompressedTxOut", s.Script, func() { w = blockchain.VerifPutCompressedTxOut(buf, s.Amount, s.Script) }) {
				continue
			}
			if !bytes.Equal(buf[:w], wantTx) {
				k.Failf("txout:putCompressedTxOut:"+cls, "got %x, documented form %x", buf[:w], wantTx)
			}
			in := append(append([]byte{}, wantTx...), r.Bytes(r.Intn(3))...)
			amt, scr, n, err := blockchain.VerifDecodeCompressedTxOut(in)
			if err != nil || amt != s.Amount || !bytes.Equal(scr, s.Script) || n != len(wantTx) {
				k.Failf("txout:decodeCompressedTxOut:"+cls, "decode(%x) = (%d, %x, %d, %v), encoded (%d, %x)", in, amt, scr, n, err, s.Amount, s.Script)
			}
			k.Count("txout.roundtrip", 1)

			// utxo entry
			wantE, _ := refcodec.UtxoEntry(s.Height, s.CoinBase, s.Amount, s.Script)
			e := blockchain.NewUtxoEntry(&wire.TxOut{Value: int64(s.Amount), PkScript: s.Script}, s.Height, s.CoinBase)
			gotE, err := blockchain.VerifSerializeUtxoEntry(e)
			if err != nil || !bytes.Equal(gotE, wantE) {
				k.Failf("utxo:serializeUtxoEntry:"+cls, "got %x (err %v), documented form %x", gotE, err, wantE)
			}
			de, err := blockchain.VerifDeserializeUtxoEntry(wantE)
			if err != nil || !entryEqual(de, s.Height, s.CoinBase, s.Amount, s.Script) {
				k.Failf("utxo:deserializeUtxoEntry:"+cls, "deserialize(%x): err %v entry %+v, encoded h=%d cb=%v amt=%d script=%x", wantE, err, de, s.Height, s.CoinBase, s.Amount, s.Script)
			}
			k.Count("utxo.roundtrip", 1)
			// a spent entry has no serialization
			sp := e.Clone()
			sp.Spend()
			if b, err := blockchain.VerifSerializeUtxoEntry(sp); err != nil || b != nil {
				k.Failf("utxo:serializeUtxoEntry:spent", "spent entry serialized to %x err %v", b, err)
			}

			// outpoint key
			var h chainhash.Hash
			r.Fill(h[:])
			idx := uint32(genU64(r))
			if gk, wk := blockchain.VerifOutpointKey(wire.OutPoint{Hash: h, Index: idx}), refcodec.OutpointKey(h, idx); !bytes.Equal(gk, wk) {
				k.Failf("utxo:outpointKey", "outpointKey(%s:%d) = %x, documented form %x", h, idx, gk, wk)
			}

			// stxo
			wantS, _ := refcodec.StxoBytes(s)
			bs := toBtcdStxo(s)
			if sz := blockchain.VerifSpentTxOutSerializeSize(&bs); sz != len(wantS) {
				k.Failf("stxo:spentTxOutSerializeSize:"+cls, "size %d, documented form %x has %d bytes", sz, wantS, len(wantS))
			}
			buf = make([]byte, len(wantS)+8)
			if safely(k, "putSpentTxOut", s.Script, func() { w = blockchain.VerifPutSpentTxOut(buf, &bs) }) {
				continue
			}
			if !bytes.Equal(buf[:w], wantS) {
				k.Failf("stxo:putSpentTxOut:"+cls, "got %x, documented form %x", buf[:w], wantS)
			}
			var ds blockchain.SpentTxOut
			in = append(append([]byte{}, wantS...), r.Bytes(r.Intn(3))...)
			n, err = blockchain.VerifDecodeSpentTxOut(in, &ds)
			if err != nil || n != len(wantS) || !stxoEqual(ds, s) {
				k.Failf("stxo:decodeSpentTxOut:"+cls, "decode(%x) = (%+v, %d, %v), encoded %+v", in, ds, n, err, s)
			}
			k.Count("stxo.roundtrip", 1)
			hc := "h>0"
			if s.Height == 0 {
				hc = "h=0"
				k.Count("stxo.height0", 1)
			}
			k.Eval(mon.Sig("entry", it.kind, cls, len(refcodec.PutVLQ(uint64(s.Height)*2)), hc, s.CoinBase, len(wantTx)-len(refcodec.CompressScript(s.Script))), true)
		}
	})
	c.Require("utxo.roundtrip", 10000)
	c.Require("stxo.roundtrip", 10000)
	c.Require("stxo.height0", 200)
}

// journalFamily: a block's spent outputs against the shape of its transactions.
func journalFamily(c *mon.Ctx) {
	c.Family("journal", tierN(c, 3000, 300000), func(k *mon.Case) {
		r := k.Rand
		ntx := r.Intn(6)
		if r.Chance(1, 10) {
			ntx = 20 + r.Intn(30)
		}
		var txns []*wire.MsgTx
		var shape []int
		total := 0
		for i := 0; i < ntx; i++ {
			nin := 1 + r.Intn(4)
			if r.Chance(1, 12) {
				nin = 0 // degenerate: a transaction without inputs
			}
			tx := wire.NewMsgTx(2)
			for j := 0; j < nin; j++ {
				var h chainhash.Hash
				r.Fill(h[:])
				tx.AddTxIn(wire.NewTxIn(wire.NewOutPoint(&h, r.Uint32()), nil, nil))
			}
			txns = append(txns, tx)
			shape = append(shape, nin)
			total += nin
		}
		stxos := make([]refcodec.Stxo, total)
		bst := make([]blockchain.SpentTxOut, total)
		var descs []string
		for i := range stxos {
			s, kind := genStxo(r)
			if len(s.Script) > 2000 {
				s.Script = s.Script[:100]
			}
			stxos[i], bst[i] = s, toBtcdStxo(s)
			descs = append(descs, fmt.Sprintf("%s h=%d cb=%v amt=%d script=%x", kind, s.Height, s.CoinBase, s.Amount, s.Script))
		}
		k.Desc(map[string]any{"shape": shape, "stxos": descs})
		want, _ := refcodec.SpendJournal(stxos)
		got := blockchain.VerifSerializeSpendJournalEntry(bst)
		if !bytes.Equal(got, want) {
			k.Failf("journal:serializeSpendJournalEntry", "got %x, documented form %x", got, want)
		}
		if total == 0 && got != nil {
			k.Failf("journal:serializeSpendJournalEntry:empty", "no spent outputs serialized to %x", got)
		}
		back, err := blockchain.VerifDeserializeSpendJournalEntry(want, txns)
		if err != nil || len(back) != total {
			k.Failf("journal:deserializeSpendJournalEntry", "shape %v: %d entries, err %v", shape, len(back), err)
		} else {
			for i := range back {
				if !stxoEqual(back[i], stxos[i]) {
					k.Failf("journal:deserializeSpendJournalEntry:order-or-value", "shape %v: entry %d = %+v, encoded %+v", shape, i, back[i], stxos[i])
					break
				}
			}
		}
		k.Count("journal.roundtrip", 1)
		k.Count("journal.stxos", int64(total))
		// mismatched shapes: more inputs than recorded outputs must fail cleanly, fewer must not panic
		if total > 0 {
			extra := wire.NewMsgTx(2)
			for j := 0; j < 1+r.Intn(3); j++ {
				extra.AddTxIn(wire.NewTxIn(wire.NewOutPoint(&chainhash.Hash{}, 0), nil, nil))
			}
			var err error
			var res []blockchain.SpentTxOut
			safely(k, "deserializeSpendJournalEntry", want, func() {
				res, err = blockchain.VerifDeserializeSpendJournalEntry(want, append(append([]*wire.MsgTx{}, txns...), extra))
			})
			if err == nil && res != nil {
				k.Failf("journal:deserializeSpendJournalEntry:more-inputs-than-entries", "shape %v + %d inputs decoded %d entries without error", shape, len(extra.TxIn), len(res))
			}
			safely(k, "deserializeSpendJournalEntry", want, func() {
				_, _ = blockchain.VerifDeserializeSpendJournalEntry(want, txns[:len(txns)-1])
			})
			safely(k, "deserializeSpendJournalEntry", nil, func() {
				_, err = blockchain.VerifDeserializeSpendJournalEntry(nil, txns)
			})
			if err == nil {
				k.Failf("journal:deserializeSpendJournalEntry:empty-record-for-spending-block", "shape %v decoded from an empty record without error", shape)
			}
			k.Count("journal.mismatch", 1)
		}
		k.Eval(mon.Sig("journal", fmt.Sprint(shape)), total > 0)
	})
	c.Require("journal.roundtrip", 1000)
	c.Require("journal.mismatch", 500)
}

func bestStateFamily(c *mon.Ctx) {
	c.Family("beststate", tierN(c, 3000, 300000), func(k *mon.Case) {
		r := k.Rand
		var h chainhash.Hash
		r.Fill(h[:])
		height := uint32(genU64(r))
		txns := genU64(r)
		var work *big.Int
		wk := r.Intn(6)
		switch wk {
		case 0:
			work = new(big.Int)
		case 1:
			work = big.NewInt(int64(r.Intn(1000)))
		case 2:
			work = new(big.Int).Lsh(big.NewInt(1), uint(r.Intn(300)))
		default:
			work = new(big.Int).SetBytes(r.Bytes(r.Intn(40)))
		}
		k.Desc(map[string]any{"hash": h.String(), "height": height, "txns": txns, "work": work.String()})
		want := refcodec.BestState(h, height, txns, work)
		got := blockchain.VerifSerializeBestChainState(h, height, txns, work)
		if !bytes.Equal(got, want) {
			k.Failf("beststate:serialize", "got %x, documented form %x", got, want)
		}
		in := append(append([]byte{}, want...), r.Bytes(r.Intn(3))...)
		gh, ght, gt, gw, err := blockchain.VerifDeserializeBestChainState(in)
		if err != nil || gh != h || ght != height || gt != txns || gw == nil || gw.Cmp(work) != 0 {
			k.Failf("beststate:deserialize", "deserialize(%x) = (%s, %d, %d, %v, %v)", in, gh, ght, gt, gw, err)
		}
		k.Count("beststate.roundtrip", 1)
		k.Eval(mon.Sig("beststate", wk, len(work.Bytes()), height>>24, txns>>56), true)
	})
	c.Require("beststate.roundtrip", 1000)
}
