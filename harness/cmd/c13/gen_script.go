package main

import "verif/mon"

// Script generation for the sigop families. The generator is purely syntactic: it knows opcode numbers and
// push framing, nothing about counting.

const (
	opPD1  = 0x4c
	opPD2  = 0x4d
	opPD4  = 0x4e
	opCS   = 0xac
	opCSV  = 0xad
	opCMS  = 0xae
	opCMSV = 0xaf
)

var sigopBytes = []byte{opCS, opCSV, opCMS, opCMSV}

// payload returns n bytes that look like sigops / small ints / push opcodes, so that an implementation
// that fails to skip push data miscounts.
func payload(r *mon.Rand, n int) []byte {
	b := make([]byte, n)
	for i := range b {
		switch r.Intn(6) {
		case 0, 1, 2:
			b[i] = sigopBytes[r.Intn(4)]
		case 3:
			b[i] = byte(0x51 + r.Intn(16))
		case 4:
			b[i] = byte(0x4b + r.Intn(5))
		default:
			b[i] = byte(r.Intn(256))
		}
	}
	return b
}

// push frames data with a chosen (possibly non-canonical) push opcode. form: 0 direct (len<=75), 1 PUSHDATA1,
// 2 PUSHDATA2, 4 PUSHDATA4, -1 smallest possible.
func push(data []byte, form int) []byte {
	n := len(data)
	if form == 0 && n > 75 {
		form = -1
	}
	if form == 1 && n > 0xff {
		form = -1
	}
	if form == 2 && n > 0xffff {
		form = -1
	}
	if form == -1 {
		switch {
		case n <= 75:
			form = 0
		case n <= 0xff:
			form = 1
		case n <= 0xffff:
			form = 2
		default:
			form = 4
		}
	}
	var b []byte
	switch form {
	case 0:
		b = append(b, byte(n))
	case 1:
		b = append(b, opPD1, byte(n))
	case 2:
		b = append(b, opPD2, byte(n), byte(n>>8))
	default:
		b = append(b, opPD4, byte(n), byte(n>>8), byte(n>>16), byte(n>>24))
	}
	return append(b, data...)
}

func pushForm(r *mon.Rand) int {
	switch r.Intn(8) {
	case 0:
		return 1
	case 1:
		return 2
	case 2:
		return 4
	default:
		return -1
	}
}

// malformedTail returns a script suffix whose push framing overruns the end of the script; the bytes that
// remain after the push opcode are sigop-looking.
func malformedTail(r *mon.Rand) []byte {
	switch r.Intn(10) {
	case 0: // direct push of more than remains
		n := 1 + r.Intn(75)
		return append([]byte{byte(n)}, payload(r, r.Intn(n))...)
	case 1: // PUSHDATA1 without its length byte
		return []byte{opPD1}
	case 2: // PUSHDATA1 overrunning
		n := 1 + r.Intn(255)
		return append([]byte{opPD1, byte(n)}, payload(r, r.Intn(n))...)
	case 3: // PUSHDATA2 with 0 or 1 length bytes
		return append([]byte{opPD2}, payload(r, r.Intn(2))...)
	case 4: // PUSHDATA2 overrunning
		n := 1 + r.Intn(600)
		return append([]byte{opPD2, byte(n), byte(n >> 8)}, payload(r, r.Intn(n))...)
	case 5: // PUSHDATA4 with 0..3 length bytes
		return append([]byte{opPD4}, payload(r, r.Intn(4))...)
	case 6: // PUSHDATA4 with an enormous length
		l := [][]byte{{0xff, 0xff, 0xff, 0xff}, {0x00, 0x00, 0x00, 0x80}, {0xff, 0xff, 0xff, 0x7f}, {0x01, 0x00, 0x00, 0x80}}[r.Intn(4)]
		return append(append([]byte{opPD4}, l...), payload(r, r.Intn(8))...)
	case 7: // PUSHDATA4 overrunning by one
		n := 1 + r.Intn(40)
		return append([]byte{opPD4, byte(n), 0, 0, 0}, payload(r, n-1)...)
	case 8: // direct push overrunning by exactly one
		n := 1 + r.Intn(75)
		return append([]byte{byte(n)}, payload(r, n-1)...)
	default: // PUSHDATA2 overrunning by exactly one
		n := 1 + r.Intn(300)
		return append([]byte{opPD2, byte(n), byte(n >> 8)}, payload(r, n-1)...)
	}
}

// multisigPrefix emits what precedes an OP_CHECKMULTISIG(VERIFY).
func multisigPrefix(r *mon.Rand) []byte {
	switch r.Intn(12) {
	case 0, 1, 2, 3:
		return []byte{byte(0x51 + r.Intn(16))} // OP_1..OP_16
	case 4:
		return []byte{0x00} // OP_0
	case 5:
		return []byte{0x4f} // OP_1NEGATE
	case 6:
		return []byte{0x50} // OP_RESERVED
	case 7:
		return []byte{0x01, byte(1 + r.Intn(20))} // number as data push
	case 8:
		return []byte{opPD1, 0x01, byte(1 + r.Intn(20))}
	case 9:
		return push(append(payload(r, r.Intn(5)), byte(0x51+r.Intn(16))), pushForm(r)) // data ending in an OP_n byte
	case 10:
		return []byte{0x61 + byte(r.Intn(0x9f))} // some other opcode (0x61..0xff)
	default:
		return nil
	}
}

// genOps emits a sequence of well-formed script elements.
func genOps(r *mon.Rand, n int) []byte {
	var s []byte
	for i := 0; i < n; i++ {
		switch r.Intn(14) {
		case 0, 1:
			s = append(s, sigopBytes[r.Intn(2)])
		case 2, 3, 4:
			s = append(s, multisigPrefix(r)...)
			s = append(s, sigopBytes[2+r.Intn(2)])
		case 5:
			s = append(s, push(payload(r, r.Intn(76)), 0)...)
		case 6:
			s = append(s, push(payload(r, r.Intn(90)), 1)...)
		case 7:
			ln := r.Intn(40)
			if r.Chance(1, 6) {
				ln = 250 + r.Intn(20)
			}
			s = append(s, push(payload(r, ln), 2)...)
		case 8:
			s = append(s, push(payload(r, r.Intn(40)), 4)...)
		case 9:
			s = append(s, byte(0x51+r.Intn(16)))
		case 10:
			s = append(s, byte(0x4f+r.Intn(2)))
		case 11:
			s = append(s, 0x00)
		default:
			s = append(s, byte(0x61+r.Intn(0x9f)))
		}
	}
	return s
}

// genMultisig emits a bare m-of-n template with n in 0..20 (n > 16 uses a data push for the number).
func genMultisig(r *mon.Rand) []byte {
	n := r.Intn(21)
	m := 0
	if n > 0 {
		m = r.Intn(n + 1)
	}
	num := func(v int) []byte {
		switch {
		case v == 0:
			return []byte{0x00}
		case v <= 16:
			return []byte{byte(0x50 + v)}
		default:
			return []byte{0x01, byte(v)}
		}
	}
	var s []byte
	s = append(s, num(m)...)
	for i := 0; i < n; i++ {
		k := payload(r, 33)
		s = append(s, push(k, 0)...)
	}
	s = append(s, num(n)...)
	s = append(s, sigopBytes[2+r.Intn(2)])
	return s
}

// genScript is the top-level generator of scripts whose sigops get counted.
func genScript(r *mon.Rand) []byte {
	var s []byte
	switch r.Intn(12) {
	case 0:
		s = r.Bytes(r.Intn(40))
	case 1:
		s = payload(r, r.Intn(40))
	case 2:
		s = genMultisig(r)
	case 3:
		return nil
	default:
		s = genOps(r, 1+r.Intn(10))
	}
	switch r.Intn(8) {
	case 0:
		s = append(s, malformedTail(r)...)
	case 1:
		if len(s) > 0 {
			s = s[:r.Intn(len(s)+1)]
		}
	case 2:
		s = append(s, genOps(r, 1+r.Intn(3))...)
		s = append(s, malformedTail(r)...)
	}
	return s
}

func p2shScript(r *mon.Rand) []byte {
	return append(append([]byte{0xa9, 0x14}, r.Bytes(20)...), 0x87)
}

// nearP2SH returns scripts that are almost, but not, P2SH.
func nearP2SH(r *mon.Rand) []byte {
	s := p2shScript(r)
	switch r.Intn(6) {
	case 0:
		return append(s, sigopBytes[r.Intn(4)]) // 24 bytes
	case 1:
		return s[:22]
	case 2:
		s[0] = 0xaa // OP_HASH256
	case 3:
		s[22] = 0x88 // OP_EQUALVERIFY
	case 4:
		s[1] = 0x15
	default: // PUSHDATA1 form of the 20-byte push: 24 bytes
		return append(append([]byte{0xa9, opPD1, 0x14}, r.Bytes(20)...), 0x87)
	}
	return s
}

// witnessProgram returns ver || push(program).
func witnessProgram(ver int, prog []byte) []byte {
	v := byte(0)
	if ver > 0 {
		v = byte(0x50 + ver)
	}
	return append([]byte{v, byte(len(prog))}, prog...)
}

// genWitnessProgram: proper and near-miss witness programs.
func genWitnessProgram(r *mon.Rand) []byte {
	ver := 0
	switch r.Intn(6) {
	case 0:
		ver = 1
	case 1:
		ver = 1 + r.Intn(16)
	}
	plen := 32
	switch r.Intn(8) {
	case 0, 1, 2:
		plen = 20
	case 3:
		plen = 2 + r.Intn(39)
	case 4:
		plen = []int{1, 2, 40, 41, 19, 21, 31, 33}[r.Intn(8)]
	}
	s := witnessProgram(ver, payload(r, plen))
	switch r.Intn(14) {
	case 0: // length byte off by one
		s[1]++
	case 1:
		s[1]--
	case 2: // trailing opcode
		s = append(s, sigopBytes[r.Intn(4)])
	case 3: // PUSHDATA1 form
		s = append([]byte{s[0], opPD1}, s[1:]...)
	case 4: // version opcode outside OP_0/OP_1..16
		s[0] = []byte{0x4f, 0x50, 0x61, 0x01}[r.Intn(4)]
	}
	return s
}
