package main

import (
	"fmt"
	"time"

	"verif/mon"
	"verif/ref/refacct"

	"github.com/btcsuite/btcd/blockchain"
)

func unixTime(s int64) time.Time { return time.Unix(s, 0) }

// around returns a value within +-2 of x, or x itself.
func around(r *mon.Rand, x int64) int64 { return x + int64(r.Intn(5)) - 2 }

func genLockTime(r *mon.Rand) uint32 {
	switch r.Intn(8) {
	case 0:
		return 0
	case 1:
		return uint32(around(r, refacct.LockTimeThreshold))
	case 2:
		return uint32(r.Intn(1000))
	case 3:
		return 0xffffffff - uint32(r.Intn(3))
	case 4:
		return uint32(refacct.LockTimeThreshold + r.Intn(1<<30))
	case 5:
		return uint32(r.Intn(refacct.LockTimeThreshold))
	case 6:
		return 0x7fffffff + uint32(r.Intn(3))
	default:
		return r.Uint32()
	}
}

func genSeqFinality(r *mon.Rand) uint32 {
	switch r.Intn(4) {
	case 0, 1:
		return 0xffffffff
	case 2:
		return 0xfffffffe
	default:
		return r.Uint32()
	}
}

// famLocks: the pure lock-time functions.
func famLocks(c *mon.Ctx) {
	c.Family("finality", tierN(c, 4000, 400000), func(k *mon.Case) {
		k.Desc(map[string]any{"batch": locksBatch})
		for sub := 0; sub < locksBatch; sub++ {
			finalityOne(k)
		}
	})
	c.Require("finality.final", 5000)
	c.Require("finality.nonfinal", 5000)
	c.Require("finality.time_based", 5000)
	c.Require("finality.height_based", 5000)

	c.Family("seqlock.pure", tierN(c, 4000, 400000), func(k *mon.Case) {
		k.Desc(map[string]any{"batch": locksBatch})
		for sub := 0; sub < locksBatch; sub++ {
			seqlockPureOne(k)
		}
	})
	c.Require("seqlock.active.true", 5000)
	c.Require("seqlock.active.false", 5000)
	c.Require("seqlock.tosequence.eval", 10000)
}

const locksBatch = 16

func finalityOne(k *mon.Case) {
	{
		r := k.Rand
		var desc any
		fail := func(key, f string, a ...any) { k.Violation(key, fmt.Sprintf(f, a...), desc) }
		t := &refacct.Tx{Version: genVersion(r), LockTime: genLockTime(r)}
		nin := 1 + r.Intn(4)
		allFinal := r.Chance(1, 3)
		for i := 0; i < nin; i++ {
			in := refacct.TxIn{PrevIndex: r.Uint32(), Sequence: genSeqFinality(r)}
			if allFinal {
				in.Sequence = 0xffffffff
			}
			r.Fill(in.PrevHash[:])
			t.In = append(t.In, in)
		}
		t.Out = []refacct.TxOut{{Value: 1, PkScript: []byte{0x51}}}
		// context near the lock time
		var height int32
		var btime int64
		lt := int64(t.LockTime)
		switch r.Intn(4) {
		case 0:
			height = int32(r.Uint32() >> 1)
			btime = int64(r.Uint32())
		case 1:
			if lt < refacct.LockTimeThreshold {
				height = int32(around(r, lt))
			} else {
				height = int32(r.Intn(1 << 20))
			}
			btime = around(r, lt)
		case 2:
			height = int32(around(r, lt&0x7fffffff))
			btime = int64(r.Uint32())
		default:
			height = int32(r.Intn(1 << 22))
			btime = around(r, lt)
		}
		if r.Chance(1, 30) {
			height = -1 + int32(r.Intn(2)) // heights -1 / 0 (genesis context)
		}
		if r.Chance(1, 30) {
			btime = int64(r.Uint32()) + 1<<32 // beyond 32 bits: every time-based lock has passed
		}
		seqs := make([]uint32, nin)
		for i := range seqs {
			seqs[i] = t.In[i].Sequence
		}
		desc = map[string]any{"lockTime": t.LockTime, "sequences": seqs, "height": height, "blockTime": btime}
		want := refacct.IsFinalTx(t, height, btime)
		got := blockchain.IsFinalizedTransaction(toUtil(t), height, unixTime(btime))
		if got != want {
			fail("finality:IsFinalizedTransaction", "lockTime %d sequences %v height %d time %d: got %v want %v", t.LockTime, seqs, height, btime, got, want)
		}
		k.Count("finality.eval", 1)
		if want {
			k.Count("finality.final", 1)
		} else {
			k.Count("finality.nonfinal", 1)
		}
		if lt >= refacct.LockTimeThreshold {
			k.Count("finality.time_based", 1)
		} else if lt > 0 {
			k.Count("finality.height_based", 1)
		}
		k.Eval(mon.Sig("finality", t.LockTime, seqs, height, btime), true)
		if !want && lt >= refacct.LockTimeThreshold {
			k.Sample(map[string]any{"family": "finality", "lockTime": t.LockTime, "sequences": seqs, "height": height, "blockTime": btime, "final": want})
		}
	}
}

func seqlockPureOne(k *mon.Case) {
	{
		r := k.Rand
		var desc any
		fail := func(key, f string, a ...any) { k.Violation(key, fmt.Sprintf(f, a...), desc) }
		// SequenceLockActive == EvaluateSequenceLocks
		lock := refacct.SeqLock{MinHeight: -1, MinTime: -1}
		if r.Chance(2, 3) {
			lock.MinHeight = int32(r.Intn(1 << 20))
		}
		if r.Chance(2, 3) {
			lock.MinTime = int64(r.Uint32())
		}
		height := int32(r.Intn(1 << 20))
		mtp := int64(r.Uint32())
		if r.Bool() {
			height = int32(around(r, int64(lock.MinHeight)))
		}
		if r.Bool() {
			mtp = around(r, lock.MinTime)
		}
		desc = map[string]any{"lock": lock, "height": height, "mtp": mtp}
		want := refacct.EvaluateSequenceLocks(height, mtp, lock)
		got := blockchain.SequenceLockActive(&blockchain.SequenceLock{Seconds: lock.MinTime, BlockHeight: lock.MinHeight}, height, unixTime(mtp))
		if got != want {
			fail("seqlock:SequenceLockActive", "lock %+v height %d mtp %d: got %v want %v", lock, height, mtp, got, want)
		}
		k.Count("seqlock.active.eval", 1)
		if want {
			k.Count("seqlock.active.true", 1)
		} else {
			k.Count("seqlock.active.false", 1)
		}

		// LockTimeToSequence on its defined domain, and its meaning under CalculateSequenceLocks
		isSeconds := r.Bool()
		var v uint32
		if isSeconds {
			switch r.Intn(5) {
			case 0:
				v = uint32(r.Intn(1024))
			case 1:
				v = uint32(around(r, int64(512*(1+r.Intn(0xffff)))))
			case 2:
				v = refacct.MaxRelativeLockSeconds + uint32(r.Intn(512))
			default:
				v = uint32(r.Intn(refacct.MaxRelativeLockSeconds + 512))
			}
		} else {
			switch r.Intn(4) {
			case 0:
				v = uint32(r.Intn(4))
			case 1:
				v = refacct.MaxRelativeLockInBlocks - uint32(r.Intn(3))
			default:
				v = uint32(r.Intn(refacct.MaxRelativeLockInBlocks + 1))
			}
		}
		gotSeq := blockchain.LockTimeToSequence(isSeconds, v)
		wantSeq := refacct.LockTimeToSequence(isSeconds, v)
		if gotSeq != wantSeq {
			fail("seqlock:LockTimeToSequence", "isSeconds %v value %d: got %#x want %#x", isSeconds, v, gotSeq, wantSeq)
		}
		// semantic check: the sequence number, interpreted by BIP68, yields the requested lock (rounded down to 512 s)
		coinHeight := int32(1 + r.Intn(1000))
		coinMTP := int64(1600000000 + r.Intn(1000000))
		tx := &refacct.Tx{Version: 2, In: []refacct.TxIn{{Sequence: gotSeq}}}
		l := refacct.CalculateSequenceLocks(tx, true, []int32{coinHeight}, func(int32) int64 { return coinMTP })
		if isSeconds {
			if l.MinHeight != -1 || l.MinTime != coinMTP+int64(v/512*512)-1 {
				fail("seqlock:LockTimeToSequence:meaning", "seconds %d -> %#x means %+v", v, gotSeq, l)
			}
		} else if l.MinTime != -1 || l.MinHeight != coinHeight+int32(v)-1 {
			fail("seqlock:LockTimeToSequence:meaning", "blocks %d -> %#x means %+v", v, gotSeq, l)
		}
		k.Count("seqlock.tosequence.eval", 1)
		k.Eval(mon.Sig("seqlock.pure", lock, height, mtp, isSeconds, v), true)
	}
}
