package main

import (
	"encoding/hex"
	"fmt"

	"verif/mon"
	"verif/ref/refacct"

	"github.com/btcsuite/btcd/blockchain"
	"github.com/btcsuite/btcd/btcutil/v2"
	"github.com/btcsuite/btcd/chainhash/v2"
)

// callRecover runs f and returns the panic value (nil if none).
func callRecover(f func()) (p any) {
	defer func() { p = recover() }()
	f()
	return nil
}

func famMerkle(c *mon.Ctx) {
	maxN := int(c.N(1100, 9000))
	maxPow := int(c.N(11, 14))   // powers of two up to 2^10 (quick) / 2^13 (thorough), each +-1
	exhaustive := int64(2 * 300) // indexes below this enumerate n = 0..299 in both forms
	c.Family("merkle", tierN(c, 5000, 600000), func(k *mon.Case) {
		r := k.Rand
		var n int
		var witness bool
		if k.Index < exhaustive {
			n, witness = int(k.Index/2), k.Index%2 == 1
		} else {
			witness = r.Bool()
			switch r.Intn(8) {
			case 0:
				n = r.Intn(5)
			case 1, 2:
				n = (1 << uint(r.Intn(maxPow))) + r.Intn(3) - 1
			case 3:
				n = r.Intn(maxN + 1)
			default:
				n = r.Intn(130)
			}
			if n > maxN {
				n = maxN
			}
			if n < 0 {
				n = 0
			}
		}
		rtxs := make([]*refacct.Tx, 0, n+8)
		for i := 0; i < n; i++ {
			rtxs = append(rtxs, genSmallTx(r, witness || r.Chance(1, 4)))
		}
		// duplicated trailing entries (the CVE-2012-2459 shape and arbitrary repeats)
		dup := 0
		if n >= 1 && r.Chance(1, 4) {
			switch r.Intn(3) {
			case 0:
				dup = 1
			case 1:
				dup = 1 + r.Intn(min(n, 4))
			default: // repeat the unpaired tail of the lowest odd level
				w := n
				span := 1
				for w > 1 && w%2 == 0 {
					w /= 2
					span *= 2
				}
				if w > 1 {
					dup = span
				}
			}
			if dup > n {
				dup = n
			}
			rtxs = append(rtxs, rtxs[n-dup:n]...)
			n += dup
		}
		sharePtr := r.Bool()
		txs := make([]*btcutil.Tx, n)
		for i, t := range rtxs {
			if sharePtr && i >= n-dup && dup > 0 {
				txs[i] = txs[i-dup]
			} else {
				txs[i] = toUtil(t)
			}
		}
		k.Desc(map[string]any{"n": n, "witness": witness, "dup": dup, "sharePtr": sharePtr})

		leaves := refacct.TxLeaves(rtxs, witness)
		want, levels := refacct.MerkleLevels(leaves)
		if refacct.MerkleRecursive(leaves) != want {
			k.Failf("calibration:merkle-two-definitions-disagree", "n=%d", n)
		}

		if n == 0 {
			// The quantifier includes the empty list; the protocol-defined root of no transactions is the zero hash.
			if p := callRecover(func() {
				got := blockchain.CalcMerkleRoot(txs, witness)
				if [32]byte(got) != want {
					k.Failf("merkle:CalcMerkleRoot:empty-list-wrong-root", "got %x want zero hash", got[:])
				}
			}); p != nil {
				k.Failf("merkle:CalcMerkleRoot:empty-list-panics", "CalcMerkleRoot(nil, %v) panicked: %v", witness, p)
			}
			if p := callRecover(func() {
				st := blockchain.BuildMerkleTreeStore(txs, witness)
				if len(st) == 0 {
					return // no nodes at all: nothing contradicts the definition
				}
				last := st[len(st)-1]
				if last != nil && [32]byte(*last) != want {
					k.Failf("merkle:BuildMerkleTreeStore:empty-list-wrong-root", "got %x want zero hash", last[:])
				}
			}); p != nil {
				k.Failf("merkle:BuildMerkleTreeStore:empty-list-panics", "BuildMerkleTreeStore(nil, %v) panicked: %v", witness, p)
			}
			k.Count("merkle.empty", 1)
			k.Eval(mon.Sig("merkle", 0, witness), true)
			return
		}

		// leaf hashes themselves (txid / wtxid) against the reference serializer
		pick := r.Intn(n)
		if [32]byte(*txs[pick].Hash()) != rtxs[pick].TxID() {
			k.Failf("merkle:leaf:txid", "txid mismatch for tx %x", rtxs[pick].Serialize(true))
		}
		if [32]byte(*txs[pick].WitnessHash()) != rtxs[pick].WTxID() {
			k.Failf("merkle:leaf:wtxid", "wtxid mismatch for tx %x", rtxs[pick].Serialize(true))
		}

		got := blockchain.CalcMerkleRoot(txs, witness)
		if [32]byte(got) != want {
			k.Failf("merkle:CalcMerkleRoot:mismatch", "n=%d witness=%v dup=%d got %x want %x", n, witness, dup, got[:], want[:])
		}
		k.Count("merkle.calcroot", 1)

		store := blockchain.BuildMerkleTreeStore(txs, witness)
		np := 1
		for np < n {
			np <<= 1
		}
		if len(store) != 2*np-1 {
			k.Failf("merkle:BuildMerkleTreeStore:size", "n=%d store has %d slots, want %d", n, len(store), 2*np-1)
			return
		}
		last := store[len(store)-1]
		if last == nil || [32]byte(*last) != want {
			k.Failf("merkle:BuildMerkleTreeStore:root", "store root mismatch n=%d witness=%v dup=%d", n, witness, dup)
		}
		off, width := 0, np
		interior := 0
		for lv := 0; lv < len(levels); lv++ {
			for i := 0; i < width; i++ {
				s := store[off+i]
				if i < len(levels[lv]) {
					if s == nil || [32]byte(*s) != levels[lv][i] {
						k.Failf("merkle:BuildMerkleTreeStore:interior", "level %d index %d mismatch n=%d witness=%v", lv, i, n, witness)
					}
					interior++
				} else if s != nil {
					k.Failf("merkle:BuildMerkleTreeStore:padding", "level %d index %d should be nil n=%d", lv, i, n)
				}
			}
			off += width
			width >>= 1
		}
		// HashMerkleBranches is the exported node function of both construction paths
		if len(levels) > 1 {
			l := chainhash.Hash(levels[0][0])
			rr := l
			if len(levels[0]) > 1 {
				rr = chainhash.Hash(levels[0][1])
			}
			if h := blockchain.HashMerkleBranches(&l, &rr); [32]byte(h) != levels[1][0] {
				k.Failf("merkle:HashMerkleBranches", "node hash mismatch")
			}
		}
		k.Count("merkle.store", 1)
		k.Count("merkle.store.nodes", int64(interior))
		if dup > 0 {
			k.Count("merkle.duplicated_tail", 1)
		}
		if n%2 == 1 {
			k.Count("merkle.odd", 1)
		}
		k.Count(fmt.Sprintf("merkle.depth.%02d", len(levels)-1), 1)
		k.Eval(mon.Sig("merkle", n, witness, dup, hex.EncodeToString(want[:6])), true)
		if n < 40 {
			k.Sample(map[string]any{"family": "merkle", "n": n, "witness": witness, "dup": dup, "root": hex.EncodeToString(want[:])})
		}
	})
	c.Require("merkle.calcroot", 1000)
	c.Require("merkle.store", 1000)
	c.Require("merkle.empty", 2)
	c.Require("merkle.duplicated_tail", 100)
}
