package main

import (
	"verif/mon"
	"verif/ref/refacct"

	"github.com/btcsuite/btcd/btcutil/v2"
	"github.com/btcsuite/btcd/chainhash/v2"
	"github.com/btcsuite/btcd/wire/v2"
)

// toWire converts the harness' own transaction model into btcd's, field by field (no serialization
// round trip, so btcd's encoder is never in the oracle's path).
func toWire(t *refacct.Tx) *wire.MsgTx {
	m := &wire.MsgTx{Version: t.Version, LockTime: t.LockTime}
	m.TxIn = make([]*wire.TxIn, 0, len(t.In))
	m.TxOut = make([]*wire.TxOut, 0, len(t.Out))
	for i := range t.In {
		in := &t.In[i]
		wi := &wire.TxIn{
			PreviousOutPoint: wire.OutPoint{Hash: chainhash.Hash(in.PrevHash), Index: in.PrevIndex},
			SignatureScript:  in.ScriptSig,
			Sequence:         in.Sequence,
		}
		if len(in.Witness) > 0 {
			wi.Witness = make(wire.TxWitness, len(in.Witness))
			copy(wi.Witness, in.Witness)
		}
		m.TxIn = append(m.TxIn, wi)
	}
	for i := range t.Out {
		m.TxOut = append(m.TxOut, &wire.TxOut{Value: t.Out[i].Value, PkScript: t.Out[i].PkScript})
	}
	return m
}

func toUtil(t *refacct.Tx) *btcutil.Tx { return btcutil.NewTx(toWire(t)) }

func toWireBlock(b *refacct.Block) *wire.MsgBlock {
	mb := &wire.MsgBlock{}
	mb.Header.Version = b.Header.Version
	mb.Header.PrevBlock = chainhash.Hash(b.Header.Prev)
	mb.Header.MerkleRoot = chainhash.Hash(b.Header.Merkle)
	mb.Header.Timestamp = unixTime(int64(b.Header.Time))
	mb.Header.Bits = b.Header.Bits
	mb.Header.Nonce = b.Header.Nonce
	for _, t := range b.Txs {
		mb.Transactions = append(mb.Transactions, toWire(t))
	}
	return mb
}

// sizes biased to the compact-size boundaries.
func genLen(r *mon.Rand, big bool) int {
	switch r.Intn(40) {
	case 0:
		return 0
	case 1:
		return 252
	case 2:
		return 253
	case 3:
		return 254
	case 4:
		if big {
			return 65535 + r.Intn(3) // 65535, 65536, 65537
		}
		return 255
	case 5:
		return 75 + r.Intn(3)
	default:
		return r.Intn(48)
	}
}

func genVersion(r *mon.Rand) int32 {
	switch r.Intn(8) {
	case 0:
		return 0
	case 1:
		return 1
	case 2, 3:
		return 2
	case 4:
		return 3
	case 5:
		return -1
	case 6:
		return -0x80000000
	default:
		return int32(r.Uint32())
	}
}

// genTx builds a random transaction. witnessMode: 0 never, 1 maybe, 2 at least one input has a witness.
func genTx(r *mon.Rand, witnessMode int, big bool) *refacct.Tx {
	t := &refacct.Tx{Version: genVersion(r), LockTime: r.Uint32()}
	nin := 1 + r.Intn(3)
	nout := 1 + r.Intn(3)
	switch r.Intn(60) {
	case 0:
		nin = 0
	case 1:
		nin = 252 + r.Intn(3)
	case 2:
		nout = 252 + r.Intn(3)
	case 3:
		nout = 0
	}
	wit := witnessMode == 2 || (witnessMode == 1 && r.Bool())
	for i := 0; i < nin; i++ {
		var in refacct.TxIn
		r.Fill(in.PrevHash[:])
		in.PrevIndex = r.Uint32()
		if nin < 10 {
			in.ScriptSig = r.Bytes(genLen(r, big))
		} else {
			in.ScriptSig = r.Bytes(r.Intn(4))
		}
		in.Sequence = r.Uint32()
		if wit && (r.Chance(2, 3) || (witnessMode == 2 && i == 0)) {
			items := 1 + r.Intn(3)
			switch r.Intn(30) {
			case 0:
				items = 252 + r.Intn(3)
			}
			for j := 0; j < items; j++ {
				if items < 10 {
					in.Witness = append(in.Witness, r.Bytes(genLen(r, big)))
				} else {
					in.Witness = append(in.Witness, r.Bytes(r.Intn(3)))
				}
			}
		}
		t.In = append(t.In, in)
	}
	for i := 0; i < nout; i++ {
		var o refacct.TxOut
		o.Value = r.Int63n(21e14)
		if r.Chance(1, 20) {
			o.Value = int64(r.EdgeU64())
		}
		if nout < 10 {
			o.PkScript = r.Bytes(genLen(r, big))
		} else {
			o.PkScript = r.Bytes(r.Intn(4))
		}
		t.Out = append(t.Out, o)
	}
	return t
}

// genSmallTx builds a cheap random transaction (merkle leaves).
func genSmallTx(r *mon.Rand, wit bool) *refacct.Tx {
	t := &refacct.Tx{Version: int32(r.Intn(3)), LockTime: r.Uint32()}
	for i := 1 + r.Intn(2); i > 0; i-- {
		var in refacct.TxIn
		r.Fill(in.PrevHash[:])
		in.PrevIndex = r.Uint32()
		in.ScriptSig = r.Bytes(r.Intn(12))
		in.Sequence = r.Uint32()
		if wit && r.Bool() {
			for j := 1 + r.Intn(2); j > 0; j-- {
				in.Witness = append(in.Witness, r.Bytes(r.Intn(20)))
			}
		}
		t.In = append(t.In, in)
	}
	for i := 1 + r.Intn(2); i > 0; i-- {
		t.Out = append(t.Out, refacct.TxOut{Value: r.Int63n(21e14), PkScript: r.Bytes(r.Intn(26))})
	}
	return t
}

// genCoinbase builds a coinbase with the given outputs / witness.
func genCoinbase(r *mon.Rand, scriptSig []byte, outs []refacct.TxOut, witness [][]byte) *refacct.Tx {
	t := &refacct.Tx{Version: 1 + int32(r.Intn(2))}
	t.In = []refacct.TxIn{{PrevIndex: 0xffffffff, ScriptSig: scriptSig, Sequence: 0xffffffff, Witness: witness}}
	t.Out = outs
	return t
}
