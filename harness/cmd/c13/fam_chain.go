package main

import (
	"crypto/sha256"
	"errors"
	"fmt"
	"math/big"
	"os"
	"time"

	"verif/mon"
	"verif/ref/refacct"

	"github.com/btcsuite/btcd/blockchain"
	"github.com/btcsuite/btcd/btcutil/v2"
	"github.com/btcsuite/btcd/chaincfg/v2"
	"github.com/btcsuite/btcd/chainhash/v2"
	"github.com/btcsuite/btcd/database"
	_ "github.com/btcsuite/btcd/database/ffldb"
	"github.com/btcsuite/btcd/wire/v2"
)

// fakeClock is the harness-owned MedianTimeSource; nothing ever reads the wall clock.
type fakeClock struct{ now int64 }

func (c *fakeClock) AdjustedTime() time.Time         { return time.Unix(c.now, 0) }
func (c *fakeClock) AddTimeSample(string, time.Time) {}
func (c *fakeClock) Offset() time.Duration           { return 0 }

// cloneRegtest deep-copies the regression-test parameters: blockchain.New writes into the deployment
// starters / enders, so two live chains must not share them.
func cloneRegtest(csvActive bool) *chaincfg.Params {
	p := chaincfg.RegressionNetParams
	for i := range p.Deployments {
		d := &p.Deployments[i]
		if s, ok := d.DeploymentStarter.(*chaincfg.MedianTimeDeploymentStarter); ok {
			d.DeploymentStarter = chaincfg.NewMedianTimeDeploymentStarter(s.StartTime())
		}
		if e, ok := d.DeploymentEnder.(*chaincfg.MedianTimeDeploymentEnder); ok {
			d.DeploymentEnder = chaincfg.NewMedianTimeDeploymentEnder(e.EndTime())
		}
	}
	p.Checkpoints = nil
	p.PowLimit = new(big.Int).Set(p.PowLimit)
	g := *p.GenesisBlock
	p.GenesisBlock = &g
	h := *p.GenesisHash
	p.GenesisHash = &h
	p.CoinbaseMaturity = 2
	if !csvActive {
		d := &p.Deployments[chaincfg.DeploymentCSV]
		d.AlwaysActiveHeight = 0
		d.DeploymentStarter = chaincfg.NewMedianTimeDeploymentStarter(time.Unix(4000000000, 0))
		d.DeploymentEnder = chaincfg.NewMedianTimeDeploymentEnder(time.Unix(4100000000, 0))
	}
	return &p
}

// scratchBase prefers a memory-backed directory for the per-case databases (they are deleted when the case
// ends; creating and closing an ffldb on disk costs ~100 ms of fsync).
func scratchBase() string {
	if st, err := os.Stat("/dev/shm"); err == nil && st.IsDir() {
		if f, err := os.CreateTemp("/dev/shm", "verif-c13-probe-"); err == nil {
			f.Close()
			os.Remove(f.Name())
			return "/dev/shm"
		}
	}
	return ""
}

var (
	scriptTrue    = []byte{0x51}
	p2wshTrue     = append([]byte{0x00, 0x20}, sha256Of(scriptTrue)...)
	witnessOfTrue = [][]byte{{0x51}}
)

func sha256Of(b []byte) []byte { h := sha256.Sum256(b); return h[:] }

type coin struct {
	txid     refacct.Hash
	index    uint32
	height   int32
	coinbase bool
	value    int64
	segwit   bool // P2WSH(OP_TRUE), otherwise bare OP_TRUE
}

// chainCase is the harness' own model of one chain lifetime.
type chainCase struct {
	k         *mon.Case
	r         *mon.Rand
	chain     *blockchain.BlockChain
	csvActive bool
	maturity  int32
	times     []int64        // block timestamps by height
	hashes    []refacct.Hash // block hashes by height
	coins     []coin         // unspent outputs created by harness blocks
	extra     uint32
}

func (cc *chainCase) tip() int32 { return int32(len(cc.times) - 1) }

func (cc *chainCase) mtp(h int32) int64 { return refacct.MedianTimePast(cc.times, int(h)) }

// solve grinds the nonce with the reference header hash until it is below the regtest limit (top byte < 0x7f).
func solve(h *refacct.Header) {
	for {
		if hh := h.Hash(); hh[31] < 0x7f {
			return
		}
		h.Nonce++
	}
}

// coinbaseFor builds the coinbase of a block at the given height.
func (cc *chainCase) coinbaseFor(height int32, fees int64, heightPrefix []byte) *refacct.Tx {
	r := cc.r
	cc.extra++
	sig := append(append([]byte{}, heightPrefix...), byte(cc.extra), byte(cc.extra>>8), byte(cc.extra>>16), 0x01)
	nout := 2 + r.Intn(3)
	total := int64(50e8) + fees
	var outs []refacct.TxOut
	for i := 0; i < nout; i++ {
		pk := scriptTrue
		if r.Chance(1, 3) {
			pk = p2wshTrue
		}
		outs = append(outs, refacct.TxOut{Value: total / int64(nout), PkScript: pk})
	}
	return &refacct.Tx{Version: 2, In: []refacct.TxIn{{PrevIndex: 0xffffffff, ScriptSig: sig, Sequence: 0xffffffff}}, Out: outs}
}

// assemble builds and solves a block on the current tip.
func (cc *chainCase) assemble(ts int64, cb *refacct.Tx, txs []*refacct.Tx) *refacct.Block {
	bl := &refacct.Block{Header: refacct.Header{Version: 0x20000000, Prev: cc.hashes[cc.tip()], Time: uint32(ts), Bits: 0x207fffff}}
	bl.Txs = append([]*refacct.Tx{cb}, txs...)
	bl.Header.Merkle = refacct.MerkleRoot(refacct.TxLeaves(bl.Txs, false))
	solve(&bl.Header)
	return bl
}

// addCommitment appends the BIP141 commitment output (and nonce) to the coinbase of a body.
func addCommitment(cb *refacct.Tx, body []*refacct.Tx, nonce []byte) {
	cb.In[0].Witness = [][]byte{nonce}
	script := refacct.WitnessCommitmentScript(append([]*refacct.Tx{cb}, body...), nonce)
	cb.Out = append(cb.Out, refacct.TxOut{Value: 0, PkScript: script})
}

// submit hands the block to btcd. Returns btcd's verdict.
func (cc *chainCase) submit(bl *refacct.Block) (accepted bool, err error) {
	ub := btcutil.NewBlock(toWireBlock(bl))
	isMain, isOrphan, err := cc.chain.ProcessBlock(ub, blockchain.BFNone)
	if err != nil {
		return false, err
	}
	if isOrphan || !isMain {
		return false, fmt.Errorf("harness: block not connected to the main chain (orphan=%v main=%v)", isOrphan, isMain)
	}
	return true, nil
}

// connected updates the model after btcd accepted the block.
func (cc *chainCase) connected(bl *refacct.Block) {
	h := cc.tip() + 1
	cc.times = append(cc.times, int64(bl.Header.Time))
	cc.hashes = append(cc.hashes, bl.Header.Hash())
	spent := map[[36]byte]bool{}
	for ti, t := range bl.Txs {
		if ti > 0 {
			for i := range t.In {
				var key [36]byte
				copy(key[:], t.In[i].PrevHash[:])
				key[32], key[33], key[34], key[35] = byte(t.In[i].PrevIndex), byte(t.In[i].PrevIndex>>8), byte(t.In[i].PrevIndex>>16), byte(t.In[i].PrevIndex>>24)
				spent[key] = true
			}
		}
	}
	kept := cc.coins[:0]
	for _, c := range cc.coins {
		var key [36]byte
		copy(key[:], c.txid[:])
		key[32], key[33], key[34], key[35] = byte(c.index), byte(c.index>>8), byte(c.index>>16), byte(c.index>>24)
		if !spent[key] {
			kept = append(kept, c)
		}
	}
	cc.coins = kept
	for ti, t := range bl.Txs {
		id := t.TxID()
		for i := range t.Out {
			pk := t.Out[i].PkScript
			sw := string(pk) == string(p2wshTrue)
			if !sw && string(pk) != string(scriptTrue) {
				continue
			}
			cc.coins = append(cc.coins, coin{txid: id, index: uint32(i), height: h, coinbase: ti == 0, value: t.Out[i].Value, segwit: sw})
		}
	}
}

// checkTip compares btcd's best state with the model.
func (cc *chainCase) checkTip(where string) bool {
	bs := cc.chain.BestSnapshot()
	if bs.Height != cc.tip() || [32]byte(bs.Hash) != cc.hashes[cc.tip()] {
		cc.k.Failf("chain:tip-diverged", "%s: btcd tip %d %v, model tip %d %x", where, bs.Height, bs.Hash, cc.tip(), cc.hashes[cc.tip()])
		return false
	}
	if bs.MedianTime.Unix() != cc.mtp(cc.tip()) {
		cc.k.Failf("chain:BestSnapshot:median-time", "%s: btcd %d, definition %d at height %d", where, bs.MedianTime.Unix(), cc.mtp(cc.tip()), cc.tip())
	}
	return true
}

// nextTimestamp picks a legal timestamp (> MTP of the tip) with varied spacing, sometimes going backwards.
func (cc *chainCase) nextTimestamp() int64 {
	r := cc.r
	m := cc.mtp(cc.tip())
	last := cc.times[cc.tip()]
	var ts int64
	switch r.Intn(10) {
	case 0:
		ts = m + 1
	case 1:
		ts = m + 1 + int64(r.Intn(30))
	case 2:
		ts = last + int64([]int{511, 512, 513, 1023, 1024, 1025}[r.Intn(6)])
	case 3:
		ts = last + int64(r.Intn(5000))
	case 4:
		ts = last - int64(r.Intn(600)) // may go backwards
	default:
		ts = last + int64(1+r.Intn(900))
	}
	// btcd switches P2SH evaluation on by block timestamp (txscript.Bip16Activation, April 2012) while the
	// regtest genesis block is dated 2011: the harness' blocks live after that date.
	if ts < firstBlockTime {
		ts = firstBlockTime + int64(r.Intn(100000))
	}
	return max64(m+1, ts) // the consensus rule: strictly above the median time past of the tip
}

const firstBlockTime = 1500000000

func max64(a, b int64) int64 {
	if a > b {
		return a
	}
	return b
}

// matureCoin picks an unspent coin that a block at `height` may spend.
func (cc *chainCase) matureCoin(height int32, used map[int]bool) int {
	r := cc.r
	for tries := 0; tries < 40 && len(cc.coins) > 0; tries++ {
		i := r.Intn(len(cc.coins))
		c := cc.coins[i]
		if used[i] || (c.coinbase && height-c.height < cc.maturity) {
			continue
		}
		return i
	}
	return -1
}

// genSequenceFor picks a sequence number near the satisfaction boundary of the coin in a block at blockHeight.
func (cc *chainCase) genSequenceFor(coinHeight, blockHeight int32) uint32 {
	r := cc.r
	var seq uint32
	switch r.Intn(10) {
	case 0:
		return 0xffffffff
	case 1:
		return 0xfffffffe
	case 2:
		seq = uint32(r.Intn(4)) // tiny height lock
	case 3, 4, 5: // height lock near the boundary: satisfied iff coinHeight + v - 1 < blockHeight
		v := int64(blockHeight-coinHeight) + int64(r.Intn(5)) - 2
		if v < 0 {
			v = 0
		}
		seq = uint32(v) & 0xffff
	case 6, 7, 8: // time lock near the boundary: satisfied iff MTP(coinHeight-1) + v*512 - 1 < MTP(blockHeight-1)
		ch := coinHeight - 1
		if ch < 0 {
			ch = 0
		}
		delta := cc.mtp(blockHeight-1) - cc.mtp(ch)
		v := delta/512 + int64(r.Intn(4)) - 1
		if v < 0 {
			v = 0
		}
		seq = (uint32(v) & 0xffff) | refacct.SequenceTypeFlag
	default:
		seq = r.Uint32() & (0xffff | refacct.SequenceTypeFlag)
	}
	if r.Chance(1, 8) {
		seq |= refacct.SequenceDisableFlag
	}
	if r.Chance(1, 3) {
		seq |= r.Uint32() & 0x7fbf0000 // bits without meaning under BIP68 (16..21, 23..30)
	}
	return seq
}

func (cc *chainCase) genVersionChain() int32 {
	switch cc.r.Intn(8) {
	case 0:
		return 1
	case 1:
		return 0
	case 2:
		return -1
	case 3:
		return 3
	case 4:
		return -0x80000000
	default:
		return 2
	}
}

func famChain(c *mon.Ctx) {
	c.Family("chain", tierN(c, 420, 40000), func(k *mon.Case) {
		r := k.Rand
		csvActive := !r.Chance(1, 4)
		params := cloneRegtest(csvActive)
		dir, err := os.MkdirTemp(scratchBase(), "verif-c13-chain-")
		if err != nil {
			k.Count("inconclusive.chain.tmpdir", 1)
			return
		}
		defer os.RemoveAll(dir)
		db, err := database.Create("ffldb", dir, params.Net)
		if err != nil {
			k.Count("inconclusive.chain.dbcreate", 1)
			return
		}
		defer db.Close()
		clock := &fakeClock{now: 1900000000}
		chain, err := blockchain.New(&blockchain.Config{DB: db, ChainParams: params, TimeSource: clock, UtxoCacheMaxSize: 1 << 20})
		if err != nil {
			k.Failf("chain:New", "%v", err)
			return
		}
		cc := &chainCase{k: k, r: r, chain: chain, csvActive: csvActive, maturity: int32(params.CoinbaseMaturity)}
		g := params.GenesisBlock
		cc.times = []int64{g.Header.Timestamp.Unix()}
		cc.hashes = []refacct.Hash{refacct.Hash(*params.GenesisHash)}
		length := 12 + r.Intn(40)
		k.Desc(map[string]any{"csvActive": csvActive, "length": length})

		// ---- base chain
		for int(cc.tip()) < length {
			h := cc.tip() + 1
			ts := cc.nextTimestamp()
			var body []*refacct.Tx
			var fees int64
			used := map[int]bool{}
			needCommit := false
			for n := r.Intn(3); n > 0 && h > 4; n-- {
				ci := cc.matureCoin(h, used)
				if ci < 0 {
					break
				}
				used[ci] = true
				cn := cc.coins[ci]
				in := refacct.TxIn{PrevHash: cn.txid, PrevIndex: cn.index, Sequence: 0xffffffff}
				if cn.segwit {
					in.Witness = witnessOfTrue
					needCommit = true
				}
				fee := int64(r.Intn(10000))
				half := (cn.value - fee) / 2
				pk2 := scriptTrue
				if r.Chance(1, 3) {
					pk2 = p2wshTrue
				}
				body = append(body, &refacct.Tx{Version: 1 + int32(r.Intn(2)), In: []refacct.TxIn{in},
					Out: []refacct.TxOut{{Value: half, PkScript: scriptTrue}, {Value: cn.value - fee - half, PkScript: pk2}}})
				fees += fee
			}
			cb := cc.coinbaseFor(h, fees, refacct.HeightPrefix(int64(h)))
			if needCommit || r.Chance(1, 6) {
				addCommitment(cb, body, r.Bytes(32))
			}
			bl := cc.assemble(ts, cb, body)
			ok, err := cc.submit(bl)
			if !ok {
				k.Failf("chain:valid-block-rejected", "height %d: %v; block %x", h, err, bl.Serialize(true))
				return
			}
			cc.connected(bl)
			if want := bl.Weight(); uint64(want) != chain.BestSnapshot().BlockWeight {
				k.Failf("chain:BestSnapshot:block-weight", "height %d: btcd %d definition %d", h, chain.BestSnapshot().BlockWeight, want)
			}
			k.Count("chain.blocks_connected", 1)
			if len(body) > 0 {
				k.Count("chain.blocks_with_spends", 1)
			}
		}
		if !cc.checkTip("after base chain") {
			return
		}

		// ---- CalcSequenceLock queries at the tip
		nq := 24
		for q := 0; q < nq; q++ {
			cc.querySequenceLock(q)
		}

		// ---- probe blocks: the same rules where they become observable (block acceptance)
		for p := 0; p < 6; p++ {
			if !cc.probeBlock(p) {
				return
			}
		}
		cc.checkTip("end of case")
		k.Eval(mon.Sig("chain", csvActive, length, cc.hashes[cc.tip()][:6]), true)
	})
	c.Require("chain.blocks_connected", 3000)
	c.Require("seqlock.calc.eval", 3000)
	c.Require("seqlock.calc.height_lock", 500)
	c.Require("seqlock.calc.time_lock", 500)
	c.Require("seqlock.calc.mempool_input", 300)
	c.Require("seqlock.calc.csv_inactive_block_mode", 50)
	c.Require("chain.probe.accepted", 200)
	c.Require("chain.probe.rejected.seqlock", 30)
	c.Require("chain.probe.rejected.finality", 30)
}

// querySequenceLock builds a transaction over confirmed and unconfirmed coins and compares
// BlockChain.CalcSequenceLock (and SequenceLockActive on its result) with the BIP68 definition.
func (cc *chainCase) querySequenceLock(q int) {
	r, k := cc.r, cc.k
	tipH := cc.tip()
	nextH := tipH + 1
	nin := 1 + r.Intn(4)
	t := &refacct.Tx{Version: cc.genVersionChain(), LockTime: 0}
	prevHeights := make([]int32, nin)
	useFetch := r.Bool()
	manual := blockchain.NewUtxoViewpoint()
	var parents []*refacct.Tx
	usedCoins := map[int]bool{}
	hasMempool := false
	type inDesc struct {
		Height int32  `json:"height"`
		Seq    uint32 `json:"seq"`
	}
	var descs []inDesc
	for i := 0; i < nin; i++ {
		var in refacct.TxIn
		if r.Chance(1, 5) || len(cc.coins) == 0 {
			// unconfirmed parent
			par := &refacct.Tx{Version: 2, In: []refacct.TxIn{{PrevIndex: r.Uint32(), Sequence: 0xffffffff}},
				Out: []refacct.TxOut{{Value: 1000, PkScript: scriptTrue}, {Value: 2000, PkScript: scriptTrue}}}
			r.Fill(par.In[0].PrevHash[:])
			parents = append(parents, par)
			in.PrevHash, in.PrevIndex = par.TxID(), uint32(r.Intn(2))
			prevHeights[i] = nextH
			hasMempool = true
			manual.AddTxOuts(toUtil(par), 0x7fffffff)
			in.Sequence = cc.genSequenceFor(nextH, nextH)
		} else {
			ci := r.Intn(len(cc.coins))
			for usedCoins[ci] && len(usedCoins) < len(cc.coins) {
				ci = r.Intn(len(cc.coins))
			}
			usedCoins[ci] = true
			cn := cc.coins[ci]
			in.PrevHash, in.PrevIndex = cn.txid, cn.index
			prevHeights[i] = cn.height
			pk := scriptTrue
			if cn.segwit {
				pk = p2wshTrue
			}
			op := wire.OutPoint{Hash: chainhash.Hash(cn.txid), Index: cn.index}
			manual.Entries()[op] = blockchain.NewUtxoEntry(&wire.TxOut{Value: cn.value, PkScript: pk}, cn.height, cn.coinbase)
			in.Sequence = cc.genSequenceFor(cn.height, nextH)
		}
		t.In = append(t.In, in)
		descs = append(descs, inDesc{prevHeights[i], in.Sequence})
	}
	t.Out = []refacct.TxOut{{Value: 1, PkScript: scriptTrue}}
	mempool := r.Chance(2, 3)
	ut := toUtil(t)
	view := manual
	if useFetch {
		v, err := cc.chain.FetchUtxoView(ut)
		if err != nil {
			k.Failf("chain:FetchUtxoView", "%v", err)
			return
		}
		for _, par := range parents {
			v.AddTxOuts(toUtil(par), 0x7fffffff)
		}
		view = v
		// the heights btcd recorded for the coins are the heights of the blocks that created them
		for i := range t.In {
			if prevHeights[i] == nextH && hasMempool {
				continue
			}
			e := view.LookupEntry(wire.OutPoint{Hash: chainhash.Hash(t.In[i].PrevHash), Index: t.In[i].PrevIndex})
			if e == nil || e.IsSpent() {
				k.Failf("chain:utxo-missing", "coin created at height %d not in btcd's utxo set", prevHeights[i])
				return
			}
			if e.BlockHeight() != prevHeights[i] {
				k.Failf("chain:utxo-height", "coin created at height %d recorded at %d", prevHeights[i], e.BlockHeight())
			}
		}
	}
	k.Desc(map[string]any{"csvActive": cc.csvActive, "tip": tipH, "query": q, "version": t.Version, "inputs": descs, "mempool": mempool,
		"viaFetchUtxoView": useFetch, "times": cc.times})

	enforce := mempool || cc.csvActive
	want := refacct.CalculateSequenceLocks(t, enforce, prevHeights, cc.mtp)
	got, err := cc.chain.CalcSequenceLock(ut, view, mempool)
	if err != nil {
		k.Failf("seqlock:CalcSequenceLock:error", "unexpected error %v", err)
		return
	}
	if got.BlockHeight != want.MinHeight || got.Seconds != want.MinTime {
		class := "value"
		switch {
		case !enforce:
			class = "not-enforced-but-computed"
		case want.MinHeight == -1 && want.MinTime == -1:
			class = "no-lock-expected"
		case got.BlockHeight != want.MinHeight && got.Seconds == want.MinTime:
			class = "height"
		case got.BlockHeight == want.MinHeight:
			class = "seconds"
		}
		k.Failf("seqlock:CalcSequenceLock:"+class, "version %d inputs %+v mempool %v csv %v tip %d: got (h=%d,t=%d) want (h=%d,t=%d)",
			t.Version, descs, mempool, cc.csvActive, tipH, got.BlockHeight, got.Seconds, want.MinHeight, want.MinTime)
	}
	wantAct := refacct.EvaluateSequenceLocks(nextH, cc.mtp(tipH), want)
	gotAct := blockchain.SequenceLockActive(got, nextH, unixTime(cc.mtp(tipH)))
	if gotAct != wantAct && got.BlockHeight == want.MinHeight && got.Seconds == want.MinTime {
		k.Failf("seqlock:SequenceLockActive", "lock %+v height %d mtp %d: got %v want %v", want, nextH, cc.mtp(tipH), gotAct, wantAct)
	}
	k.Count("seqlock.calc.eval", 1)
	if want.MinHeight >= 0 {
		k.Count("seqlock.calc.height_lock", 1)
	}
	if want.MinTime >= 0 {
		k.Count("seqlock.calc.time_lock", 1)
	}
	if want.MinHeight < 0 && want.MinTime < 0 {
		k.Count("seqlock.calc.no_lock", 1)
	}
	if hasMempool {
		k.Count("seqlock.calc.mempool_input", 1)
	}
	if uint32(t.Version) < 2 {
		k.Count("seqlock.calc.version_below_2", 1)
	}
	if t.Version < 0 {
		k.Count("seqlock.calc.version_negative", 1)
	}
	if !cc.csvActive && !mempool {
		k.Count("seqlock.calc.csv_inactive_block_mode", 1)
	}
	if wantAct {
		k.Count("seqlock.calc.active", 1)
	} else {
		k.Count("seqlock.calc.inactive", 1)
	}
	k.Eval(mon.Sig("seqlock.calc", t.Version, descs, mempool, cc.csvActive, tipH-prevHeights[0], want), true)
	k.Sample(map[string]any{"family": "chain/CalcSequenceLock", "version": t.Version, "inputs": descs, "mempool": mempool, "tip": tipH,
		"lock_height": want.MinHeight, "lock_seconds": want.MinTime})
}

// probeBlock submits one block on the tip that is, by the definitions, either valid or invalid for exactly
// one reason, and compares btcd's verdict.
func (cc *chainCase) probeBlock(p int) bool {
	r, k := cc.r, cc.k
	h := cc.tip() + 1
	ts := cc.nextTimestamp()
	prevMTP := cc.mtp(cc.tip())
	kind := r.PickW([]int{10, 3, 2, 2})
	reason := ""
	var wantCodes []blockchain.ErrorCode

	var body []*refacct.Tx
	var fees int64
	needCommit := false
	if kind == 0 || kind == 3 || r.Bool() {
		// a spend with locks near their boundaries
		used := map[int]bool{}
		nin := 1 + r.Intn(2)
		t := &refacct.Tx{Version: cc.genVersionChain()}
		var heights []int32
		var total int64
		for i := 0; i < nin; i++ {
			ci := cc.matureCoin(h, used)
			if ci < 0 {
				break
			}
			used[ci] = true
			cn := cc.coins[ci]
			in := refacct.TxIn{PrevHash: cn.txid, PrevIndex: cn.index, Sequence: 0xffffffff}
			if kind == 0 {
				in.Sequence = cc.genSequenceFor(cn.height, h)
			}
			if cn.segwit {
				in.Witness = witnessOfTrue
				needCommit = true
			}
			t.In = append(t.In, in)
			heights = append(heights, cn.height)
			total += cn.value
		}
		if len(t.In) > 0 {
			if kind == 0 {
				switch r.Intn(6) {
				case 0: // height lock time near the block height
					t.LockTime = uint32(int64(h) + int64(r.Intn(3)) - 1)
				case 1: // time lock near MTP / block time
					base := prevMTP
					if r.Bool() {
						base = ts
					}
					t.LockTime = uint32(base + int64(r.Intn(3)) - 1)
				}
			}
			fee := int64(r.Intn(5000))
			pk := scriptTrue
			if r.Chance(1, 3) {
				pk = p2wshTrue
			}
			t.Out = []refacct.TxOut{{Value: total - fee, PkScript: pk}}
			fees += fee
			body = append(body, t)
			cutoff := ts
			if cc.csvActive {
				cutoff = prevMTP // BIP113
			}
			if !refacct.IsFinalTx(t, h, cutoff) {
				reason = "finality"
				wantCodes = []blockchain.ErrorCode{blockchain.ErrUnfinalizedTx}
			} else if cc.csvActive {
				l := refacct.CalculateSequenceLocks(t, true, heights, cc.mtp)
				if !refacct.EvaluateSequenceLocks(h, prevMTP, l) {
					reason = "seqlock"
					wantCodes = []blockchain.ErrorCode{blockchain.ErrUnfinalizedTx}
				}
			}
		}
	}
	prefix := refacct.HeightPrefix(int64(h))
	if kind == 2 {
		// BIP34 deviations
		switch r.Intn(4) {
		case 0:
			prefix = refacct.HeightPrefix(int64(h) + 1)
		case 1:
			prefix = refacct.HeightPrefix(int64(h) - 1)
		case 2: // non-minimal
			e := refacct.EncodeScriptNum(int64(h))
			prefix = append([]byte{byte(len(e) + 1)}, append(e, 0x00)...)
		default: // data-push form of a small height, fixed 3-byte form otherwise
			if h <= 16 {
				prefix = []byte{0x01, byte(h)}
			} else {
				prefix = []byte{0x03, byte(h), byte(h >> 8), byte(h >> 16)}
			}
		}
	}
	cb := cc.coinbaseFor(h, fees, prefix)
	if reason == "" && !refacct.CheckHeight(cb.In[0].ScriptSig, int64(h)) {
		reason = "bip34"
		wantCodes = []blockchain.ErrorCode{blockchain.ErrBadCoinbaseHeight, blockchain.ErrMissingCoinbaseHeight}
	}
	commitKind := "none"
	if needCommit || r.Chance(1, 4) {
		nonce := r.Bytes(32)
		addCommitment(cb, body, nonce)
		commitKind = "good"
		if kind == 3 {
			switch r.Intn(5) {
			case 0:
				commitKind = "bit-flipped"
				s := cb.Out[len(cb.Out)-1].PkScript
				s[6+r.Intn(32)] ^= 1 << uint(r.Intn(8))
			case 1:
				commitKind = "nonce-31"
				cb.In[0].Witness = [][]byte{nonce[:31]}
			case 2:
				commitKind = "dropped"
				cb.Out = cb.Out[:len(cb.Out)-1] // the coinbase keeps its nonce: witness data without a commitment
			case 3:
				commitKind = "shadowed-by-later-wrong-output"
				cb.Out = append(cb.Out, refacct.TxOut{PkScript: append(append([]byte{}, commitMagic...), r.Bytes(32)...)})
			default:
				commitKind = "wrong-then-good"
				good := cb.Out[len(cb.Out)-1]
				cb.Out[len(cb.Out)-1] = refacct.TxOut{PkScript: append(append([]byte{}, commitMagic...), r.Bytes(32)...)}
				cb.Out = append(cb.Out, good)
			}
		}
	}
	bl := cc.assemble(ts, cb, body)
	if reason == "" {
		if v := refacct.CheckWitnessCommitment(bl); v != refacct.WCOk {
			reason = "commitment:" + v
			wantCodes = []blockchain.ErrorCode{blockchain.ErrWitnessCommitmentMismatch, blockchain.ErrUnexpectedWitness, blockchain.ErrInvalidWitnessCommitment}
		}
	}
	if kind == 1 && reason == "" {
		// merkle root deviations
		switch r.Intn(3) {
		case 0:
			bl.Header.Merkle[r.Intn(32)] ^= 1 << uint(r.Intn(8))
		case 1:
			bl.Header.Merkle = refacct.MerkleRoot(refacct.TxLeaves(bl.Txs, true)) // witness root instead of txid root
		default:
			bl.Header.Merkle = bl.Txs[len(bl.Txs)-1].TxID()
		}
		if bl.Header.Merkle != refacct.MerkleRoot(refacct.TxLeaves(bl.Txs, false)) {
			reason = "merkle"
			wantCodes = []blockchain.ErrorCode{blockchain.ErrBadMerkleRoot}
		}
		bl.Header.Nonce = 0
		solve(&bl.Header)
	}
	desc := map[string]any{"csvActive": cc.csvActive, "probe": p, "height": h, "kind": kind, "expected_invalid_for": reason, "commitment": commitKind,
		"block": fmt.Sprintf("%x", bl.Serialize(true)), "times": cc.times}
	k.Desc(desc)
	ok, err := cc.submit(bl)
	switch {
	case ok && reason != "":
		k.Failf("chain:block-accepted-but-invalid:"+reason, "height %d block %x", h, bl.Serialize(true))
		cc.connected(bl) // follow btcd so that the remaining steps stay meaningful
	case !ok && reason == "":
		k.Failf("chain:block-rejected-but-valid", "height %d: %v; block %x", h, err, bl.Serialize(true))
	case ok:
		cc.connected(bl)
		k.Count("chain.probe.accepted", 1)
		k.Count("chain.blocks_connected", 1)
	default:
		var re blockchain.RuleError
		matched := false
		if errors.As(err, &re) {
			for _, cde := range wantCodes {
				if re.ErrorCode == cde {
					matched = true
				}
			}
		}
		if !matched {
			// btcd and the definition agree on "invalid" but for different reasons: the probe was not clean
			k.Failf("calibration:chain-probe-rejected-for-another-reason", "expected %s, btcd says %v", reason, err)
		}
		rs := reason
		if len(rs) > 10 && rs[:10] == "commitment" {
			rs = "commitment"
		}
		k.Count("chain.probe.rejected."+rs, 1)
	}
	k.Count("chain.probe.commitment."+commitKind, 1)
	return cc.checkTip(fmt.Sprintf("after probe %d", p))
}
