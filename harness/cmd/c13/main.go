// Worker for C13: consensus accounting primitives equal their definitions for every input.
package main

import (
	"crypto/sha256"
	"encoding/hex"
	"fmt"

	"verif/mon"

	"github.com/btcsuite/btcd/blockchain"
	"github.com/btcsuite/btcd/btcutil/v2"
	"github.com/btcsuite/btcd/chainhash/v2"
	"github.com/btcsuite/btcd/wire/v2"
)

func dsha(b []byte) [32]byte {
	a := sha256.Sum256(b)
	return sha256.Sum256(a[:])
}

// refMerkle is the definitional merkle root: pair up, duplicating the last on odd levels.
func refMerkle(leaves [][32]byte) (root [32]byte, levels [][][32]byte) {
	if len(leaves) == 0 {
		return root, nil
	}
	cur := leaves
	levels = append(levels, cur)
	for len(cur) > 1 {
		var next [][32]byte
		for i := 0; i < len(cur); i += 2 {
			l, r := cur[i], cur[i]
			if i+1 < len(cur) {
				r = cur[i+1]
			}
			next = append(next, dsha(append(append([]byte{}, l[:]...), r[:]...)))
		}
		cur = next
		levels = append(levels, cur)
	}
	return cur[0], levels
}

func randTx(r *mon.Rand) *wire.MsgTx {
	tx := wire.NewMsgTx(int32(r.Intn(3)))
	nin := 1 + r.Intn(3)
	wit := r.Chance(1, 2)
	for i := 0; i < nin; i++ {
		var h chainhash.Hash
		r.Fill(h[:])
		in := wire.NewTxIn(wire.NewOutPoint(&h, r.Uint32()), r.Bytes(r.Intn(20)), nil)
		if wit {
			for j := r.Intn(3); j > 0; j-- {
				in.Witness = append(in.Witness, r.Bytes(r.Intn(40)))
			}
		}
		tx.AddTxIn(in)
	}
	for i := 1 + r.Intn(3); i > 0; i-- {
		tx.AddTxOut(wire.NewTxOut(r.Int63n(21e14), r.Bytes(r.Intn(30))))
	}
	tx.LockTime = r.Uint32()
	return tx
}

func main() {
	mon.Main("C13", func(c *mon.Ctx) {
		c.Rule("merkle: random tx lists of 0..N entries (odd counts, duplicated tails), txid and wtxid forms; " +
			"distinct = (family, leaf count, witness flag, duplicated-tail flag, root)")
		c.Family("merkle", c.N(3000, 300000), func(k *mon.Case) {
			r := k.Rand
			n := 0
			switch r.Intn(6) {
			case 0:
				n = r.Intn(4)
			case 1:
				n = 1 << uint(r.Intn(8))
				n += r.Intn(3) - 1
			default:
				n = r.Intn(70)
			}
			if n < 0 {
				n = 0
			}
			witness := r.Bool()
			var txs []*btcutil.Tx
			for i := 0; i < n; i++ {
				txs = append(txs, btcutil.NewTx(randTx(r)))
			}
			dupTail := false
			if n >= 2 && r.Chance(1, 5) {
				txs = append(txs, txs[len(txs)-1])
				dupTail = true
				n++
			}
			k.Desc(map[string]any{"n": n, "witness": witness, "dupTail": dupTail})
			leaves := make([][32]byte, n)
			for i, t := range txs {
				if witness {
					if i == 0 {
						leaves[i] = [32]byte{}
					} else {
						leaves[i] = [32]byte(t.MsgTx().WitnessHash())
					}
				} else {
					leaves[i] = [32]byte(t.MsgTx().TxHash())
				}
			}
			want, levels := refMerkle(leaves)
			got := blockchain.CalcMerkleRoot(txs, witness)
			if [32]byte(got) != want {
				k.Failf(fmt.Sprintf("merkle:CalcMerkleRoot:n=%d", min(n, 3)), "CalcMerkleRoot n=%d witness=%v got %x want %x", n, witness, got[:], want[:])
			}
			k.Count("merkle.calcroot", 1)
			store := blockchain.BuildMerkleTreeStore(txs, witness)
			if n == 0 {
				k.Eval(mon.Sig("merkle", 0, witness), true)
				return
			}
			last := store[len(store)-1]
			if last == nil || [32]byte(*last) != want {
				k.Failf("merkle:BuildMerkleTreeStore:root", "store root mismatch n=%d witness=%v", n, witness)
			}
			// every interior node of the store equals the reference level node (store pads each level to a power of two)
			np := 1
			for np < n {
				np <<= 1
			}
			off := 0
			width := np
			for lv := 0; lv < len(levels); lv++ {
				for i := 0; i < width; i++ {
					s := store[off+i]
					if i < len(levels[lv]) {
						if s == nil || [32]byte(*s) != levels[lv][i] {
							k.Failf("merkle:BuildMerkleTreeStore:interior", "store level %d index %d mismatch n=%d", lv, i, n)
						}
					} else if s != nil {
						k.Failf("merkle:BuildMerkleTreeStore:padding", "store level %d index %d should be nil n=%d", lv, i, n)
					}
				}
				off += width
				width >>= 1
			}
			k.Count("merkle.store", 1)
			k.Eval(mon.Sig("merkle", n, witness, dupTail, hex.EncodeToString(want[:4])), n > 0)
			k.Sample(map[string]any{"family": "merkle", "n": n, "witness": witness, "root": hex.EncodeToString(want[:])})
		})
		c.Require("merkle.calcroot", 100)
	})
}
