// Worker for C13: consensus accounting primitives equal their definitions for every input.
//
// Every family generates inputs in the harness' own transaction model (verif/ref/refacct), converts them
// field by field into btcd's types, calls the real btcd function and compares with the definitional
// reference written from the BIPs / Bitcoin Core.
package main

import (
	"fmt"
	"os"
	"strconv"
	"time"

	"verif/mon"
)

// tierN is c.N with an optional operator-chosen reduction of the thorough tier (C13_THOROUGH_PCT=1..100, for a
// busy machine); the reduction is written into the evidence notes. The quick tier is never scaled.
func tierN(c *mon.Ctx, quick, thorough int64) int64 {
	if c.Thorough() {
		if pct, err := strconv.Atoi(os.Getenv("C13_THOROUGH_PCT")); err == nil && pct >= 1 && pct < 100 {
			return max(quick, thorough*int64(pct)/100)
		}
	}
	return c.N(quick, thorough)
}

// timed prints per-family wall time to stderr when C13_TIMING is set (diagnostics for sizing the tiers by
// hand; no verdict and no case count depends on it).
func timed(name string, f func()) {
	if os.Getenv("C13_TIMING") == "" {
		f()
		return
	}
	t0 := time.Now()
	f()
	fmt.Fprintf(os.Stderr, "timing %-20s %8.2fs\n", name, time.Since(t0).Seconds())
}

func main() {
	mon.Main("C13", func(c *mon.Ctx) {
		c.Rule("calibrate.*: reference models vs main-chain blocks, published vectors and the full-block suite's sigop-limit verdicts. " +
			"merkle: tx lists of 0..N entries (all n in 0..299 exhaustively, powers of two +-1, up to 1100/9000), txid and wtxid forms, duplicated tails; " +
			"distinct = (n, form, duplicated count, root). commitment: coinbase layouts (0..3 commitment-like outputs of 11 kinds at random positions, 8 nonce shapes, " +
			"witness/no-witness bodies, post-commitment mutation); distinct = (candidate kinds in order, nonce shape, body, verdict). weight: random txs/blocks at the " +
			"compact-size boundaries; distinct = (shape, weight). sigops: txs of 1-4 spends of 6 kinds (legacy, P2SH, near-P2SH, native / nested witness, mixed) over a " +
			"syntactic script generator (pushes 0x01-0x4e carrying sigop bytes, multisig after 12 kinds of predecessor, 10 malformed tails) + exhaustive short scripts; " +
			"distinct = (spend kinds, cost, tx bytes). bip34: 16 scriptSig shapes x boundary heights; distinct = (shape, prefix, height, verdicts). finality / seqlock.pure: " +
			"boundary-biased (lock time, sequences, height, time); distinct = the tuple. chain: one real regtest chain per case (ffldb + blockchain.New, 12-51 blocks, varied " +
			"timestamps, CSV active or not), 24 CalcSequenceLock queries (confirmed and unconfirmed inputs, FetchUtxoView or hand-built views) and 6 probe blocks whose " +
			"validity hinges on one definition; distinct = (version, input ages and sequences, mode, expected lock).")
		timed("calibrate", func() { calibrate(c) })
		timed("famMerkle", func() { famMerkle(c) })
		timed("famCommit", func() { famCommit(c) })
		timed("famWeight", func() { famWeight(c) })
		timed("famSigops", func() { famSigops(c) })
		timed("famSigopsExhaustive", func() { famSigopsExhaustive(c) })
		timed("famHeight", func() { famHeight(c) })
		timed("famLocks", func() { famLocks(c) })
		timed("famChain", func() { famChain(c) })
		if c.Thorough() && os.Getenv("C13_THOROUGH_PCT") != "" {
			c.Note("thorough tier case counts scaled to " + os.Getenv("C13_THOROUGH_PCT") + "% by C13_THOROUGH_PCT")
		}
		c.Note("GetSigOpCost with a missing input (outside the domain of Core's GetTransactionSigOpCost, which asserts): see counters sigops.missing_input.*")
	})
}
