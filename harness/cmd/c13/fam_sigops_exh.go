package main

import (
	"verif/mon"
	"verif/ref/refacct"

	"github.com/btcsuite/btcd/txscript/v2"
	"github.com/btcsuite/btcd/wire/v2"
)

// The byte alphabet of the exhaustive sweep: push framing opcodes, small ints, sigops and neighbours.
var exhAlphabet = []byte{0x00, 0x01, 0x02, 0x4b, 0x4c, 0x4d, 0x4e, 0x4f, 0x50, 0x51, 0x60, 0x61, 0xac, 0xad, 0xae, 0xaf, 0xff}

const exhChunk = 2048

// exhScript maps an enumeration index to a string over exhAlphabet (all lengths 0..maxLen, shortest first).
func exhScript(idx int64, maxLen int) []byte {
	n := int64(len(exhAlphabet))
	count := int64(1)
	for l := 0; l <= maxLen; l++ {
		if idx < count {
			s := make([]byte, l)
			for i := l - 1; i >= 0; i-- {
				s[i] = exhAlphabet[idx%n]
				idx /= n
			}
			return s
		}
		idx -= count
		count *= n
	}
	return nil
}

func exhTotal(maxLen int) int64 {
	n := int64(len(exhAlphabet))
	total, count := int64(0), int64(1)
	for l := 0; l <= maxLen; l++ {
		total += count
		count *= n
	}
	return total
}

// famSigopsExhaustive enumerates every script of length <= L over a 17-byte alphabet and counts it through
// every route: legacy, accurate (bare), as P2SH redeem script, as P2WSH witness script (native and nested).
func famSigopsExhaustive(c *mon.Ctx) {
	maxLen := int(c.N(4, 5))
	total := exhTotal(maxLen)
	chunks := (total + exhChunk - 1) / exhChunk
	c.Exhaustive("sigop counters over all scripts of length <= 4 (quick) / 5 (thorough) over the alphabet 00 01 02 4b 4c 4d 4e 4f 50 51 60 61 ac ad ae af ff")
	p2sh := append(append([]byte{0xa9, 0x14}, make([]byte, 20)...), 0x87)
	p2wsh := append([]byte{0x00, 0x20}, make([]byte, 32)...)
	nested := push(p2wsh, 0)
	c.Family("sigops.exhaustive", chunks, func(k *mon.Case) {
		lo := k.Index * exhChunk
		hi := lo + exhChunk
		if hi > total {
			hi = total
		}
		k.Desc(map[string]any{"from": lo, "to": hi, "maxLen": maxLen})
		for idx := lo; idx < hi; idx++ {
			s := exhScript(idx, maxLen)
			if got, want := txscript.GetSigOpCount(s), refacct.SigOpCount(s, false); got != want {
				k.Failf("sigops:GetSigOpCount", "script %x: got %d want %d", s, got, want)
			}
			if got, want := txscript.GetPreciseSigOpCount(nil, s, true), refacct.P2SHSigOpCount(s, nil); got != want {
				k.Failf("sigops:GetPreciseSigOpCount:bare", "script %x: got %d want %d", s, got, want)
			}
			sig := push(s, -1)
			if got, want := txscript.GetPreciseSigOpCount(sig, p2sh, true), refacct.P2SHSigOpCount(p2sh, sig); got != want {
				k.Failf("sigops:GetPreciseSigOpCount:p2sh", "redeem script %x: got %d want %d", s, got, want)
			}
			// the enumerated string itself as a scriptSig of a P2SH spend (push-only test, last push extraction)
			if got, want := txscript.GetPreciseSigOpCount(s, p2sh, true), refacct.P2SHSigOpCount(p2sh, s); got != want {
				k.Failf("sigops:GetPreciseSigOpCount:p2sh-scriptsig", "scriptSig %x: got %d want %d", s, got, want)
			}
			w := wire.TxWitness{s}
			if got, want := txscript.GetWitnessSigOpCount(nil, p2wsh, w), refacct.CountWitnessSigOps(nil, p2wsh, [][]byte{s}); got != want {
				k.Failf("sigops:GetWitnessSigOpCount:witness-native", "witness script %x: got %d want %d", s, got, want)
			}
			if got, want := txscript.GetWitnessSigOpCount(nested, p2sh, w), refacct.CountWitnessSigOps(nested, p2sh, [][]byte{s}); got != want {
				k.Failf("sigops:GetWitnessSigOpCount:witness-nested", "witness script %x: got %d want %d", s, got, want)
			}
			// the enumerated string as scriptSig of a nested spend / as a scriptPubKey
			if got, want := txscript.GetWitnessSigOpCount(s, p2sh, w), refacct.CountWitnessSigOps(s, p2sh, [][]byte{s}); got != want {
				k.Failf("sigops:GetWitnessSigOpCount:scriptsig", "scriptSig %x: got %d want %d", s, got, want)
			}
			if got, want := txscript.GetWitnessSigOpCount(nil, s, w), refacct.CountWitnessSigOps(nil, s, [][]byte{s}); got != want {
				k.Failf("sigops:GetWitnessSigOpCount:pkscript", "pkScript %x: got %d want %d", s, got, want)
			}
		}
		k.Count("sigops.exhaustive.scripts", hi-lo)
		k.C.EvalN((hi - lo) * 8)
	})
	c.Require("sigops.exhaustive.scripts", total)
}
