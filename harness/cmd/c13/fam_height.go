package main

import (
	"encoding/hex"
	"fmt"

	"verif/mon"
	"verif/ref/refacct"

	"github.com/btcsuite/btcd/blockchain"
)

func genHeight(r *mon.Rand) int32 {
	switch r.Intn(10) {
	case 0:
		return int32(r.Intn(18)) // 0..17: OP_0 / OP_1..OP_16 / first data push
	case 1:
		return []int32{127, 128, 129, 255, 256, 32767, 32768, 32769, 65535, 65536, 8388607, 8388608, 8388609,
			0x7fffffff, 0x7ffffffe, 0x00800000, 0x00008000, 0x01000000}[r.Intn(18)]
	case 2:
		return int32(r.Intn(1 << 16))
	case 3:
		return int32(r.Uint32() >> 1)
	case 4:
		return int32(1) << uint(r.Intn(31))
	default:
		return int32(r.Intn(1000000))
	}
}

// famHeight: BIP34 coinbase height prefix. The rule (Core): scriptSig must begin with `CScript() << height`.
func famHeight(c *mon.Ctx) {
	c.Family("bip34", tierN(c, 4000, 400000), func(k *mon.Case) {
		k.Desc(map[string]any{"batch": heightBatch})
		for sub := 0; sub < heightBatch; sub++ {
			heightOne(k)
		}
	})
	c.Require("bip34.check.ok", 5000)
	c.Require("bip34.extract.ok.le16", 500)
	c.Require("bip34.extract.err", 3000)
}

const heightBatch = 16

func heightOne(k *mon.Case) {
	{
		r := k.Rand
		var desc any
		fail := func(key, f string, a ...any) { k.Violation(key, fmt.Sprintf(f, a...), desc) }
		h := genHeight(r)
		want := h
		var sig []byte
		shape := r.Intn(16)
		name := ""
		switch shape {
		case 0, 1, 2, 3:
			name = "canonical"
			sig = refacct.HeightPrefix(int64(h))
		case 4:
			name = "canonical-for-other-height"
			other := genHeight(r)
			sig = refacct.HeightPrefix(int64(other))
		case 5: // data push of a small number where Core requires the opcode form
			name = "small-as-data-push"
			v := r.Intn(17)
			h, want = int32(v), int32(v)
			sig = []byte{0x01, byte(v)}
		case 6: // non-minimal: padded with a zero byte
			name = "padded-zero"
			p := refacct.HeightPrefix(int64(h))
			if len(p) >= 2 {
				sig = append([]byte{p[0] + 1}, append(append([]byte{}, p[1:]...), 0x00)...)
			} else {
				sig = []byte{0x01, 0x00}
			}
		case 7: // fixed-width little endian (3 or 4 bytes), minimal only for large heights
			name = "fixed-width"
			w := 3 + r.Intn(2)
			sig = []byte{byte(w), byte(h), byte(h >> 8), byte(h >> 16)}
			if w == 4 {
				sig = append(sig, byte(h>>24))
			}
		case 8: // PUSHDATA1 form
			name = "pushdata1"
			p := refacct.EncodeScriptNum(int64(h))
			sig = append([]byte{0x4c, byte(len(p))}, p...)
		case 9: // truncated
			name = "truncated"
			p := refacct.HeightPrefix(int64(h))
			sig = p[:r.Intn(len(p))]
		case 10: // negative number encodings
			name = "negative"
			p := refacct.EncodeScriptNum(-int64(h))
			sig = append([]byte{byte(len(p))}, p...)
		case 11:
			name = "random"
			sig = r.Bytes(r.Intn(8))
		case 12: // length byte 5..8 followed by bytes
			name = "long-push"
			n := 5 + r.Intn(4)
			sig = append([]byte{byte(n)}, r.Bytes(n)...)
			if r.Bool() {
				for i := 5; i < len(sig); i++ {
					sig[i] = 0
				}
			}
		case 13:
			name = "empty"
			sig = nil
		case 14: // opcode forms
			name = "opcode"
			sig = []byte{[]byte{0x00, 0x4f, 0x50, 0x51, 0x52, 0x5f, 0x60, 0x61}[r.Intn(8)]}
		default: // high bit handling: 0x80 in top byte needs a 0x00 pad
			name = "sign-bit"
			v := []int32{128, 255, 32768, 65535, 8388608, 16777215}[r.Intn(6)] | int32(r.Intn(128))
			h, want = v, v
			if r.Bool() {
				sig = refacct.HeightPrefix(int64(v))
			} else { // missing pad: encodes a negative number
				p := refacct.EncodeScriptNum(int64(v))
				p = p[:len(p)-1]
				sig = append([]byte{byte(len(p))}, p...)
			}
		}
		// coinbase scripts carry extra data after the height
		if shape != 9 && shape != 13 && r.Chance(2, 3) {
			sig = append(sig, r.Bytes(r.Intn(12))...)
		}
		if r.Chance(1, 6) {
			want = genHeight(r)
		}
		cb := genCoinbase(r, sig, []refacct.TxOut{{Value: 50e8, PkScript: []byte{0x51}}}, nil)
		desc = map[string]any{"scriptSig": hex.EncodeToString(sig), "wantHeight": want, "shape": name}
		ucb := toUtil(cb)

		refOK := refacct.CheckHeight(sig, int64(want))
		err := blockchain.CheckSerializedHeight(ucb, want)
		if (err == nil) != refOK {
			if err == nil {
				fail("bip34:CheckSerializedHeight:accepts-wrong-prefix", "scriptSig %x accepted for height %d; required prefix %x", sig, want, refacct.HeightPrefix(int64(want)))
			} else {
				fail("bip34:CheckSerializedHeight:rejects-required-prefix", "scriptSig %x rejected for height %d (%v); it starts with the required prefix %x", sig, want, err, refacct.HeightPrefix(int64(want)))
			}
		}
		refH, refErr := refacct.ExtractHeight(sig)
		gotH, gotErr := blockchain.ExtractCoinbaseHeight(ucb)
		switch {
		case gotErr == nil && gotH < 0 && refErr != nil:
			// Not a BIP34 height at all (block heights are non-negative): the script encodes a negative number
			// and btcd hands it back instead of an error. No block height is confused with it, so this is
			// recorded, not judged.
			k.Count("bip34.extract.negative_value_returned_without_error", 1)
		case (gotErr == nil) != (refErr == nil):
			fail("bip34:ExtractCoinbaseHeight:verdict", "scriptSig %x: btcd (%d, %v) reference (%d, %v)", sig, gotH, gotErr, refH, refErr)
		case gotErr == nil && gotH != refH:
			fail("bip34:ExtractCoinbaseHeight:value", "scriptSig %x: got %d want %d", sig, gotH, refH)
		}
		k.Count("bip34.check", 1)
		if refOK {
			k.Count("bip34.check.ok", 1)
		}
		if refErr == nil {
			k.Count("bip34.extract.ok", 1)
			if refH <= 16 {
				k.Count("bip34.extract.ok.le16", 1)
			}
		} else {
			k.Count("bip34.extract.err", 1)
		}
		k.Count("bip34.shape."+name, 1)
		k.Eval(mon.Sig("bip34", name, hex.EncodeToString(sig[:min(len(sig), 6)]), want, refOK, refErr == nil), true)
		if refOK && want <= 17 {
			k.Sample(map[string]any{"family": "bip34", "scriptSig": hex.EncodeToString(sig), "height": want, "ok": refOK})
		}
	}
}
