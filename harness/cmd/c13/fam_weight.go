package main

import (
	"encoding/hex"
	"fmt"

	"verif/mon"
	"verif/ref/refacct"

	"github.com/btcsuite/btcd/blockchain"
	"github.com/btcsuite/btcd/btcutil/v2"
)

func tinyTx(r *mon.Rand, wit bool) *refacct.Tx {
	t := &refacct.Tx{Version: 2}
	in := refacct.TxIn{PrevIndex: r.Uint32(), Sequence: r.Uint32()}
	r.Fill(in.PrevHash[:])
	if wit {
		in.Witness = [][]byte{r.Bytes(r.Intn(3))}
	}
	t.In = []refacct.TxIn{in}
	t.Out = []refacct.TxOut{{Value: r.Int63n(1e8), PkScript: r.Bytes(r.Intn(3))}}
	return t
}

// famWeight: BIP141 weight of transactions and blocks against the reference serializer.
func famWeight(c *mon.Ctx) {
	c.Family("weight", tierN(c, 5000, 600000), func(k *mon.Case) {
		k.Desc(map[string]any{"batch": weightBatch})
		for sub := 0; sub < weightBatch; sub++ {
			weightOne(k)
		}
	})
	c.Require("weight.tx", 5000)
	c.Require("weight.tx.witness", 1000)
	c.Require("weight.block", 1000)
	c.Require("weight.block.ge253txs", 20)
}

const weightBatch = 4

func weightOne(k *mon.Case) {
	{
		r := k.Rand
		var desc any
		fail := func(key, f string, a ...any) { k.Violation(key, fmt.Sprintf(f, a...), desc) }
		big := r.Chance(1, 12)
		mode := r.Intn(3)
		t := genTx(r, mode, big)
		ser := t.Serialize(true)
		if len(ser) < 4000 {
			desc = map[string]any{"tx": hex.EncodeToString(ser)}
		} else {
			desc = map[string]any{"tx_prefix": hex.EncodeToString(ser[:400]), "len": len(ser)}
		}
		want := t.Weight()
		ut := toUtil(t)
		got := blockchain.GetTransactionWeight(ut)
		if got != want {
			fail("weight:GetTransactionWeight", "got %d want %d (stripped %d total %d)", got, want, len(t.Serialize(false)), len(ser))
		}
		k.Count("weight.tx", 1)
		if t.HasWitness() {
			k.Count("weight.tx.witness", 1)
		}
		if len(t.In) == 0 {
			k.Count("weight.tx.no_inputs", 1)
		}
		if len(ser) > 65535 {
			k.Count("weight.tx.over_64k", 1)
		}
		k.Eval(mon.Sig("weight.tx", len(t.In), len(t.Out), t.HasWitness(), want), true)

		if r.Chance(1, 3) {
			// block
			n := r.Intn(6)
			switch r.Intn(12) {
			case 0:
				n = 0
			case 1:
				n = 252 + r.Intn(3)
			}
			bl := &refacct.Block{Header: refacct.Header{Version: int32(r.Uint32()), Time: r.Uint32(), Bits: r.Uint32(), Nonce: r.Uint32()}}
			r.Fill(bl.Header.Prev[:])
			r.Fill(bl.Header.Merkle[:])
			for i := 0; i < n; i++ {
				switch {
				case n > 10:
					bl.Txs = append(bl.Txs, tinyTx(r, r.Chance(1, 3)))
				case i == 0 && r.Bool():
					bl.Txs = append(bl.Txs, t)
				default:
					bl.Txs = append(bl.Txs, genTx(r, r.Intn(3), false))
				}
			}
			wantB := bl.Weight()
			gotB := blockchain.GetBlockWeight(btcutil.NewBlock(toWireBlock(bl)))
			if gotB != wantB {
				fail("weight:GetBlockWeight", "ntx=%d got %d want %d", n, gotB, wantB)
			}
			k.Count("weight.block", 1)
			if n >= 253 {
				k.Count("weight.block.ge253txs", 1)
			}
			k.Eval(mon.Sig("weight.block", n, wantB), true)
		}
		if len(ser) < 300 {
			k.Sample(map[string]any{"family": "weight", "tx": hex.EncodeToString(ser), "weight": want})
		}
	}
}
