package main

import (
	"bytes"
	"encoding/hex"
	"fmt"

	"verif/mon"
	"verif/ref/refacct"

	"github.com/btcsuite/btcd/blockchain"
	"github.com/btcsuite/btcd/btcutil/v2"
)

var commitMagic = []byte{0x6a, 0x24, 0xaa, 0x21, 0xa9, 0xed}

// famCommit: witness commitment extraction and validation over coinbase layouts.
func famCommit(c *mon.Ctx) {
	c.Family("commitment", tierN(c, 5000, 500000), func(k *mon.Case) {
		k.Desc(map[string]any{"batch": commitBatch})
		for sub := 0; sub < commitBatch; sub++ {
			commitOne(k)
		}
	})
	c.Require("commitment.validate", 5000)
	c.Require("commitment.verdict.ok_with_commitment", 500)
	c.Require("commitment.verdict."+refacct.WCBadNonceSize, 200)
	c.Require("commitment.verdict."+refacct.WCBadMerkleMatch, 500)
	c.Require("commitment.verdict."+refacct.WCUnexpectedWitns, 100)
	c.Require("commitment.extract.several_matching", 500)
	c.Require("commitment.witness_without_commitment", 100)
}

const commitBatch = 4

// commitOne runs one generated block through extraction and validation.
func commitOne(k *mon.Case) {
	{
		r := k.Rand
		var desc any
		fail := func(key, f string, a ...any) { k.Violation(key, fmt.Sprintf(f, a...), desc) }
		// body of the block
		nOther := r.Intn(5)
		if r.Chance(1, 10) {
			nOther = 5 + r.Intn(12)
		}
		bodyWitness := r.Chance(2, 3)
		others := make([]*refacct.Tx, nOther)
		for i := range others {
			others[i] = genSmallTx(r, bodyWitness)
		}
		// coinbase witness (the "nonce")
		var cbWit [][]byte
		nonceKind := r.PickW([]int{3, 10, 2, 2, 1, 1, 1, 1})
		switch nonceKind {
		case 0: // no witness at all
		case 1:
			cbWit = [][]byte{r.Bytes(32)}
		case 2:
			cbWit = [][]byte{r.Bytes(31)}
		case 3:
			cbWit = [][]byte{r.Bytes(33)}
		case 4:
			cbWit = [][]byte{{}}
		case 5:
			cbWit = [][]byte{r.Bytes(32), r.Bytes(32)}
		case 6:
			cbWit = [][]byte{r.Bytes(32), {}}
		case 7:
			cbWit = [][]byte{make([]byte, 32)}
		}
		// outputs: ordinary ones plus 0..3 commitment-like ones
		var outs []refacct.TxOut
		for i := r.Intn(3); i > 0; i-- {
			outs = append(outs, refacct.TxOut{Value: r.Int63n(50e8), PkScript: r.Bytes(r.Intn(40))})
		}
		nCand := r.PickW([]int{3, 8, 5, 2})
		type cand struct {
			kind string
			pos  int
		}
		var cands []cand
		// the correct commitment needs the final coinbase only through its position as leaf 0 (zero hash),
		// so it can be computed before the coinbase is complete.
		nonce := []byte{}
		if len(cbWit) > 0 {
			nonce = cbWit[0]
		}
		placeholder := &refacct.Tx{}
		commitNonce := nonce
		if len(nonce) != 32 && r.Bool() {
			// the commitment a lenient implementation would look for: nonce zero-padded / cut to 32 bytes.
			// By the definition the block is invalid all the same (nonce size).
			commitNonce = make([]byte, 32)
			copy(commitNonce, nonce)
		}
		good := refacct.WitnessCommitmentScript(append([]*refacct.Tx{placeholder}, others...), commitNonce)
		for i := 0; i < nCand; i++ {
			var s []byte
			kind := ""
			switch r.Intn(12) {
			case 0, 1, 2, 3:
				kind = "good"
				s = append([]byte{}, good...)
			case 4:
				kind = "good+trailing"
				s = append(append([]byte{}, good...), r.Bytes(1+r.Intn(40))...)
			case 5:
				kind = "wrong-hash"
				s = append(append([]byte{}, commitMagic...), r.Bytes(32)...)
			case 6:
				kind = "wrong-hash+trailing"
				s = append(append([]byte{}, commitMagic...), r.Bytes(33+r.Intn(20))...)
			case 7:
				kind = "short"
				s = append([]byte{}, good[:6+r.Intn(32)]...) // 6..37 bytes
			case 8:
				kind = "bad-magic"
				s = append([]byte{}, good...)
				j := r.Intn(6)
				s[j] ^= byte(1 << uint(r.Intn(8)))
			case 9:
				kind = "good-one-bit-off"
				s = append([]byte{}, good...)
				s[6+r.Intn(32)] ^= byte(1 << uint(r.Intn(8)))
			case 10:
				kind = "pushdata1-form"
				s = append(append([]byte{0x6a, 0x4c, 0x24, 0xaa, 0x21, 0xa9, 0xed}, good[6:]...), 0)
			default:
				kind = "good+1"
				s = append(append([]byte{}, good...), 0x00)
			}
			pos := r.Intn(len(outs) + 1)
			outs = append(outs[:pos], append([]refacct.TxOut{{Value: 0, PkScript: s}}, outs[pos:]...)...)
			for j := range cands {
				if cands[j].pos >= pos {
					cands[j].pos++
				}
			}
			cands = append(cands, cand{kind, pos})
		}
		if len(outs) == 0 && r.Bool() {
			outs = append(outs, refacct.TxOut{Value: 50e8, PkScript: []byte{0x51}})
		}
		cb := genCoinbase(r, append(refacct.HeightPrefix(int64(r.Intn(1000000))), r.Bytes(2+r.Intn(10))...), outs, cbWit)
		txs := append([]*refacct.Tx{cb}, others...)
		// sometimes corrupt one body witness after the commitment was computed
		mutated := false
		if nOther > 0 && r.Chance(1, 8) {
			j := 1 + r.Intn(nOther)
			t := txs[j]
			if t.HasWitness() {
				for i := range t.In {
					if len(t.In[i].Witness) > 0 {
						w := append([]byte{}, t.In[i].Witness[0]...)
						w = append(w, 0x01)
						t.In[i].Witness = append([][]byte{w}, t.In[i].Witness[1:]...)
						mutated = true
						break
					}
				}
			}
		}
		bl := &refacct.Block{Header: refacct.Header{Version: 0x20000000, Bits: 0x207fffff, Time: 1600000000}, Txs: txs}
		bl.Header.Merkle = refacct.MerkleRoot(refacct.TxLeaves(txs, false))
		kinds := make([]string, 0, len(cands))
		for _, cd := range cands {
			kinds = append(kinds, cd.kind)
		}
		desc = map[string]any{"block": hex.EncodeToString(bl.Serialize(true)), "candidates": kinds, "nonceKind": nonceKind, "mutated": mutated}

		// --- extraction
		ucb := toUtil(cb)
		gotC, gotOK := blockchain.ExtractWitnessCommitment(ucb)
		idx := refacct.WitnessCommitmentIndex(cb)
		switch {
		case idx < 0 && gotOK:
			fail("commitment:Extract:found-where-none", "returned %x", gotC)
		case idx >= 0 && !gotOK:
			fail("commitment:Extract:missed", "output %d holds a commitment", idx)
		case idx >= 0 && !bytes.Equal(gotC, cb.Out[idx].PkScript[6:38]):
			fail("commitment:Extract:wrong-output-or-bytes", "got %x, want bytes 6..38 of output %d (the last matching one)", gotC, idx)
		}
		k.Count("commitment.extract", 1)
		nMatch := 0
		for i := range cb.Out {
			one := &refacct.Tx{Out: cb.Out[i : i+1]}
			if refacct.WitnessCommitmentIndex(one) == 0 {
				nMatch++
			}
		}
		if nMatch >= 2 {
			k.Count("commitment.extract.several_matching", 1)
		}
		// a transaction that is not a coinbase never carries the commitment
		if r.Chance(1, 10) {
			nc := &refacct.Tx{Version: 2, In: []refacct.TxIn{{PrevIndex: r.Uint32(), Sequence: 0xffffffff}}, Out: cb.Out}
			r.Fill(nc.In[0].PrevHash[:])
			if _, ok := blockchain.ExtractWitnessCommitment(toUtil(nc)); ok {
				fail("commitment:Extract:non-coinbase", "commitment reported for a non-coinbase transaction")
			}
		}

		// --- validation
		verdict := refacct.CheckWitnessCommitment(bl)
		ublk := btcutil.NewBlock(toWireBlock(bl))
		err := blockchain.ValidateWitnessCommitment(ublk)
		if (err == nil) != (verdict == refacct.WCOk) {
			if err == nil {
				fail("commitment:Validate:accepts:"+verdict, "accepted, definition says %s", verdict)
			} else {
				fail("commitment:Validate:rejects-valid", "rejected (%v), definition says ok", err)
			}
		}
		k.Count("commitment.validate", 1)
		k.Count("commitment.verdict."+verdict, 1)
		if verdict == refacct.WCOk && idx >= 0 {
			k.Count("commitment.verdict.ok_with_commitment", 1)
		}
		if idx < 0 && len(cbWit) > 0 {
			k.Count("commitment.witness_without_commitment", 1)
		}
		k.Eval(mon.Sig("commitment", kinds, nonceKind, nOther, bodyWitness, mutated, verdict), true)
		if len(kinds) >= 2 {
			k.Sample(map[string]any{"family": "commitment", "candidates": kinds, "nonceKind": nonceKind, "verdict": verdict})
		}
	}
}
