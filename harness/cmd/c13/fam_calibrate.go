package main

import (
	"compress/bzip2"
	"encoding/binary"
	"encoding/hex"
	"fmt"
	"io"
	"os"
	"path/filepath"

	"verif/mon"
	"verif/ref/refacct"

	"github.com/btcsuite/btcd/blockchain"
	"github.com/btcsuite/btcd/blockchain/fullblocktests"
	"github.com/btcsuite/btcd/wire/v2"
)

func repoDir() string {
	if d := os.Getenv("VERIF_REPO"); d != "" {
		return d
	}
	return "/repo"
}

func mustHex(s string) []byte {
	b, err := hex.DecodeString(s)
	if err != nil {
		panic(err)
	}
	return b
}

// revHex prints a hash the way block explorers do (byte-reversed).
func revHex(h refacct.Hash) string {
	var r [32]byte
	for i := range h {
		r[31-i] = h[i]
	}
	return hex.EncodeToString(r[:])
}

// loadRawBlocks reads the "<magic><len><block>" records of the repository's test data files.
func loadRawBlocks(path string) ([][]byte, error) {
	f, err := os.Open(path)
	if err != nil {
		return nil, err
	}
	defer f.Close()
	var rd io.Reader = f
	if filepath.Ext(path) == ".bz2" {
		rd = bzip2.NewReader(f)
	}
	all, err := io.ReadAll(rd)
	if err != nil {
		return nil, err
	}
	var out [][]byte
	for len(all) >= 8 {
		if binary.LittleEndian.Uint32(all) != 0xd9b4bef9 {
			break
		}
		n := int(binary.LittleEndian.Uint32(all[4:]))
		if len(all) < 8+n {
			return nil, fmt.Errorf("truncated record in %s", path)
		}
		out = append(out, all[8:8+n])
		all = all[8+n:]
	}
	return out, nil
}

func fromWire(m *wire.MsgTx) *refacct.Tx {
	t := &refacct.Tx{Version: m.Version, LockTime: m.LockTime}
	for _, in := range m.TxIn {
		ri := refacct.TxIn{PrevHash: refacct.Hash(in.PreviousOutPoint.Hash), PrevIndex: in.PreviousOutPoint.Index,
			ScriptSig: in.SignatureScript, Sequence: in.Sequence}
		for _, w := range in.Witness {
			ri.Witness = append(ri.Witness, w)
		}
		t.In = append(t.In, ri)
	}
	for _, o := range m.TxOut {
		t.Out = append(t.Out, refacct.TxOut{Value: o.Value, PkScript: o.PkScript})
	}
	return t
}

// calibrate runs the reference models against data that was not produced by btcd's code under test:
// raw main-chain blocks shipped in the repository, the published txid/wtxid vector of wire/msgtx_test.go,
// sigop-count vectors of Bitcoin Core's sigopcount_tests.cpp and of txscript/script_test.go, and the
// accept / reject expectations of the full-block test-suite (ported from Core's), whose sigop-limit blocks
// sit exactly on the 80000 / 80004 boundary.
func calibrate(c *mon.Ctx) {
	c.Family("calibrate.mainchain", 1, func(k *mon.Case) {
		bad := func(what, f string, a ...any) { k.Failf("calibration:"+what, f, a...) }
		dir := filepath.Join(repoDir(), "blockchain", "testdata")
		nblocks, ntx := 0, 0
		for _, name := range []string{"277647.dat.bz2", "blk_0_to_4.dat.bz2", "blk_3A.dat.bz2", "blk_4A.dat.bz2", "blk_5A.dat.bz2"} {
			raws, err := loadRawBlocks(filepath.Join(dir, name))
			if err != nil || len(raws) == 0 {
				bad("testdata-unreadable", "%s: %v (%d blocks)", name, err, len(raws))
				continue
			}
			for _, raw := range raws {
				bl, err := refacct.ParseBlock(raw)
				if err != nil {
					bad("parse", "%s: %v", name, err)
					continue
				}
				nblocks++
				ntx += len(bl.Txs)
				if string(bl.Serialize(true)) != string(raw) {
					bad("serializer-roundtrip", "%s: re-serialization differs", name)
				}
				leaves := refacct.TxLeaves(bl.Txs, false)
				if refacct.MerkleRoot(leaves) != bl.Header.Merkle {
					bad("merkle-root-vs-mainchain-header", "%s: computed %x header %x", name, refacct.MerkleRoot(leaves), bl.Header.Merkle)
				}
				if refacct.MerkleRecursive(leaves) != bl.Header.Merkle {
					bad("merkle-recursive-vs-mainchain-header", "%s", name)
				}
				// a main-chain header hash satisfies its proof of work: at least 32 leading zero bits
				h := bl.Header.Hash()
				if h[31] != 0 || h[30] != 0 || h[29] != 0 || h[28] != 0 {
					bad("header-hash", "%s: header hash %s has no proof of work", name, revHex(h))
				}
				// weight of a witness-free block is 4 * size
				if bl.Weight() != 4*int64(len(raw)) {
					bad("weight", "%s: weight %d size %d", name, bl.Weight(), len(raw))
				}
				if name == "277647.dat.bz2" {
					hh, err := refacct.ExtractHeight(bl.Txs[0].In[0].ScriptSig)
					if err != nil || hh != 277647 || !refacct.CheckHeight(bl.Txs[0].In[0].ScriptSig, 277647) {
						bad("bip34-height-277647", "got %d err %v", hh, err)
					}
				}
				if bl.Header.Prev == (refacct.Hash{}) {
					// the genesis coinbase txid / merkle root and block hash are public constants
					if revHex(bl.Txs[0].TxID()) != "4a5e1e4baab89f3a32518a88c31bc87f618f76673e2cc77ab2127b7afdeda33b" {
						bad("genesis-txid", "got %s", revHex(bl.Txs[0].TxID()))
					}
					if revHex(h) != "000000000019d6689c085ae165831e934ff763ae46a2a6c172b3f1b60a8ce26f" {
						bad("genesis-hash", "got %s", revHex(h))
					}
				}
			}
		}
		k.Count("calibrate.mainchain.blocks", int64(nblocks))
		k.Count("calibrate.mainchain.txs", int64(ntx))

		// txid / wtxid vector (segnet block 23157, wire/msgtx_test.go TestWTxSha)
		wt := &refacct.Tx{Version: 1}
		wt.In = []refacct.TxIn{{PrevIndex: 19, Sequence: 0xffffffff,
			Witness: [][]byte{
				mustHex("3043021f4d2381dc97f182abd8185f51753018523212f5ddc07cc4e63a8dc03658da190220608b5c4d92b86b6de7d78ef23a2fa735bcb59b914a48b0e187c5e7569a18197001"),
				mustHex("0307ead084807eb76346df6977000c89392f45c76425b26181f521d7f370066a8f"),
			}}}
		copy(wt.In[0].PrevHash[:], mustHex("a53352d5135766f03076597418263da2d9c958315968fea823529467481ff9cd"))
		wt.Out = []refacct.TxOut{{Value: 395019, PkScript: mustHex("00149ddac6f39d51e0398e532a22c41ba189406a8523")}}
		if revHex(wt.TxID()) != "0f167d1385a84d1518cfee208b653fc9163b605ccf1b75347e2850b3e2eb19f3" {
			bad("txid-vector", "got %s", revHex(wt.TxID()))
		}
		if revHex(wt.WTxID()) != "0858eab78e77b6b033da30f46699996396cf48fcf625a783c85a51403e175e74" {
			bad("wtxid-vector", "got %s", revHex(wt.WTxID()))
		}
		if p, err := refacct.ParseTx(wt.Serialize(true)); err != nil || string(p.Serialize(true)) != string(wt.Serialize(true)) || p.WTxID() != wt.WTxID() {
			bad("witness-parse-roundtrip", "%v", err)
		}
		k.Count("calibrate.vectors", 2)
		k.Eval(mon.Sig("calibrate.mainchain"), false)
	})

	c.Family("calibrate.sigops", 1, func(k *mon.Case) {
		bad := func(what, f string, a ...any) { k.Failf("calibration:"+what, f, a...) }
		n := 0
		eq := func(name string, got, want int) {
			n++
			if got != want {
				bad("sigop-vector", "%s: reference %d, published %d", name, got, want)
			}
		}
		// Bitcoin Core src/test/sigopcount_tests.cpp (GetSigOpCount)
		dummy := make([]byte, 20)
		var s1 []byte
		eq("core.empty.false", refacct.SigOpCount(s1, false), 0)
		eq("core.empty.true", refacct.SigOpCount(s1, true), 0)
		s1 = append(s1, 0x51)
		s1 = append(s1, push(dummy, 0)...)
		s1 = append(s1, push(dummy, 0)...)
		s1 = append(s1, 0x52, 0xae)
		eq("core.s1.true", refacct.SigOpCount(s1, true), 2)
		s1 = append(s1, 0x63, 0xac, 0x68) // OP_IF OP_CHECKSIG OP_ENDIF
		eq("core.s1b.true", refacct.SigOpCount(s1, true), 3)
		eq("core.s1b.false", refacct.SigOpCount(s1, false), 21)
		p2sh := append(append([]byte{0xa9, 0x14}, dummy...), 0x87)
		sig := append([]byte{0x00}, push(s1, -1)...)
		eq("core.p2sh.s1", refacct.P2SHSigOpCount(p2sh, sig), 3)
		var s2 []byte // 1-of-3 multisig
		s2 = append(s2, 0x51)
		for i := 0; i < 3; i++ {
			s2 = append(s2, push(make([]byte, 33), 0)...)
		}
		s2 = append(s2, 0x53, 0xae)
		eq("core.s2.true", refacct.SigOpCount(s2, true), 3)
		eq("core.s2.false", refacct.SigOpCount(s2, false), 20)
		eq("core.p2sh.true", refacct.SigOpCount(p2sh, true), 0)
		eq("core.p2sh.false", refacct.SigOpCount(p2sh, false), 0)
		sig2 := []byte{0x51}
		sig2 = append(sig2, push(dummy, 0)...)
		sig2 = append(sig2, push(dummy, 0)...)
		sig2 = append(sig2, push(s2, -1)...)
		eq("core.p2sh.s2", refacct.P2SHSigOpCount(p2sh, sig2), 3)

		// txscript/script_test.go TestGetPreciseSigOps (all 0 for a P2SH pkScript)
		eq("repo.precise.noparse", refacct.P2SHSigOpCount(p2sh, []byte{0x4c, 0x02}), 0)
		eq("repo.precise.notpushonly", refacct.P2SHSigOpCount(p2sh, []byte{0x51, 0x76}), 0)
		eq("repo.precise.empty", refacct.P2SHSigOpCount(p2sh, nil), 0)
		eq("repo.precise.noscript", refacct.P2SHSigOpCount(p2sh, []byte{0x51, 0x51}), 0)
		eq("repo.precise.pushednoparse", refacct.P2SHSigOpCount(p2sh, []byte{0x02, 0x4c, 0x02}), 0)
		// txscript/script_test.go TestGetWitnessSigOpCount
		eq("repo.wit.p2wkh", refacct.CountWitnessSigOps(nil, mustHex("0014365ab47888e150ff46f8d51bce36dcd680f1283f"), [][]byte{{1}, {2}}), 1)
		eq("repo.wit.nested", refacct.CountWitnessSigOps(mustHex("160014ad0ffa2e387f07e7ead14dc56d5a97dbd6ff5a23"),
			mustHex("a914b3a84b564602a9d68b4c9f19c2ea61458ff7826c87"), [][]byte{{1}, {2}}), 1)
		eq("repo.wit.p2wsh-2of2", refacct.CountWitnessSigOps(nil, mustHex("0020e112b88a0cd87ba387f449d443ee2596eb353beb1f0351ab2cba8909d875db23"),
			[][]byte{mustHex("522103b05faca7ceda92b4933f7acdf874a93de0dc7edc461832031cd69cbb1d1e6fae2102e39092e031c1621c902e3704424e8d83ca481d4d4eeae1b7970f51c78231207e52ae")}), 2)
		eq("repo.wit.p2wsh-noparse", refacct.CountWitnessSigOps(nil, mustHex("0020e112b88a0cd87ba387f449d443ee2596eb353beb1f0351ab2cba8909d875db23"),
			[][]byte{append(append([]byte{0x76, 0xa9, 0x14}, append(dummy, 0x88, 0xac)...), 0x14, 0x91)}), 1)
		// Core sigopcount_tests.cpp GetTxSigOpCost: taproot / unknown versions cost nothing, P2WPKH 1
		eq("core.wit.v1", refacct.CountWitnessSigOps(nil, witnessProgram(1, make([]byte, 32)), [][]byte{{0xac}}), 0)
		eq("core.wit.v0-len-other", refacct.CountWitnessSigOps(nil, witnessProgram(0, make([]byte, 21)), [][]byte{{0xac}}), 0)

		// BIP34 prefixes (Core: CScript() << nHeight)
		hv := func(h int64, want string) {
			n++
			if hex.EncodeToString(refacct.HeightPrefix(h)) != want {
				bad("bip34-prefix", "height %d: %x want %s", h, refacct.HeightPrefix(h), want)
			}
		}
		hv(0, "00")
		hv(1, "51")
		hv(16, "60")
		hv(17, "0111")
		hv(127, "017f")
		hv(128, "028000")
		hv(255, "02ff00")
		hv(256, "020001")
		hv(32767, "02ff7f")
		hv(32768, "03008000")
		hv(227931, "035b7a03")
		hv(277647, "038f3c04")
		hv(8388607, "03ffff7f")
		hv(8388608, "0400008000")
		hv(2147483647, "04ffffff7f")

		// BIP68 / BIP113 hand-evaluated points
		times := []int64{100, 200, 150, 400, 300, 600, 500, 800, 700, 1000, 900, 1200, 1100}
		if refacct.MedianTimePast(times, 0) != 100 || refacct.MedianTimePast(times, 1) != 200 ||
			refacct.MedianTimePast(times, 2) != 150 || refacct.MedianTimePast(times, 10) != 500 ||
			refacct.MedianTimePast(times, 12) != 700 {
			bad("mtp", "median time past hand vectors")
		}
		tx := &refacct.Tx{Version: 2, In: []refacct.TxIn{{Sequence: 10}, {Sequence: 1<<22 | 3}, {Sequence: 1<<31 | 500}}}
		l := refacct.CalculateSequenceLocks(tx, true, []int32{5, 7, 9}, func(h int32) int64 { return refacct.MedianTimePast(times, int(h)) })
		// height: 5+10-1 = 14; time: MTP(6)=300 + 3*512 - 1 = 1835
		if l.MinHeight != 14 || l.MinTime != 1835 {
			bad("bip68", "got %+v", l)
		}
		if refacct.EvaluateSequenceLocks(14, 5000, l) || !refacct.EvaluateSequenceLocks(15, 1836, l) || refacct.EvaluateSequenceLocks(15, 1835, l) {
			bad("bip68-evaluate", "boundary")
		}
		tx.Version = 1
		if l := refacct.CalculateSequenceLocks(tx, true, []int32{5, 7, 9}, nil); l.MinHeight != -1 || l.MinTime != -1 {
			bad("bip68-v1", "got %+v", l)
		}
		n += 4
		k.Count("calibrate.vectors", int64(n))
		k.Eval(mon.Sig("calibrate.sigops"), false)
	})

	// two indexes so that the (slow) suite generation lands on shard 1 while shard 0 runs the other calibrations
	c.Family("calibrate.fullblock", 2, func(k *mon.Case) {
		if k.Index == 0 {
			return
		}
		bad := func(what, f string, a ...any) { k.Failf("calibration:"+what, f, a...) }
		var tests [][]fullblocktests.TestInstance
		func() {
			defer func() {
				if r := recover(); r != nil {
					bad("fullblocktests-generator-panicked", "%v", r)
				}
			}()
			var err error
			tests, err = fullblocktests.Generate(false)
			if err != nil {
				bad("fullblocktests-generate", "%v", err)
			}
		}()
		type op struct {
			h refacct.Hash
			i uint32
		}
		scripts := map[op][]byte{}
		cost := func(mb *wire.MsgBlock) int {
			total := 0
			for _, m := range mb.Transactions {
				t := fromWire(m)
				prev := make([][]byte, len(t.In))
				for i := range t.In {
					prev[i] = scripts[op{t.In[i].PrevHash, t.In[i].PrevIndex}]
				}
				total += refacct.TransactionSigOpCost(t, prev, true, true)
			}
			return total
		}
		remember := func(mb *wire.MsgBlock) {
			for _, m := range mb.Transactions {
				t := fromWire(m)
				id := t.TxID()
				for i := range t.Out {
					scripts[op{id, uint32(i)}] = t.Out[i].PkScript
				}
			}
		}
		var nAcc, nRej, atLimit, justOver int
		for _, grp := range tests {
			for _, ti := range grp {
				switch b := ti.(type) {
				case fullblocktests.AcceptedBlock:
					remember(b.Block)
					cst := cost(b.Block)
					nAcc++
					if cst > 80000 {
						bad("fullblock-accepted-over-limit", "block %s: reference cost %d > 80000 but the suite expects acceptance", b.Name, cst)
					}
					if cst == 80000 {
						atLimit++
					}
				case fullblocktests.RejectedBlock:
					remember(b.Block)
					if b.RejectCode == blockchain.ErrTooManySigOps {
						cst := cost(b.Block)
						nRej++
						if cst <= 80000 {
							bad("fullblock-rejected-under-limit", "block %s: reference cost %d <= 80000 but the suite expects ErrTooManySigOps", b.Name, cst)
						}
						if cst == 80004 {
							justOver++
						}
					}
				}
			}
		}
		k.Count("calibrate.fullblock.accepted", int64(nAcc))
		k.Count("calibrate.fullblock.rejected_sigops", int64(nRej))
		k.Count("calibrate.fullblock.exactly_at_limit", int64(atLimit))
		k.Count("calibrate.fullblock.exactly_one_over", int64(justOver))
		if tests != nil && (nRej < 5 || atLimit < 4 || justOver < 4) {
			bad("fullblock-shape", "accepted %d rejected-for-sigops %d at-limit %d one-over %d", nAcc, nRej, atLimit, justOver)
		}
		k.Eval(mon.Sig("calibrate.fullblock"), false)
	})
}
