package main

import (
	"encoding/hex"
	"fmt"

	"verif/mon"
	"verif/ref/refacct"

	"github.com/btcsuite/btcd/blockchain"
	"github.com/btcsuite/btcd/chainhash/v2"
	"github.com/btcsuite/btcd/txscript/v2"
	"github.com/btcsuite/btcd/wire/v2"
)

// spendShape is one generated (prev scriptPubKey, scriptSig, witness) triple.
type spendShape struct {
	kind    string
	pk      []byte
	sig     []byte
	witness [][]byte
}

func genWitnessStack(r *mon.Rand) [][]byte {
	var w [][]byte
	switch r.Intn(8) {
	case 0:
		return nil
	case 1:
		return [][]byte{{}}
	}
	for i := r.Intn(3); i > 0; i-- {
		w = append(w, payload(r, r.Intn(12)))
	}
	return append(w, genScript(r))
}

// genP2SHScriptSig builds a scriptSig whose last push is `last`, with the deviations that matter to
// P2SH counting.
func genP2SHScriptSig(r *mon.Rand, last []byte) (string, []byte) {
	var s []byte
	for i := r.Intn(3); i > 0; i-- {
		switch r.Intn(4) {
		case 0:
			s = append(s, byte(0x51+r.Intn(16)))
		case 1:
			s = append(s, 0x00)
		default:
			s = append(s, push(payload(r, r.Intn(20)), pushForm(r))...)
		}
	}
	switch r.Intn(14) {
	case 0: // a non-push opcode somewhere: counts 0
		s = append(s, byte(0x61+r.Intn(0x9f)))
		s = append(s, push(last, pushForm(r))...)
		return "nonpush-before", s
	case 1:
		s = append(s, push(last, pushForm(r))...)
		s = append(s, byte(0x61+r.Intn(0x9f)))
		return "nonpush-after", s
	case 2: // last element is a small-int opcode: redeem script empty
		s = append(s, push(last, -1)...)
		s = append(s, byte(0x4f+r.Intn(18)))
		return "smallint-last", s
	case 3: // malformed scriptSig tail after the redeem push
		s = append(s, push(last, -1)...)
		s = append(s, malformedTail(r)...)
		return "malformed-after", s
	case 4:
		return "empty", nil
	case 5: // OP_RESERVED / OP_1NEGATE count as pushes
		s = append(s, byte(0x4f+r.Intn(2)))
		s = append(s, push(last, pushForm(r))...)
		return "reserved-before", s
	case 6: // truncated redeem push
		p := push(last, pushForm(r))
		if len(p) > 1 {
			p = p[:len(p)-1]
		}
		s = append(s, p...)
		return "truncated-last", s
	default:
		s = append(s, push(last, pushForm(r))...)
		return "plain", s
	}
}

func genSpend(r *mon.Rand) spendShape {
	switch r.Intn(10) {
	case 0, 1: // legacy
		return spendShape{"legacy", genScript(r), genScript(r), nil}
	case 2, 3: // P2SH with a generated redeem script
		kind, sig := genP2SHScriptSig(r, genScript(r))
		return spendShape{"p2sh:" + kind, p2shScript(r), sig, nil}
	case 4: // almost P2SH
		kind, sig := genP2SHScriptSig(r, genScript(r))
		return spendShape{"near-p2sh:" + kind, nearP2SH(r), sig, nil}
	case 5, 6: // native witness program (and near misses)
		var sig []byte
		if r.Chance(1, 5) {
			sig = genScript(r)
		}
		return spendShape{"witness-native", genWitnessProgram(r), sig, genWitnessStack(r)}
	case 7, 8: // P2SH-nested witness program
		kind, sig := genP2SHScriptSig(r, genWitnessProgram(r))
		return spendShape{"witness-nested:" + kind, p2shScript(r), sig, genWitnessStack(r)}
	default: // witness data on a non-witness spend, random everything
		return spendShape{"mixed", genScript(r), genScript(r), genWitnessStack(r)}
	}
}

func famSigops(c *mon.Ctx) {
	c.Family("sigops", tierN(c, 12000, 1500000), func(k *mon.Case) {
		k.Desc(map[string]any{"batch": sigopsBatch})
		for sub := 0; sub < sigopsBatch; sub++ {
			sigopsOne(k)
		}
	})
	c.Require("sigops.script.legacy.nonzero", 20000)
	c.Require("sigops.script.precise.p2sh_nonzero", 2000)
	c.Require("sigops.script.witness.nonzero", 3000)
	c.Require("sigops.script.witness.nested_nonzero", 500)
	c.Require("sigops.tx.cost.nonzero", 10000)
	c.Require("sigops.tx.coinbase", 1000)
}

const sigopsBatch = 8

// sigopsOne generates one transaction with its spent outputs and runs every sigop counter over it.
func sigopsOne(k *mon.Case) {
	{
		r := k.Rand
		var dsc any
		fail := func(key, f string, a ...any) { k.Violation(key, fmt.Sprintf(f, a...), dsc) }
		coinbase := r.Chance(1, 12)
		nin := 1 + r.Intn(4)
		if coinbase {
			nin = 1
		}
		t := &refacct.Tx{Version: 2, LockTime: 0}
		shapes := make([]spendShape, nin)
		prevScripts := make([][]byte, nin)
		view := blockchain.NewUtxoViewpoint()
		for i := 0; i < nin; i++ {
			sh := genSpend(r)
			shapes[i] = sh
			in := refacct.TxIn{PrevIndex: uint32(r.Intn(4)), ScriptSig: sh.sig, Sequence: 0xffffffff, Witness: sh.witness}
			r.Fill(in.PrevHash[:])
			if coinbase {
				in.PrevHash = refacct.Hash{}
				in.PrevIndex = 0xffffffff
			}
			t.In = append(t.In, in)
			prevScripts[i] = sh.pk
			if !coinbase {
				op := wire.OutPoint{Hash: chainhash.Hash(in.PrevHash), Index: in.PrevIndex}
				view.Entries()[op] = blockchain.NewUtxoEntry(&wire.TxOut{Value: 1000, PkScript: sh.pk}, int32(1+r.Intn(1000)), r.Chance(1, 10))
			}
		}
		for i := 1 + r.Intn(3); i > 0; i-- {
			var pk []byte
			switch r.Intn(4) {
			case 0:
				pk = p2shScript(r)
			case 1:
				pk = genWitnessProgram(r)
			default:
				pk = genScript(r)
			}
			t.Out = append(t.Out, refacct.TxOut{Value: 1, PkScript: pk})
		}
		desc := map[string]any{"tx": hex.EncodeToString(t.Serialize(true)), "coinbase": coinbase}
		ps := make([]string, nin)
		kinds := make([]string, nin)
		for i := range prevScripts {
			ps[i] = hex.EncodeToString(prevScripts[i])
			kinds[i] = shapes[i].kind
		}
		desc["prevScripts"] = ps
		desc["kinds"] = kinds
		dsc = desc

		// ---- script-level functions
		checkLegacy := func(where string, s []byte) {
			got := txscript.GetSigOpCount(s)
			want := refacct.SigOpCount(s, false)
			if got != want {
				fail("sigops:GetSigOpCount", "%s script %x: got %d want %d", where, s, got, want)
			}
			k.Count("sigops.script.legacy", 1)
			if want > 0 {
				k.Count("sigops.script.legacy.nonzero", 1)
			}
		}
		for i, sh := range shapes {
			checkLegacy("scriptSig", sh.sig)
			checkLegacy("prevPkScript", sh.pk)
			gotP := txscript.GetPreciseSigOpCount(sh.sig, sh.pk, r.Bool())
			wantP := refacct.P2SHSigOpCount(sh.pk, sh.sig)
			if gotP != wantP {
				fail("sigops:GetPreciseSigOpCount:"+kindClass(sh.kind), "input %d kind %s sig %x pk %x: got %d want %d", i, sh.kind, sh.sig, sh.pk, gotP, wantP)
			}
			k.Count("sigops.script.precise", 1)
			if wantP > 0 {
				k.Count("sigops.script.precise.nonzero", 1)
				if refacct.IsP2SH(sh.pk) {
					k.Count("sigops.script.precise.p2sh_nonzero", 1)
				}
			}
			gotW := txscript.GetWitnessSigOpCount(sh.sig, sh.pk, wire.TxWitness(sh.witness))
			wantW := refacct.CountWitnessSigOps(sh.sig, sh.pk, sh.witness)
			if gotW != wantW {
				fail("sigops:GetWitnessSigOpCount:"+kindClass(sh.kind), "input %d kind %s sig %x pk %x witness %x: got %d want %d", i, sh.kind, sh.sig, sh.pk, sh.witness, gotW, wantW)
			}
			k.Count("sigops.script.witness", 1)
			if wantW > 0 {
				k.Count("sigops.script.witness.nonzero", 1)
				if refacct.IsP2SH(sh.pk) {
					k.Count("sigops.script.witness.nested_nonzero", 1)
				}
			}
			if v, prog, ok := refacct.IsWitnessProgram(sh.pk); ok {
				k.Count(fmt.Sprintf("sigops.witness_program.v%d.len%d", min(v, 2), classLen(len(prog))), 1)
				if txscript.IsWitnessProgram(sh.pk) != ok {
					fail("sigops:IsWitnessProgram", "pk %x", sh.pk)
				}
			} else if txscript.IsWitnessProgram(sh.pk) {
				fail("sigops:IsWitnessProgram", "pk %x is not a witness program", sh.pk)
			}
			k.Count("sigops.kind."+kindClass(sh.kind), 1)
		}
		for i := range t.Out {
			checkLegacy("pkScript", t.Out[i].PkScript)
		}

		// ---- transaction-level functions
		ut := toUtil(t)
		isCB := blockchain.IsCoinBase(ut)
		if isCB != t.IsCoinBase() {
			fail("sigops:IsCoinBase", "got %v", isCB)
		}
		if got, want := blockchain.CountSigOps(ut), refacct.LegacySigOpCount(t); got != want {
			fail("sigops:CountSigOps", "got %d want %d", got, want)
		}
		gotP, err := blockchain.CountP2SHSigOps(ut, isCB, view)
		wantP := refacct.TxP2SHSigOpCount(t, prevScripts)
		if err != nil {
			fail("sigops:CountP2SHSigOps:error-with-all-inputs-present", "%v", err)
		} else if gotP != wantP {
			fail("sigops:CountP2SHSigOps", "got %d want %d", gotP, wantP)
		}
		for _, fl := range [][2]bool{{false, false}, {true, false}, {true, true}} {
			got, err := blockchain.GetSigOpCost(ut, isCB, view, fl[0], fl[1])
			want := refacct.TransactionSigOpCost(t, prevScripts, fl[0], fl[1])
			if err != nil {
				fail("sigops:GetSigOpCost:error-with-all-inputs-present", "flags %v: %v", fl, err)
			} else if got != want {
				fail(fmt.Sprintf("sigops:GetSigOpCost:p2sh=%v,witness=%v", fl[0], fl[1]), "got %d want %d", got, want)
			}
			k.Count("sigops.tx.cost", 1)
			if fl[0] && fl[1] && want > 0 {
				k.Count("sigops.tx.cost.nonzero", 1)
			}
		}
		if coinbase {
			k.Count("sigops.tx.coinbase", 1)
		}

		// ---- observation (no verdict): a missing input. Core's GetTransactionSigOpCost is undefined there
		// (assert); btcd's GetSigOpCost swallows CountP2SHSigOps' error. Recorded for the evidence only.
		if !coinbase && r.Chance(1, 40) {
			miss := r.Intn(nin)
			op := wire.OutPoint{Hash: chainhash.Hash(t.In[miss].PrevHash), Index: t.In[miss].PrevIndex}
			view.RemoveEntry(op)
			if view.LookupEntry(op) == nil {
				_, e1 := blockchain.CountP2SHSigOps(ut, false, view)
				v2, e2 := blockchain.GetSigOpCost(ut, false, view, true, true)
				_, e3 := blockchain.GetSigOpCost(ut, false, view, false, true)
				if e1 != nil {
					k.Count("sigops.missing_input.CountP2SHSigOps.error", 1)
				}
				switch {
				case e2 != nil:
					k.Count("sigops.missing_input.GetSigOpCost_p2sh.error", 1)
				case v2 == 0:
					k.Count("sigops.missing_input.GetSigOpCost_p2sh.returns_0_nil", 1)
				default:
					k.Count("sigops.missing_input.GetSigOpCost_p2sh.returns_nonzero_nil", 1)
				}
				if e3 != nil {
					k.Count("sigops.missing_input.GetSigOpCost_nop2sh.error", 1)
				}
			}
		}

		k.Eval(mon.Sig("sigops", kinds, refacct.TransactionSigOpCost(t, prevScripts, true, true), mon.SigBytes(t.Serialize(true))), true)
		if len(t.Serialize(true)) < 400 {
			k.Sample(map[string]any{"family": "sigops", "kinds": kinds, "tx": desc["tx"], "prevScripts": ps,
				"cost": refacct.TransactionSigOpCost(t, prevScripts, true, true)})
		}
	}
}

// kindClass strips the generator detail after the first ':' so that violation keys stay stable.
func kindClass(kind string) string {
	for i := 0; i < len(kind); i++ {
		if kind[i] == ':' {
			return kind[:i]
		}
	}
	return kind
}

func classLen(n int) int {
	switch n {
	case 20, 32:
		return n
	}
	return 0
}
