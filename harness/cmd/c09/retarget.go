package main

import (
	"errors"
	"fmt"
	"math/big"
	"time"

	"verif/mon"
	"verif/ref/refpow"

	"github.com/btcsuite/btcd/blockchain"
	"github.com/btcsuite/btcd/chaincfg/v2"
	"github.com/btcsuite/btcd/wire/v2"
)

// paramsFamily: the shipped parameter sets carry the protocol constants the rules depend on.
func paramsFamily(c *mon.Ctx) {
	c.Family("params", int64(len(stdNets)), func(k *mon.Case) {
		nd := stdNets[k.Index]
		p := nd.p()
		k.Desc(nd.name)
		rp := refParams(&p)
		if rp.LimitBits() != p.PowLimitBits {
			k.Failf("params:"+nd.name+":PowLimitBits", "PowLimitBits %08x is not the compact form %08x of PowLimit %x", p.PowLimitBits, rp.LimitBits(), p.PowLimit)
		}
		if rp.Interval() != 2016 || rp.AdjustmentFactor != 4 || rp.TargetSpacing != 600 {
			k.Failf("params:"+nd.name+":retarget-constants", "interval %d factor %d spacing %d", rp.Interval(), rp.AdjustmentFactor, rp.TargetSpacing)
		}
		if rp.AllowMinDiff && rp.MinDiffReduction != 2*rp.TargetSpacing {
			k.Failf("params:"+nd.name+":MinDiffReductionTime", "%d != 2*%d", rp.MinDiffReduction, rp.TargetSpacing)
		}
		wantLimit := map[string]string{
			"mainnet": "00000000ffffffffffffffffffffffffffffffffffffffffffffffffffffffff", "testnet3": "00000000ffffffffffffffffffffffffffffffffffffffffffffffffffffffff",
			"testnet4": "00000000ffffffffffffffffffffffffffffffffffffffffffffffffffffffff", "signet": "00000377ae000000000000000000000000000000000000000000000000000000",
			"regtest": "7fffffffffffffffffffffffffffffffffffffffffffffffffffffffffffffff", "simnet": "7fffffffffffffffffffffffffffffffffffffffffffffffffffffffffffffff"}[nd.name]
		if fmt.Sprintf("%064x", p.PowLimit) != wantLimit {
			k.Failf("params:"+nd.name+":PowLimit", "PowLimit %064x, protocol value %s", p.PowLimit, wantLimit)
		}
		type flags struct{ minDiff, noRetarget, bip94 bool }
		want := map[string]flags{"mainnet": {false, false, false}, "testnet3": {true, false, false}, "testnet4": {true, false, true},
			"signet": {false, false, false}, "regtest": {true, true, false}, "simnet": {true, false, false}}[nd.name]
		if (flags{rp.AllowMinDiff, rp.NoRetarget, rp.BIP94}) != want {
			k.Failf("params:"+nd.name+":rule-flags", "min-difficulty %v no-retarget %v bip94 %v", rp.AllowMinDiff, rp.NoRetarget, rp.BIP94)
		}
		wantSub := int32(210000)
		if nd.name == "regtest" {
			wantSub = 150
		}
		if p.SubsidyReductionInterval != wantSub {
			k.Failf("params:"+nd.name+":SubsidyReductionInterval", "%d", p.SubsidyReductionInterval)
		}
		if p.GenesisBlock.Header.Bits != p.PowLimitBits {
			k.Failf("params:"+nd.name+":genesis-bits", "%08x", p.GenesisBlock.Header.Bits)
		}
		k.Count("params.sets", 1)
		k.Eval(mon.Sig("params", nd.name), true)
	})
}

// randValidBits draws a compact target with 0 < target <= limit.
func randValidBits(r *mon.Rand, rp *refpow.Params) uint32 {
	lim := rp.PowLimit
	limBits := rp.LimitBits()
	switch r.Intn(10) {
	case 0, 1, 2:
		return limBits
	case 3, 4:
		// between limit/2 and limit
		half := new(big.Int).Rsh(lim, 1)
		x := new(big.Int).Add(half, randBelow(r, new(big.Int).Add(half, big.NewInt(1))))
		if b := refpow.TargetToCompact(x); validBits(b, rp) {
			return b
		}
		return limBits
	case 5:
		// non-canonical spelling of a valid target: mantissa shifted down one byte, exponent up one
		b := randValidBits(r, rp)
		e, m := b>>24, b&0x7fffff
		if m&0xff == 0 && e < 255 && m>>8 != 0 {
			nb := (e+1)<<24 | m>>8
			if validBits(nb, rp) && refpow.CompactToTarget(nb).Cmp(refpow.CompactToTarget(b)) == 0 {
				return nb
			}
		}
		return b
	default:
		bl := lim.BitLen()
		lo := 9
		if bl < lo {
			lo = bl
		}
		n := lo + r.Intn(bl-lo+1)
		x := randBelow(r, new(big.Int).Lsh(big.NewInt(1), uint(n)))
		x.SetBit(x, n-1, 1)
		if x.Cmp(lim) > 0 {
			x.Set(lim)
		}
		if b := refpow.TargetToCompact(x); validBits(b, rp) {
			return b
		}
		return limBits
	}
}

func validBits(b uint32, rp *refpow.Params) bool {
	t := refpow.CompactToTarget(b)
	return t.Sign() > 0 && t.Cmp(rp.PowLimit) <= 0
}

func randBelow(r *mon.Rand, n *big.Int) *big.Int {
	if n.Sign() <= 0 {
		return new(big.Int)
	}
	b := r.Bytes((n.BitLen() + 7) / 8)
	x := new(big.Int).SetBytes(b)
	return x.Mod(x, n)
}

type spanClass struct {
	name string
	f    func(r *mon.Rand, T, lo, hi int64) int64
}

var spanClasses = []spanClass{
	{"negative", func(r *mon.Rand, T, lo, hi int64) int64 { return -1 - r.Int63n(2*T+1) }},
	{"zero", func(r *mon.Rand, T, lo, hi int64) int64 { return 0 }},
	{"below-min", func(r *mon.Rand, T, lo, hi int64) int64 { return r.Int63n(lo + 1) }},
	{"min-1", func(r *mon.Rand, T, lo, hi int64) int64 { return lo - 1 }},
	{"min", func(r *mon.Rand, T, lo, hi int64) int64 { return lo }},
	{"min+1", func(r *mon.Rand, T, lo, hi int64) int64 { return lo + 1 }},
	{"in-range", func(r *mon.Rand, T, lo, hi int64) int64 { return lo + r.Int63n(hi-lo+1) }},
	{"in-range", func(r *mon.Rand, T, lo, hi int64) int64 { return T/2 + r.Int63n(T+1) }},
	{"target-1", func(r *mon.Rand, T, lo, hi int64) int64 { return T - 1 }},
	{"target", func(r *mon.Rand, T, lo, hi int64) int64 { return T }},
	{"target+1", func(r *mon.Rand, T, lo, hi int64) int64 { return T + 1 }},
	{"max-1", func(r *mon.Rand, T, lo, hi int64) int64 { return hi - 1 }},
	{"max", func(r *mon.Rand, T, lo, hi int64) int64 { return hi }},
	{"max+1", func(r *mon.Rand, T, lo, hi int64) int64 { return hi + 1 }},
	{"above-max", func(r *mon.Rand, T, lo, hi int64) int64 { return hi + 1 + r.Int63n(4*T+1) }},
}

// history is a generated case of the retarget family.
type history struct {
	net      string
	p        chaincfg.Params
	rp       *refpow.Params
	hs       []refpow.Header
	spanName string
	perturbs int
}

// genHistory builds a header history whose tip is followed by a block at the wanted position of the
// difficulty period. Blocks that open a period get a free valid target (the outcome of earlier
// periods that are not modelled); every other block carries what the rule required of it, except
// for a few deliberately perturbed ones (any valid target).
func genHistory(r *mon.Rand) *history {
	h := &history{}
	if r.Chance(2, 5) {
		h.net, h.p = "synthetic", syntheticParams(r)
	} else {
		nd := stdNets[r.Intn(len(stdNets))]
		h.net, h.p = nd.name, nd.p()
	}
	h.rp = refParams(&h.p)
	rp := h.rp
	n := rp.Interval()
	T := rp.TargetTimespan
	lo, hi := T/rp.AdjustmentFactor, T*rp.AdjustmentFactor

	var baseK int64
	switch r.Intn(5) {
	case 0:
		baseK = 0
	case 1:
		baseK = 1
	default:
		baseK = r.Int63n(400)
	}
	base := baseK * n
	// position of the NEW block within its period
	var pos int64
	switch r.Intn(10) {
	case 0, 1, 2, 3, 4:
		pos = 0
	case 5:
		pos = 1 % n
	case 6:
		pos = n - 1
	default:
		pos = r.Int63n(n)
	}
	q := int64(r.Intn(2))
	if n >= 1000 && r.Chance(2, 3) {
		q = 0
	}
	L := q*n + pos
	if pos == 0 {
		L = (q + 1) * n
	}
	if L == 0 {
		L = n
	}
	// timestamps
	sc := spanClasses[r.Intn(len(spanClasses))]
	h.spanName = sc.name
	span := sc.f(r, T, lo, hi)
	jitters := []int64{0, rp.TargetSpacing / 2, rp.TargetSpacing * 3 / 2, rp.TargetSpacing * 5}
	J := jitters[r.Intn(len(jitters))]
	t0 := int64(1300000000) + r.Int63n(300000000)
	hs := make([]refpow.Header, L)
	lastFirst := L - n // index of the first block of the final (complete, when pos==0) period
	for i := int64(0); i < L; i++ {
		hs[i].Height = base + i
		var t int64
		if pos == 0 && i >= lastFirst {
			j := i - lastFirst
			t = t0 + q*T
			if n > 1 {
				t += span * j / (n - 1)
			}
			if j != 0 && j != n-1 && J > 0 {
				t += r.Int63n(2*J+1) - J
			}
		} else {
			t = t0 + i*rp.TargetSpacing
			if J > 0 {
				t += r.Int63n(2*J+1) - J
			}
		}
		hs[i].Time = t
	}
	// bits
	perturbP := 0
	if r.Chance(1, 8) {
		perturbP = 1 + r.Intn(3)
	}
	for i := int64(0); i < L; i++ {
		if hs[i].Height%n == 0 {
			hs[i].Bits = randValidBits(r, rp)
			if rp.NoRetarget {
				hs[i].Bits = rp.LimitBits()
			}
			continue
		}
		b, ok := refpow.NextBits(rp, hs[:i], hs[i].Time)
		if !ok {
			panic("generator: history does not reach the period start")
		}
		hs[i].Bits = b
		if perturbP > 0 && !rp.NoRetarget && r.Intn(int(L)) < perturbP {
			hs[i].Bits = randValidBits(r, rp)
			h.perturbs++
		}
	}
	h.hs = hs
	return h
}

func (h *history) desc(newTime int64) map[string]any {
	m := map[string]any{"net": h.net, "interval": h.rp.Interval(), "timespan": h.rp.TargetTimespan, "spacing": h.rp.TargetSpacing,
		"factor": h.rp.AdjustmentFactor, "powLimit": fmt.Sprintf("%x", h.rp.PowLimit), "minDiff": h.rp.AllowMinDiff,
		"minDiffReduction": h.rp.MinDiffReduction, "noRetarget": h.rp.NoRetarget, "bip94": h.rp.BIP94,
		"baseHeight": h.hs[0].Height, "len": len(h.hs), "span": h.spanName, "newTime": newTime}
	// the last 2*interval (at most 40) headers in full, the rest is reproducible from the seed
	from := 0
	if len(h.hs) > 40 {
		from = len(h.hs) - 40
	}
	var tail []string
	for _, x := range h.hs[from:] {
		tail = append(tail, fmt.Sprintf("%d:%d:%08x", x.Height, x.Time, x.Bits))
	}
	m["tail(height:time:bits)"] = tail
	if n := int(h.rp.Interval()); len(h.hs) >= n {
		f := h.hs[len(h.hs)-n]
		m["periodFirst"] = fmt.Sprintf("%d:%d:%08x", f.Height, f.Time, f.Bits)
	}
	return m
}

func ruleCode(err error) (blockchain.ErrorCode, bool) {
	var re blockchain.RuleError
	if errors.As(err, &re) {
		return re.ErrorCode, true
	}
	return 0, false
}

// rulePath names which branch of the protocol rule decides the required bits.
func rulePath(rp *refpow.Params, hs []refpow.Header, newTime int64) (path string, depth int) {
	tip := hs[len(hs)-1]
	n := rp.Interval()
	switch {
	case rp.NoRetarget:
		return "noretarget", 0
	case (tip.Height+1)%n == 0:
		return "retarget", 0
	case !rp.AllowMinDiff:
		return "carry", 0
	case newTime > tip.Time+rp.MinDiffReduction:
		return "mindiff-limit", 0
	}
	lim := rp.LimitBits()
	for i := len(hs) - 1; i >= 0; i-- {
		if hs[i].Height == 0 || hs[i].Height%n == 0 || hs[i].Bits != lim {
			break
		}
		depth++
	}
	return "mindiff-walkback", depth
}

func bucket(n int) int {
	switch {
	case n <= 2:
		return n
	case n <= 5:
		return 3
	case n <= 20:
		return 4
	case n <= 200:
		return 5
	default:
		return 6
	}
}

func mkHeader(bits uint32, ts int64, r *mon.Rand) *wire.BlockHeader {
	h := &wire.BlockHeader{Version: 0x20000000, Bits: bits, Timestamp: time.Unix(ts, 0), Nonce: r.Uint32()}
	r.Fill(h.PrevBlock[:])
	r.Fill(h.MerkleRoot[:])
	return h
}

func retargetFamily(c *mon.Ctx) {
	c.Family("retarget", tierN(c, 12000, 1000000), func(k *mon.Case) {
		r := k.Rand
		h := genHistory(r)
		rp := h.rp
		hs := h.hs
		tip := hs[len(hs)-1]
		mtp := refpow.MTP(hs)
		// timestamp of the new block
		red := rp.MinDiffReduction
		if red == 0 {
			red = 2 * rp.TargetSpacing
		}
		var newTime int64
		tclass := r.Intn(7)
		switch tclass {
		case 0:
			newTime = tip.Time + 1
		case 1:
			newTime = tip.Time + red - 1
		case 2:
			newTime = tip.Time + red
		case 3:
			newTime = tip.Time + red + 1
		case 4:
			newTime = tip.Time + 2*red + r.Int63n(red+1)
		case 5:
			newTime = tip.Time + 1 + r.Int63n(3*red)
		default:
			newTime = mtp + 1 + r.Int63n(red+1)
		}
		if newTime <= mtp {
			newTime = mtp + 1
			tclass = 7
		}
		if !refpow.TimeWarpOK(rp, tip.Height+1, newTime, tip.Time) {
			newTime = tip.Time + 1
			tclass = 8
			if newTime <= mtp {
				newTime = mtp + 1
			}
		}
		k.Desc(h.desc(newTime))
		want, ok := refpow.NextBits(rp, hs, newTime)
		if !ok {
			panic("generator: reference cannot evaluate the history")
		}
		path, depth := rulePath(rp, hs, newTime)
		cls := h.net + ":" + path
		if path == "retarget" {
			cls += ":" + h.spanName
		}
		hc := newHChain(hs)
		cc := &cctx{p: &h.p}
		skipCk := !r.Chance(1, 8)

		// the required bits must be accepted
		err := blockchain.CheckBlockHeaderContext(mkHeader(want, newTime, r), hc.tip(), blockchain.BFNone, cc, skipCk)
		if err != nil {
			k.Failf("retarget:"+cls+":rejects-required-bits", "header with the protocol-required bits %08x rejected: %v", want, err)
		}
		k.Count("retarget.accept", 1)

		// every other candidate must be rejected (with a difficulty error: nothing else is wrong with the header)
		type cand struct {
			b   uint32
			why string
		}
		var cands []cand
		seenCand := map[uint32]bool{}
		add := func(b uint32, why string) {
			if b != want && !seenCand[b] {
				seenCand[b] = true
				cands = append(cands, cand{b, why})
			}
		}
		add(tip.Bits, "tip-bits")
		add(rp.LimitBits(), "limit-bits")
		add(want+1, "mantissa+1")
		add(want-1, "mantissa-1")
		add(want+1<<24, "exponent+1")
		add(want^0x00800000, "sign-flipped")
		n := rp.Interval()
		if int64(len(hs)) >= n {
			first := hs[int64(len(hs))-n]
			add(first.Bits, "period-first-bits")
			// the retarget result with the other old-target choice / without clamp / with the classic off-by-one window
			alt := *rp
			alt.BIP94 = !rp.BIP94
			alt.NoRetarget = false
			if (tip.Height+1)%n == 0 {
				if b, ok := refpow.NextBits(&alt, hs, newTime); ok {
					add(b, "other-old-target")
				}
				old := refpow.CompactToTarget(tip.Bits)
				if rp.BIP94 {
					old = refpow.CompactToTarget(first.Bits)
				}
				raw := new(big.Int).Mul(old, big.NewInt(tip.Time-first.Time))
				raw.Quo(raw, big.NewInt(rp.TargetTimespan))
				if raw.Sign() > 0 && raw.BitLen() < 2000 {
					add(refpow.TargetToCompact(raw), "unclamped-uncapped")
					if raw.Cmp(rp.PowLimit) > 0 {
						raw.Set(rp.PowLimit)
					}
					add(refpow.TargetToCompact(raw), "unclamped")
				}
				if int64(len(hs)) > n {
					// window of n blocks instead of n-1
					shifted := append([]refpow.Header{}, hs...)
					shifted[int64(len(hs))-n].Time = hs[int64(len(hs))-n-1].Time
					if b, ok := refpow.NextBits(rp, shifted, newTime); ok {
						add(b, "window-off-by-one")
					}
				}
			}
		}
		if rp.AllowMinDiff {
			// the other side of the minimum-difficulty decision
			if b, ok := refpow.NextBits(rp, hs, tip.Time+rp.MinDiffReduction+1); ok {
				add(b, "as-if-late")
			}
			if b, ok := refpow.NextBits(rp, hs, tip.Time); ok {
				add(b, "as-if-early")
			}
		}
		for _, cd := range cands {
			b, why := cd.b, cd.why
			err := blockchain.CheckBlockHeaderContext(mkHeader(b, newTime, r), hc.tip(), blockchain.BFNone, cc, skipCk)
			if err == nil {
				k.Failf("retarget:"+cls+":accepts-wrong-bits:"+why, "header with bits %08x (%s) accepted, protocol requires %08x", b, why, want)
			} else if code, isRule := ruleCode(err); !isRule || code != blockchain.ErrUnexpectedDifficulty {
				k.Failf("retarget:"+cls+":wrong-bits-not-a-difficulty-rejection", "header with bits %08x (%s; required %08x) rejected with %v", b, why, want, err)
			}
			k.Count("retarget.reject", 1)
		}
		k.Count("retarget.net."+h.net, 1)
		k.Count("retarget.path."+path, 1)
		if path == "retarget" {
			k.Count("retarget.span."+h.spanName, 1)
			if want == rp.LimitBits() {
				k.Count("retarget.result-at-limit", 1)
			}
		}
		if path == "mindiff-walkback" {
			k.Count(fmt.Sprintf("retarget.walkback.depth-bucket%d", bucket(depth)), 1)
		}
		if h.perturbs > 0 {
			k.Count("retarget.perturbed-histories", 1)
		}
		oldCls := "other"
		if tip.Bits == rp.LimitBits() {
			oldCls = "limit"
		}
		k.Eval(mon.Sig("retarget", h.net, path, h.spanName, bucket(depth), oldCls, tclass, h.rp.BIP94, h.rp.AllowMinDiff, want == rp.LimitBits()), true)
		if k.Index < 3 {
			k.Sample(map[string]any{"family": "retarget", "net": h.net, "path": path, "span": h.spanName, "required": fmt.Sprintf("%08x", want), "rejected": len(cands)})
		}
	})
	c.Require("retarget.accept", 1000)
	c.Require("retarget.reject", 3000)
	for _, p := range []string{"retarget", "carry", "mindiff-limit", "mindiff-walkback", "noretarget"} {
		c.Require("retarget.path."+p, 100)
	}
	for _, nd := range stdNets {
		c.Require("retarget.net."+nd.name, 100)
	}
}
