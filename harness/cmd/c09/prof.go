package main

import (
	"flag"
	"os"
	"runtime/pprof"
)

// -cpuprofile is a development aid (not used by ./check).
var cpuprofile = flag.String("cpuprofile", "", "write a CPU profile to this file")

func startProfile() func() {
	if *cpuprofile == "" {
		return func() {}
	}
	f, err := os.Create(*cpuprofile)
	if err != nil {
		return func() {}
	}
	pprof.StartCPUProfile(f)
	return func() { pprof.StopCPUProfile(); f.Close() }
}
