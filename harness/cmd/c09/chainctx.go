package main

import (
	"math/big"
	"time"

	"verif/mon"
	"verif/ref/refpow"

	"github.com/btcsuite/btcd/blockchain"
	"github.com/btcsuite/btcd/chaincfg/v2"
	"github.com/btcsuite/btcd/chainhash/v2"
)

// hchain is a contiguous header history owned by the harness; hnode is its HeaderCtx view.
type hchain struct {
	hs    []refpow.Header
	nodes []hnode
}

type hnode struct {
	c *hchain
	i int
}

func newHChain(hs []refpow.Header) *hchain {
	c := &hchain{hs: hs, nodes: make([]hnode, len(hs))}
	for i := range c.nodes {
		c.nodes[i] = hnode{c, i}
	}
	return c
}

func (c *hchain) tip() *hnode { return &c.nodes[len(c.nodes)-1] }

func (n *hnode) Height() int32    { return int32(n.c.hs[n.i].Height) }
func (n *hnode) Bits() uint32     { return n.c.hs[n.i].Bits }
func (n *hnode) Timestamp() int64 { return n.c.hs[n.i].Time }
func (n *hnode) Parent() blockchain.HeaderCtx {
	if n.i == 0 {
		return nil
	}
	return &n.c.nodes[n.i-1]
}
func (n *hnode) RelativeAncestorCtx(d int32) blockchain.HeaderCtx {
	if d < 0 || int(d) > n.i {
		return nil
	}
	return &n.c.nodes[n.i-int(d)]
}

// cctx is the harness ChainCtx: the derived quantities are the documented ones
// (interval = timespan/spacing, clamp = timespan/factor .. timespan*factor).
type cctx struct {
	p *chaincfg.Params
}

func (c *cctx) ChainParams() *chaincfg.Params { return c.p }
func (c *cctx) BlocksPerRetarget() int32 {
	return int32(int64(c.p.TargetTimespan/time.Second) / int64(c.p.TargetTimePerBlock/time.Second))
}
func (c *cctx) MinRetargetTimespan() int64 {
	return int64(c.p.TargetTimespan/time.Second) / c.p.RetargetAdjustmentFactor
}
func (c *cctx) MaxRetargetTimespan() int64 {
	return int64(c.p.TargetTimespan/time.Second) * c.p.RetargetAdjustmentFactor
}
func (c *cctx) VerifyCheckpoint(int32, *chainhash.Hash) bool          { return true }
func (c *cctx) FindPreviousCheckpoint() (blockchain.HeaderCtx, error) { return nil, nil }

var _ blockchain.ChainCtx = (*cctx)(nil)
var _ blockchain.HeaderCtx = (*hnode)(nil)

// refParams maps a chaincfg parameter set to the quantities the protocol rule reads.
func refParams(p *chaincfg.Params) *refpow.Params {
	return &refpow.Params{
		PowLimit:         p.PowLimit,
		TargetTimespan:   int64(p.TargetTimespan / time.Second),
		TargetSpacing:    int64(p.TargetTimePerBlock / time.Second),
		AdjustmentFactor: p.RetargetAdjustmentFactor,
		AllowMinDiff:     p.ReduceMinDifficulty,
		MinDiffReduction: int64(p.MinDiffReductionTime / time.Second),
		NoRetarget:       p.PoWNoRetargeting,
		BIP94:            p.EnforceBIP94,
	}
}

type netDef struct {
	name string
	p    func() chaincfg.Params // a fresh copy
}

var stdNets = []netDef{
	{"mainnet", func() chaincfg.Params { return chaincfg.MainNetParams }},
	{"testnet3", func() chaincfg.Params { return chaincfg.TestNet3Params }},
	{"testnet4", func() chaincfg.Params { return chaincfg.TestNet4Params }},
	{"signet", func() chaincfg.Params { return chaincfg.SigNetParams }},
	{"regtest", func() chaincfg.Params { return chaincfg.RegressionNetParams }},
	{"simnet", func() chaincfg.Params { return chaincfg.SimNetParams }},
}

// syntheticParams draws a synthetic parameter set (consistent: PowLimitBits is the compact form
// of PowLimit, the minimum-difficulty window is twice the spacing).
func syntheticParams(r *mon.Rand) chaincfg.Params {
	p := chaincfg.RegressionNetParams
	p.Name = "synthetic"
	spacing := int64(1 + r.Intn(600))
	if r.Chance(1, 3) {
		spacing = 600
	}
	var interval int64
	switch r.Intn(6) {
	case 0:
		interval = 2
	case 1:
		interval = int64(3 + r.Intn(6))
	case 2:
		interval = 2016
	default:
		interval = int64(2 + r.Intn(60))
	}
	span := interval * spacing
	if r.Chance(1, 5) && spacing > 1 { // timespan not a multiple of the spacing
		span += r.Int63n(spacing)
	}
	p.TargetTimePerBlock = time.Duration(spacing) * time.Second
	p.TargetTimespan = time.Duration(span) * time.Second
	p.RetargetAdjustmentFactor = 4
	if r.Chance(1, 6) {
		p.RetargetAdjustmentFactor = int64(2 + r.Intn(7))
	}
	// pow limit
	var lim *big.Int
	switch r.Intn(4) {
	case 0:
		lim = new(big.Int).Sub(new(big.Int).Lsh(big.NewInt(1), uint(24+r.Intn(232))), big.NewInt(1))
	case 1:
		lim = new(big.Int).Lsh(big.NewInt(int64(1+r.Intn(0x7fffff))), uint(8*r.Intn(29)))
	case 2:
		lim = new(big.Int).Sub(new(big.Int).Lsh(big.NewInt(1), 255), big.NewInt(1))
	default:
		lim = new(big.Int).Sub(new(big.Int).Lsh(big.NewInt(1), 224), big.NewInt(1))
	}
	p.PowLimit = lim
	p.PowLimitBits = refpow.TargetToCompact(lim)
	p.ReduceMinDifficulty = r.Bool()
	p.MinDiffReductionTime = time.Duration(2*spacing) * time.Second
	p.PoWNoRetargeting = r.Chance(1, 10)
	p.EnforceBIP94 = r.Chance(1, 3)
	return p
}

// fixedTime is a MedianTimeSource frozen at a harness-chosen instant (no wall clock in verdicts).
type fixedTime struct{ now int64 }

func (f *fixedTime) AdjustedTime() time.Time         { return time.Unix(f.now, 0) }
func (f *fixedTime) AddTimeSample(string, time.Time) {}
func (f *fixedTime) Offset() time.Duration           { return 0 }

var _ blockchain.MedianTimeSource = (*fixedTime)(nil)
