package main

import (
	"fmt"
	"os"
	"path/filepath"
	"time"

	"verif/mon"
	"verif/ref/refpow"

	"github.com/btcsuite/btcd/blockchain"
	"github.com/btcsuite/btcd/btcutil/v2"
	"github.com/btcsuite/btcd/chaincfg/v2"
	"github.com/btcsuite/btcd/chainhash/v2"
	"github.com/btcsuite/btcd/database"
	_ "github.com/btcsuite/btcd/database/ffldb"
	"github.com/btcsuite/btcd/txscript/v2"
	"github.com/btcsuite/btcd/wire/v2"
)

// e2eParams: regtest with retargeting switched on and a short difficulty period.
func e2eParams(r *mon.Rand) chaincfg.Params {
	p := chaincfg.RegressionNetParams
	p.Name = "regtest-retarget"
	for i := range p.Deployments {
		p.Deployments[i].DeploymentStarter = chaincfg.NewMedianTimeDeploymentStarter(time.Time{})
		p.Deployments[i].DeploymentEnder = chaincfg.NewMedianTimeDeploymentEnder(time.Time{})
	}
	spacing := []int64{10, 60, 600}[r.Intn(3)]
	interval := []int64{8, 8, 4, 5, 11}[r.Intn(5)]
	p.TargetTimePerBlock = time.Duration(spacing) * time.Second
	p.TargetTimespan = time.Duration(spacing*interval) * time.Second
	p.PoWNoRetargeting = false
	p.ReduceMinDifficulty = r.Bool()
	p.MinDiffReductionTime = 2 * p.TargetTimePerBlock
	p.EnforceBIP94 = r.Chance(1, 3)
	return p
}

func grind(h *wire.BlockHeader) bool {
	target := refpow.CompactToTarget(h.Bits)
	for i := 0; i < 1<<24; i++ {
		hash := h.BlockHash()
		if refpow.HashToInt(hash).Cmp(target) <= 0 {
			return true
		}
		h.Nonce++
	}
	return false
}

func coinbaseBlock(prev *wire.BlockHeader, height int32, bits uint32, ts int64, r *mon.Rand) *wire.MsgBlock {
	script, err := txscript.NewScriptBuilder().AddInt64(int64(height)).AddInt64(int64(r.Uint32())).Script()
	if err != nil {
		panic(err)
	}
	tx := wire.NewMsgTx(1)
	tx.AddTxIn(wire.NewTxIn(wire.NewOutPoint(&chainhash.Hash{}, wire.MaxPrevOutIndex), script, nil))
	tx.AddTxOut(wire.NewTxOut(refpow.BaseSubsidy>>uint(height/150), []byte{txscript.OP_TRUE}))
	blk := &wire.MsgBlock{Header: wire.BlockHeader{Version: 0x20000000, PrevBlock: prev.BlockHash(), MerkleRoot: tx.TxHash(),
		Timestamp: time.Unix(ts, 0), Bits: bits}}
	blk.AddTransaction(tx)
	return blk
}

func cpHeights(cps []chaincfg.Checkpoint) []int32 {
	var out []int32
	for _, c := range cps {
		out = append(out, c.Height)
	}
	return out
}

func e2eFamily(c *mon.Ctx) {
	c.Family("e2e", tierN(c, 60, 3000), func(k *mon.Case) {
		r := k.Rand
		p := e2eParams(r)
		rp := refParams(&p)
		n := rp.Interval()
		dir := filepath.Join(k.C.OutDir, fmt.Sprintf("e2e-%d-%d", k.C.Shard, k.Index))
		os.RemoveAll(dir)
		defer os.RemoveAll(dir)
		db, err := database.Create("ffldb", dir, p.Net)
		if err != nil {
			panic(err)
		}
		defer db.Close()
		gen := p.GenesisBlock.Header
		now := gen.Timestamp.Unix() + 20*365*86400
		chain, err := blockchain.New(&blockchain.Config{DB: db, ChainParams: &p, TimeSource: &fixedTime{now}})
		if err != nil {
			panic(err)
		}
		hs := []refpow.Header{{Height: 0, Time: gen.Timestamp.Unix(), Bits: gen.Bits}}
		prev := gen
		steps := int(3*n) + r.Intn(int(n)+1)
		desc := map[string]any{"interval": n, "spacing": rp.TargetSpacing, "minDiff": rp.AllowMinDiff, "bip94": rp.BIP94, "steps": steps}
		var log []string
		var paceSig []int
		var accepted []*wire.MsgBlock
		pace := 0
		for s := 1; s <= steps; s++ {
			tip := hs[len(hs)-1]
			height := tip.Height + 1
			if height%n == 1 || s == 1 {
				pace = r.Intn(5)
				paceSig = append(paceSig, pace)
			}
			var delta int64
			switch pace {
			case 0: // fast
				delta = 1 + r.Int63n(rp.TargetSpacing/8+1)
			case 1: // on target
				delta = rp.TargetSpacing - 2 + r.Int63n(5)
			case 2: // slow: beyond the minimum-difficulty window
				delta = 2*rp.TargetSpacing + 1 + r.Int63n(6*rp.TargetSpacing)
			case 3: // around the minimum-difficulty window edge
				delta = 2*rp.TargetSpacing - 1 + r.Int63n(3)
			default: // backwards / mixed
				delta = r.Int63n(4*rp.TargetSpacing) - rp.TargetSpacing
			}
			ts := tip.Time + delta
			if m := refpow.MTP(hs); ts <= m {
				ts = m + 1
			}
			if !refpow.TimeWarpOK(rp, height, ts, tip.Time) {
				ts = tip.Time - 600
			}
			want, ok := refpow.NextBits(rp, hs, ts)
			if !ok {
				panic("reference cannot evaluate history")
			}
			log = append(log, fmt.Sprintf("%d:%d:%08x", height, ts, want))
			desc["blocks(height:time:bits)"] = log
			k.Desc(desc)
			path, _ := rulePath(rp, hs, ts)

			// (1) the node's own answer for the next block
			got, err := chain.CalcNextRequiredDifficulty(time.Unix(ts, 0))
			if err != nil || got != want {
				k.Failf("e2e:CalcNextRequiredDifficulty:"+path, "height %d time %d: btcd %08x (err %v), protocol value %08x", height, ts, got, err, want)
			}
			k.Count("e2e.calcnext", 1)

			// (2) a header with valid proof of work for a different valid target must be refused
			if r.Chance(1, 2) {
				var cands []uint32
				for _, b := range []uint32{tip.Bits, rp.LimitBits(), want + 1, want - 1, hs[(len(hs)-1)/int(n)*int(n)].Bits} {
					if b != want && validBits(b, rp) {
						cands = append(cands, b)
					}
				}
				if len(cands) > 0 {
					b := cands[r.Intn(len(cands))]
					wrong := coinbaseBlock(&prev, int32(height), b, ts, r)
					if grind(&wrong.Header) {
						var err error
						if r.Bool() {
							_, err = chain.ProcessBlockHeader(&wrong.Header, blockchain.BFNone, false)
						} else {
							_, _, err = chain.ProcessBlock(btcutil.NewBlock(wrong), blockchain.BFNone)
						}
						if err == nil {
							k.Failf("e2e:accepts-wrong-bits:"+path, "height %d time %d: header with bits %08x accepted, protocol requires %08x", height, ts, b, want)
							return
						}
						if code, isRule := ruleCode(err); !isRule || code != blockchain.ErrUnexpectedDifficulty {
							k.Failf("e2e:wrong-bits-not-a-difficulty-rejection:"+path, "height %d bits %08x (required %08x): %v", height, b, want, err)
						}
						k.Count("e2e.reject", 1)
					}
				}
			}

			// (3) the block with the required bits must connect
			blk := coinbaseBlock(&prev, int32(height), want, ts, r)
			if !grind(&blk.Header) {
				k.Count("e2e.grind-gave-up", 1)
				return
			}
			if r.Chance(1, 3) {
				if _, err := chain.ProcessBlockHeader(&blk.Header, blockchain.BFNone, false); err != nil {
					k.Failf("e2e:rejects-required-bits:header:"+path, "height %d time %d bits %08x: %v", height, ts, want, err)
					return
				}
			}
			main, orphan, err := chain.ProcessBlock(btcutil.NewBlock(blk), blockchain.BFNone)
			if err != nil || !main || orphan {
				k.Failf("e2e:rejects-required-bits:block:"+path, "height %d time %d bits %08x: main=%v orphan=%v err=%v", height, ts, want, main, orphan, err)
				return
			}
			k.Count("e2e.accept", 1)
			k.Count("e2e.path."+path, 1)
			hs = append(hs, refpow.Header{Height: height, Time: ts, Bits: want})
			prev = blk.Header
			accepted = append(accepted, blk)
			// (4) the published best state
			bs := chain.BestSnapshot()
			if int64(bs.Height) != height || bs.Bits != want {
				k.Failf("e2e:BestSnapshot:bits", "height %d bits %08x, expected %d %08x", bs.Height, bs.Bits, height, want)
			}
			if m := refpow.MTP(hs); bs.MedianTime.Unix() != m {
				k.Failf("e2e:BestSnapshot:MedianTime", "height %d median time %d, protocol value %d", height, bs.MedianTime.Unix(), m)
			}
		}
		k.Count("e2e.chains", 1)
		// (5) the same blocks delivered to a fresh node that knows the first block of a difficulty period as a checkpoint.
		// btcd bounds the difficulty of later blocks by the easiest value reachable in the time since the checkpoint (a
		// factor 4 per started maximum-adjustment timespan). With the checkpoint at the start of a period and block times
		// that never step back afterwards the retarget rule cannot ease faster than that, so the required bits must pass;
		// other placements / time orders are replayed too but a refusal is only counted there, never judged (the estimate
		// is a heuristic outside those conditions, and refusing blocks older than the checkpoint is deliberate).
		if int64(len(accepted)) > n+1 {
			var cps []chaincfg.Checkpoint
			var cpBlocks []*wire.MsgBlock
			for h := n; h < int64(len(accepted)); h += n {
				if len(cps) == 0 || r.Bool() {
					hash := accepted[h-1].Header.BlockHash()
					cps = append(cps, chaincfg.Checkpoint{Height: int32(h), Hash: &hash})
					cpBlocks = append(cpBlocks, accepted[h-1])
					if len(cps) == 2 {
						break
					}
				}
			}
			// judged only from the first checkpoint on when time never steps back after it and moves past it
			first := int(cps[0].Height)
			judged := true
			for i := first; i < len(accepted); i++ {
				t, pt := accepted[i].Header.Timestamp.Unix(), accepted[i-1].Header.Timestamp.Unix()
				if t < pt || t <= accepted[first-1].Header.Timestamp.Unix() {
					judged = false
				}
			}
			dir2 := dir + "-cp"
			os.RemoveAll(dir2)
			defer os.RemoveAll(dir2)
			db2, err := database.Create("ffldb", dir2, p.Net)
			if err != nil {
				panic(err)
			}
			defer db2.Close()
			chain2, err := blockchain.New(&blockchain.Config{DB: db2, ChainParams: &p, TimeSource: &fixedTime{now}, Checkpoints: cps})
			if err != nil {
				panic(err)
			}
			for i, blk := range accepted {
				main, orphan, err := chain2.ProcessBlock(btcutil.NewBlock(blk), blockchain.BFNone)
				if err == nil && main && !orphan {
					continue
				}
				if code, isRule := ruleCode(err); judged && isRule && code == blockchain.ErrDifficultyTooLow {
					k.Failf("e2e:checkpointed-node-refuses-required-difficulty", "checkpoints at heights %v (period starts; block times never step back afterwards): block %d with the protocol-required bits %08x: %v",
						cpHeights(cps), i+1, blk.Header.Bits, err)
				} else {
					k.Count("e2e.checkpoint-replay.refusal-not-judged", 1)
				}
				break
			}
			if judged {
				k.Count("e2e.chains-replayed-with-checkpoints.judged", 1)
			}
			k.Count("e2e.chains-replayed-with-checkpoints", 1)
			_ = cpBlocks
		}
		k.Eval(mon.Sig("e2e", n, rp.TargetSpacing, rp.AllowMinDiff, rp.BIP94, fmt.Sprint(paceSig)), true)
		if k.Index < 2 {
			k.Sample(map[string]any{"family": "e2e", "interval": n, "minDiff": rp.AllowMinDiff, "bip94": rp.BIP94, "blocks": log})
		}
	})
	c.Require("e2e.chains", 20)
	c.Require("e2e.chains-replayed-with-checkpoints.judged", 10)
	c.Require("e2e.calcnext", 500)
	c.Require("e2e.reject", 100)
	c.Require("e2e.path.retarget", 50)
}
