// Worker for C09: PoW target / work / retarget / median-time-past / subsidy arithmetic equal the
// protocol-defined values (reference model: verif/ref/refpow).
package main

import (
	"fmt"
	"math/big"
	"os"
	"runtime/debug"
	"strconv"

	"verif/mon"
	"verif/ref/refpow"

	"github.com/btcsuite/btcd/blockchain"
)

func main() {
	mon.Main("C09", func(c *mon.Ctx) {
		c.Rule("compact.*: compact values by (exponent, sign, mantissa class) stratum [signature = stratum], bulk values " +
			"counted with EvalN; big2compact: 256-bit targets by (byte length, top-bit, sign); retarget: one header history " +
			"per case, signature = (network, rule path, timespan class, walk-back depth bucket, old-target class, " +
			"new-time class); mtp: (length, order class); pow: (target-vs-limit class, hash-vs-target class); " +
			"subsidy: one sweep 0..65*interval per parameter set; e2e: one real chain (ffldb + blockchain.New, 8-block " +
			"retarget interval) per case, signature = (rule flags, per-period timespan classes)")
		gc := 400 // many short-lived big.Int values; the live heap is tiny
		if v, err := strconv.Atoi(os.Getenv("VERIF_C09_GOGC")); err == nil {
			gc = v
		}
		debug.SetGCPercent(gc)
		stop := startProfile()
		defer stop()
		calibrate(c)
		paramsFamily(c)
		compactFamilies(c)
		big2compactFamily(c)
		retargetFamily(c)
		mtpFamily(c)
		powFamily(c)
		subsidyFamily(c)
		e2eFamily(c)
	})
}

// calibrate checks the reference model against published Bitcoin Core vectors
// (arith_uint256_tests.cpp bignum_SetCompact, pow_tests.cpp get_next_work*, validation_tests
// subsidy_limit_test) before any differential result is believed.
func calibrate(c *mon.Ctx) {
	c.Family("calibrate.refpow", 1, func(k *mon.Case) {
		type cv struct {
			in   uint32
			hex  string
			neg  bool
			back uint32
		}
		for _, v := range []cv{
			{0x00000000, "0", false, 0}, {0x00123456, "0", false, 0}, {0x01003456, "0", false, 0},
			{0x02000056, "0", false, 0}, {0x03000000, "0", false, 0}, {0x04000000, "0", false, 0},
			{0x00923456, "0", false, 0}, {0x01803456, "0", false, 0}, {0x02800056, "0", false, 0},
			{0x03800000, "0", false, 0}, {0x04800000, "0", false, 0},
			{0x01123456, "12", false, 0x01120000},
			{0x01fedcba, "7e", true, 0x01fe0000},
			{0x02123456, "1234", false, 0x02123400},
			{0x03123456, "123456", false, 0x03123456},
			{0x04123456, "12345600", false, 0x04123456},
			{0x04923456, "12345600", true, 0x04923456},
			{0x05009234, "92340000", false, 0x05009234},
			{0x20123456, "1234560000000000000000000000000000000000000000000000000000000000", false, 0x20123456},
			{0x1d00ffff, "ffff0000000000000000000000000000000000000000000000000000", false, 0x1d00ffff},
		} {
			want, _ := new(big.Int).SetString(v.hex, 16)
			if v.neg {
				want.Neg(want)
			}
			got := refpow.CompactToTarget(v.in)
			if got.Cmp(want) != 0 {
				k.Failf("calibration:refpow.CompactToTarget", "compact %08x: reference gives %x, vector says %x", v.in, got, want)
			}
			if b := refpow.TargetToCompact(got); b != v.back {
				k.Failf("calibration:refpow.TargetToCompact", "compact %08x -> %x: reference gives %08x, vector says %08x", v.in, got, b, v.back)
			}
		}
		if !refpow.Overflows(0xff123456) || refpow.Overflows(0x20123456) || !refpow.Overflows(0x23000001) ||
			refpow.Overflows(0x220000ff) || !refpow.Overflows(0x22000100) || refpow.Overflows(0x2100ffff) || !refpow.Overflows(0x21010000) {
			k.Failf("calibration:refpow.Overflows", "overflow classification differs from arith_uint256::SetCompact")
		}
		// work of the genesis target = 0x100010001
		if w := refpow.Work(0x1d00ffff); w.Cmp(big.NewInt(0x100010001)) != 0 {
			k.Failf("calibration:refpow.Work", "work(1d00ffff) = %x", w)
		}
		// pow_tests.cpp
		main := &refpow.Params{PowLimit: new(big.Int).Sub(new(big.Int).Lsh(big.NewInt(1), 224), big.NewInt(1)),
			TargetTimespan: 14 * 24 * 3600, TargetSpacing: 600, AdjustmentFactor: 4}
		for _, v := range []struct {
			firstTime, lastTime, lastHeight int64
			bits, want                      uint32
		}{
			{1261130161, 1262152739, 32255, 0x1d00ffff, 0x1d00d86a},
			{1231006505, 1233061996, 2015, 0x1d00ffff, 0x1d00ffff},
			{1279008237, 1279297671, 68543, 0x1c05a3f4, 0x1c0168fd},
			{1263163443, 1269211443, 46367, 0x1c387f6f, 0x1d00e1fd},
		} {
			ch := make([]refpow.Header, 2016)
			for i := range ch {
				ch[i] = refpow.Header{Height: v.lastHeight - 2015 + int64(i), Time: v.firstTime + int64(i), Bits: v.bits}
			}
			ch[0].Time, ch[2015].Time = v.firstTime, v.lastTime
			got, ok := refpow.NextBits(main, ch, v.lastTime+600)
			if !ok || got != v.want {
				k.Failf("calibration:refpow.NextBits", "get_next_work vector height %d: reference gives %08x, vector says %08x", v.lastHeight, got, v.want)
			}
		}
		// subsidy_limit_test: total = 2099999997690000
		var sum int64
		for e := int64(0); e <= 64; e++ {
			sum += 210000 * refpow.SubsidyAfter(e)
		}
		if sum != 2099999997690000 || refpow.Subsidy(209999, 210000) != 5000000000 || refpow.Subsidy(210000, 210000) != 2500000000 ||
			refpow.Subsidy(6929999, 210000) != 1 || refpow.Subsidy(6930000, 210000) != 0 || refpow.Subsidy(64*210000, 210000) != 0 {
			k.Failf("calibration:refpow.Subsidy", "schedule total %d", sum)
		}
		// median of 11 / fewer
		ch := []refpow.Header{{Time: 5}, {Time: 1}, {Time: 9}, {Time: 3}}
		if refpow.MTP(ch) != 5 || refpow.MTP(ch[:1]) != 5 || refpow.MTP(ch[:2]) != 5 || refpow.MTP(ch[:3]) != 5 {
			k.Failf("calibration:refpow.MTP", "median rule")
		}
		k.Count("calibrate.vectors", 1)
		k.Eval(mon.Sig("calibrate"), false)
	})
	c.Require("calibrate.vectors", 1)
}

// ---------------------------------------------------------------------------------------------
// (a) compact values

func expClass(e uint32) string {
	switch {
	case e == 0:
		return "exp0"
	case e <= 3:
		return "exp1-3"
	case e <= 32:
		return "exp4-32"
	case e <= 34:
		return "exp33-34"
	default:
		return "exp35+"
	}
}

func mantClass(m uint32) int {
	switch {
	case m == 0:
		return 0
	case m <= 0xff:
		return 1
	case m <= 0x7fff:
		return 2
	case m <= 0xffff:
		return 3
	case m < 0x400000:
		return 4
	default:
		return 5
	}
}

type compactStats struct {
	seen     map[uint32]struct{} // exponent<<8 | sign<<4 | mantClass
	n        int64
	neg      int64
	zero     int64
	overflow int64
	canon    int64
	workPos  int64
}

// evalCompact runs the three functions on one compact value and compares with the reference.
func evalCompact(k *mon.Case, st *compactStats, cv uint32) {
	e, m := cv>>24, cv&0x007fffff
	sign := (cv >> 23) & 1
	want := refpow.CompactToTarget(cv)
	got := blockchain.CompactToBig(cv)
	cls := expClass(e)
	if sign == 1 {
		cls += ":neg"
	}
	if got.Cmp(want) != 0 {
		k.Failf("compact:CompactToBig:"+cls, "CompactToBig(%08x) = %x, protocol value %x", cv, got, want)
	}
	wantBack := refpow.TargetToCompact(want)
	if fn := fastNormalise(cv); fn != wantBack {
		k.Failf("calibration:fast-compact-oracle", "compact %08x: fast oracle %08x, naive reference %08x", cv, fn, wantBack)
	}
	back := blockchain.BigToCompact(got)
	if back != wantBack {
		k.Failf("compact:BigToCompact(CompactToBig):"+cls, "BigToCompact(CompactToBig(%08x)) = %08x, protocol value %08x", cv, back, wantBack)
	}
	if wantBack == cv {
		st.canon++
	}
	ww := refpow.WorkOfTarget(want)
	gw := blockchain.CalcWork(cv)
	if gw.Cmp(ww) != 0 {
		k.Failf("compact:CalcWork:"+cls, "CalcWork(%08x) = %x, protocol value %x", cv, gw, ww)
	}
	// strict growth of cumulative work: every positive in-range target is worth at least one hash
	if want.Sign() > 0 && want.BitLen() <= 256 {
		st.workPos++
		if gw.Sign() <= 0 {
			k.Failf("compact:CalcWork:nonpositive-for-valid-target", "CalcWork(%08x) = %x for the valid target %x", cv, gw, want)
		}
	} else if gw.Sign() != 0 {
		k.Failf("compact:CalcWork:nonzero-for-invalid-target", "CalcWork(%08x) = %x for the invalid target %x", cv, gw, want)
	}
	st.n++
	switch {
	case want.Sign() < 0:
		st.neg++
	case want.Sign() == 0:
		st.zero++
	case want.BitLen() > 256:
		st.overflow++
	}
	st.seen[e<<8|sign<<4|uint32(mantClass(m))] = struct{}{}
}

// fastNormalise is the normalised compact form of the number a compact value denotes, computed on
// the fields alone (drop leading zero bytes of the mantissa, re-insert one when the top bit would
// read as the sign). It is used by the exhaustive sweep only and is cross-checked against the
// naive reference (TargetToCompact∘CompactToTarget) on every value of the stratified family.
func fastNormalise(cv uint32) uint32 {
	e, m, sign := cv>>24, cv&0x007fffff, cv&0x00800000
	if e <= 3 {
		m >>= 8 * (3 - e)
		e = 3
	}
	if m == 0 {
		return 0
	}
	for m&0xff0000 == 0 { // leading zero byte
		m <<= 8
		e--
	}
	if m&0x800000 != 0 {
		m >>= 8
		e++
	}
	return e<<24 | m | sign
}

type fastOracle struct {
	buf  []byte
	want big.Int
}

// evalCompactFast is evalCompact with an allocation-free oracle for the exhaustive sweep.
func (f *fastOracle) evalCompactFast(k *mon.Case, st *compactStats, cv uint32) {
	e, m := cv>>24, cv&0x007fffff
	sign := (cv >> 23) & 1
	// the MPI byte string: e bytes, the first three from the mantissa
	size := int(e)
	if cap(f.buf) < size+3 {
		f.buf = make([]byte, size+3)
	}
	b := f.buf[:max(size, 3)]
	for i := range b {
		b[i] = 0
	}
	b[0], b[1], b[2] = byte(m>>16), byte(m>>8), byte(m)
	f.want.SetBytes(b[:size])
	if sign == 1 && f.want.Sign() != 0 {
		f.want.Neg(&f.want)
	}
	want := &f.want
	cls := expClass(e)
	if sign == 1 {
		cls += ":neg"
	}
	got := blockchain.CompactToBig(cv)
	if got.Cmp(want) != 0 {
		k.Failf("compact:CompactToBig:"+cls, "CompactToBig(%08x) = %x, protocol value %x", cv, got, want)
	}
	wantBack := fastNormalise(cv)
	if back := blockchain.BigToCompact(got); back != wantBack {
		k.Failf("compact:BigToCompact(CompactToBig):"+cls, "BigToCompact(CompactToBig(%08x)) = %08x, protocol value %08x", cv, back, wantBack)
	}
	if wantBack == cv {
		st.canon++
	}
	gw := blockchain.CalcWork(cv)
	if want.Sign() > 0 && want.BitLen() <= 256 {
		st.workPos++
		if ww := refpow.WorkOfTarget(want); gw.Cmp(ww) != 0 {
			k.Failf("compact:CalcWork:"+cls, "CalcWork(%08x) = %x, protocol value %x", cv, gw, ww)
		}
		if gw.Sign() <= 0 {
			k.Failf("compact:CalcWork:nonpositive-for-valid-target", "CalcWork(%08x) = %x for the valid target %x", cv, gw, want)
		}
	} else if gw.Sign() != 0 {
		k.Failf("compact:CalcWork:nonzero-for-invalid-target", "CalcWork(%08x) = %x for the invalid target %x", cv, gw, want)
	}
	st.n++
	switch {
	case want.Sign() < 0:
		st.neg++
	case want.Sign() == 0:
		st.zero++
	case want.BitLen() > 256:
		st.overflow++
	}
	st.seen[e<<8|sign<<4|uint32(mantClass(m))] = struct{}{}
}

func (st *compactStats) flush(k *mon.Case, fam string) {
	for s := range st.seen {
		k.Eval(mon.Sig("compact", s), true)
	}
	if rest := st.n - int64(len(st.seen)); rest > 0 {
		k.C.EvalN(rest)
	}
	k.Count(fam+".values", st.n)
	k.Count(fam+".negative", st.neg)
	k.Count(fam+".zero", st.zero)
	k.Count(fam+".overflow256", st.overflow)
	k.Count(fam+".canonical", st.canon)
	k.Count(fam+".valid_target_work>=1", st.workPos)
}

// boundary 24-bit fields (sign bit + mantissa)
func boundaryFields() []uint32 {
	var out []uint32
	add := func(lo, hi uint32) {
		for v := lo; v <= hi && v <= 0xffffff; v++ {
			out = append(out, v)
		}
	}
	add(0, 0x1ff)
	add(0x7e00, 0x81ff)
	add(0xfe00, 0x101ff)
	add(0x3ffe00, 0x4001ff)
	add(0x7ffe00, 0x8001ff)
	add(0x807e00, 0x8081ff)
	add(0x80fe00, 0x8101ff)
	add(0xbffe00, 0xc001ff)
	add(0xfffe00, 0xffffff)
	for b := uint(0); b < 24; b++ {
		for d := -2; d <= 2; d++ {
			v := int64(1)<<b + int64(d)
			if v >= 0 && v <= 0xffffff {
				out = append(out, uint32(v))
			}
		}
	}
	return out
}

func compactFamilies(c *mon.Ctx) {
	bf := boundaryFields()
	// quick and thorough: one case per exponent, 65536 values each: every boundary field, rest random
	c.Family("compact.strat", 256, func(k *mon.Case) {
		e := uint32(k.Index)
		k.Desc(map[string]any{"exponent": e, "values": 65536})
		st := &compactStats{seen: map[uint32]struct{}{}}
		for _, f := range bf {
			evalCompact(k, st, e<<24|f)
		}
		for i := len(bf); i < 65536; i++ {
			evalCompact(k, st, e<<24|k.Rand.Uint32()&0xffffff)
		}
		st.flush(k, "compact.strat")
	})
	c.Require("compact.strat.values", 1<<24)
	c.Require("compact.strat.negative", 1000)
	c.Require("compact.strat.overflow256", 1000)
	// thorough: all 2^32 compact values, 65536 chunks of 65536 consecutive values
	if c.Thorough() {
		// VERIF_C09_ALL_STRIDE=n (default 1) runs every n-th chunk only: for a machine that cannot afford the
		// whole sweep; the run then does not claim the exhaustive sub-domain.
		stride := int64(1)
		if v, err := strconv.Atoi(os.Getenv("VERIF_C09_ALL_STRIDE")); err == nil && v > 1 {
			stride = int64(v)
		}
		fo := &fastOracle{}
		c.Family("compact.all", 65536, func(k *mon.Case) {
			if (k.Index/int64(k.C.NShards))%stride != 0 {
				return
			}
			base := uint32(k.Index) << 16
			k.Desc(map[string]any{"from": fmt.Sprintf("%08x", base), "to": fmt.Sprintf("%08x", base|0xffff)})
			st := &compactStats{seen: map[uint32]struct{}{}}
			for i := uint32(0); i < 65536; i++ {
				fo.evalCompactFast(k, st, base|i)
			}
			st.flush(k, "compact.all")
		})
		if stride == 1 {
			c.Require("compact.all.values", 1<<32)
			c.Exhaustive("compact.all: every 32-bit compact value through CompactToBig, BigToCompact∘CompactToBig and CalcWork")
		} else {
			c.Require("compact.all.values", (1<<32)/(2*stride))
			c.Note(fmt.Sprintf("compact.all ran with VERIF_C09_ALL_STRIDE=%d: about 1/%d of the 65536 chunks, not the whole 2^32 domain", stride, stride))
		}
	}
}
