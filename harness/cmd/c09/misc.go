package main

import (
	"fmt"
	"math"
	"math/big"
	"time"

	"verif/mon"
	"verif/ref/refpow"

	"github.com/btcsuite/btcd/blockchain"
	"github.com/btcsuite/btcd/btcutil/v2"
	"github.com/btcsuite/btcd/chaincfg/v2"
	"github.com/btcsuite/btcd/chainhash/v2"
	"github.com/btcsuite/btcd/wire/v2"
)

// ---------------------------------------------------------------------------------------------
// (b) BigToCompact on 256-bit targets, HashToBig

func randTarget(r *mon.Rand) (*big.Int, string) {
	one := big.NewInt(1)
	switch r.Intn(8) {
	case 0: // 2^k + d
		k := uint(r.Intn(257))
		x := new(big.Int).Lsh(one, k)
		x.Add(x, big.NewInt(int64(r.Intn(5)-2)))
		return x, "pow2"
	case 1: // byte-aligned with chosen leading bytes
		n := r.Intn(33)
		b := r.Bytes(n)
		if n > 0 {
			b[0] = []byte{0x80, 0x7f, 0xff, 0x01, 0x00}[r.Intn(5)]
		}
		if n > 1 && r.Bool() {
			b[1] = []byte{0x00, 0xff, 0x80, 0x7f}[r.Intn(4)]
		}
		return new(big.Int).SetBytes(b), "leading-bytes"
	case 2: // three significant bytes then zeros / ones
		n := 3 + r.Intn(30)
		b := make([]byte, n)
		copy(b, r.Bytes(3))
		if r.Bool() {
			for i := 3; i < n; i++ {
				b[i] = 0xff
			}
		}
		return new(big.Int).SetBytes(b), "three-significant"
	case 3: // small
		return big.NewInt(int64(r.Intn(1 << 25))), "small"
	case 4: // 2^256 - small
		x := new(big.Int).Lsh(one, 256)
		return x.Sub(x, big.NewInt(int64(1+r.Intn(1000)))), "top"
	default:
		n := r.Intn(33)
		return new(big.Int).SetBytes(r.Bytes(n)), "random"
	}
}

func big2compactFamily(c *mon.Ctx) {
	const per = 256
	c.Family("big2compact", tierN(c, 800, 150000), func(k *mon.Case) {
		r := k.Rand
		k.Desc(map[string]any{"values": per})
		seen := map[uint64]struct{}{}
		for i := 0; i < per; i++ {
			x, gen := randTarget(r)
			neg := r.Chance(1, 8)
			if x.Sign() < 0 {
				x.Neg(x)
			}
			if neg {
				// Negative numbers are outside the property's domain (targets are unsigned); the sign bit is
				// exercised on magnitudes the compact form represents exactly (as bitcoind's sign handling is
				// specified), see the worker report for what happens on other negative numbers.
				x = refpow.CompactToTarget(refpow.TargetToCompact(x))
				x.Neg(x)
			}
			want := refpow.TargetToCompact(x)
			got := blockchain.BigToCompact(x)
			cls := fmt.Sprintf("len%d", min(len(x.Bytes()), 4))
			if neg {
				cls += ":neg"
			}
			if got != want {
				k.Failf("big2compact:BigToCompact:"+cls, "BigToCompact(%x) = %08x, protocol value %08x", x, got, want)
			}
			// definitional properties (independent of the reference encoder): the compact form keeps the
			// top three bytes, so expanding it gives the number with the lower bytes cleared.
			back := blockchain.CompactToBig(got)
			if x.Sign() >= 0 {
				if back.Cmp(x) > 0 {
					k.Failf("big2compact:roundtrip:exceeds:"+cls, "CompactToBig(BigToCompact(%x)) = %x > input", x, back)
				}
				diff := new(big.Int).Sub(x, back)
				if nb := len(x.Bytes()); nb >= 3 && diff.BitLen() > 8*(nb-2) || nb <= 2 && diff.Sign() != 0 {
					k.Failf("big2compact:roundtrip:precision:"+cls, "CompactToBig(BigToCompact(%x)) = %x loses more than the low bytes", x, back)
				}
				if blockchain.BigToCompact(back) != got {
					k.Failf("big2compact:roundtrip:not-fixpoint:"+cls, "BigToCompact(%x) = %08x is not a fixpoint", x, got)
				}
			}
			top := 0
			if b := x.Bytes(); len(b) > 0 && b[0]&0x80 != 0 {
				top = 1
			}
			seen[mon.Sig("b2c", len(x.Bytes()), top, neg, gen)] = struct{}{}
		}
		// HashToBig
		for i := 0; i < 16; i++ {
			var h chainhash.Hash
			r.Fill(h[:])
			switch r.Intn(4) {
			case 0:
				for j := r.Intn(32); j < 32; j++ {
					h[j] = 0
				}
			case 1:
				for j := 0; j < r.Intn(32); j++ {
					h[j] = 0
				}
			}
			if got, want := blockchain.HashToBig(&h), refpow.HashToInt(h); got.Cmp(want) != 0 {
				k.Failf("big2compact:HashToBig", "HashToBig(%x) = %x, protocol value %x", h[:], got, want)
			}
			k.Count("hashtobig.values", 1)
		}
		for s := range seen {
			k.Eval(s, true)
		}
		k.C.EvalN(int64(per - len(seen)))
		k.Count("big2compact.values", per)
	})
	c.Require("big2compact.values", 100000)
}

// ---------------------------------------------------------------------------------------------
// (d) median time past, timestamp rules

func mtpFamily(c *mon.Ctx) {
	c.Family("mtp", tierN(c, 6000, 600000), func(k *mon.Case) {
		r := k.Rand
		n := 1 + r.Intn(30)
		order := r.Intn(6)
		hs := make([]refpow.Header, n)
		t := int64(1400000000) + r.Int63n(100000000)
		for i := range hs {
			switch order {
			case 0: // increasing
				t += 1 + r.Int63n(1200)
			case 1: // decreasing
				t -= 1 + r.Int63n(1200)
			case 2: // constant runs
				if r.Chance(1, 3) {
					t += r.Int63n(3)
				}
			case 3: // random walk
				t += r.Int63n(7201) - 3600
			case 4: // wild
				t = int64(r.Uint32())
			default: // two values
				t = 1500000000 + int64(r.Intn(2))
			}
			if t < 0 {
				t = 0
			}
			hs[i] = refpow.Header{Height: int64(i), Time: t, Bits: 0x207fffff}
		}
		k.Desc(map[string]any{"times": timesOf(hs)})
		hc := newHChain(hs)
		want := refpow.MTP(hs)
		got := blockchain.CalcPastMedianTime(hc.tip())
		if got.Unix() != want || got.Nanosecond() != 0 {
			k.Failf(fmt.Sprintf("mtp:CalcPastMedianTime:len%s", lenClass(n)), "CalcPastMedianTime = %d, protocol value %d (chain length %d)", got.Unix(), want, n)
		}
		k.Count("mtp.calc", 1)
		// every prefix too (the first 11 blocks of a chain use fewer timestamps)
		if n > 1 {
			j := r.Intn(n - 1)
			if g, w := blockchain.CalcPastMedianTime(&hc.nodes[j]).Unix(), refpow.MTP(hs[:j+1]); g != w {
				k.Failf(fmt.Sprintf("mtp:CalcPastMedianTime:len%s", lenClass(j+1)), "CalcPastMedianTime(prefix %d) = %d, protocol value %d", j+1, g, w)
			}
			k.Count("mtp.calc", 1)
		}
		// contextual timestamp rule: accept <=> ts > MTP (regtest: no retarget, bits fixed)
		p := chaincfg.RegressionNetParams
		cc := &cctx{p: &p}
		for _, d := range []int64{-1 - r.Int63n(1000), -1, 0, 1, 1 + r.Int63n(1000)} {
			ts := want + d
			if ts < 0 || ts > math.MaxUint32 {
				continue
			}
			err := blockchain.CheckBlockHeaderContext(mkHeader(p.PowLimitBits, ts, r), hc.tip(), blockchain.BFNone, cc, true)
			if (err == nil) != (d > 0) {
				k.Failf(fmt.Sprintf("mtp:CheckBlockHeaderContext:ts=mtp%+d", sign(d)), "timestamp %d with median-time-past %d: err=%v", ts, want, err)
			} else if err != nil {
				if code, ok := ruleCode(err); !ok || code != blockchain.ErrTimeTooOld {
					k.Failf("mtp:CheckBlockHeaderContext:old-timestamp-not-a-time-rejection", "timestamp %d with median-time-past %d rejected with %v", ts, want, err)
				}
			}
			k.Count(fmt.Sprintf("mtp.ctx.ts=mtp%+d", sign(d)), 1)
		}
		// context-free rule: accept <=> whole seconds and ts <= now + 2h
		now := int64(1400000000) + r.Int63n(100000000)
		fts := &fixedTime{now}
		for _, d := range []int64{-r.Int63n(100000), -1, 0, 1, 1 + r.Int63n(100000)} {
			ts := now + 7200 + d
			h := mkHeader(p.PowLimitBits, ts, r)
			nanos := 0
			if r.Chance(1, 4) {
				nanos = 1 + r.Intn(999999999)
				h.Timestamp = time.Unix(ts, int64(nanos))
			}
			err := blockchain.CheckBlockHeaderSanity(h, p.PowLimit, fts, blockchain.BFNoPoWCheck)
			wantOK := d <= 0 && nanos == 0
			if (err == nil) != wantOK {
				k.Failf(fmt.Sprintf("mtp:CheckBlockHeaderSanity:ts=now+2h%+d:nanos=%v", sign(d), nanos != 0), "timestamp %d.%09d with adjusted time %d: err=%v", ts, nanos, now, err)
			}
			k.Count(fmt.Sprintf("mtp.sanity.ts=now+2h%+d", sign(d)), 1)
		}
		// BIP94 time-warp rule on a testnet4-like 4-block interval: accept <=> ts >= prev - 600 on period starts
		p4 := chaincfg.TestNet4Params
		p4.TargetTimespan = 4 * p4.TargetTimePerBlock
		rp4 := refParams(&p4)
		if n >= 4 {
			m := n - n%4 + r.Intn(2)*3 // new block at a period start (tip height ≡ 3) or not
			if m > n {
				m -= 4
			}
			if m < 1 {
				m = n
			}
			sub := append([]refpow.Header{}, hs[:m]...)
			for i := range sub { // a valid testnet4 history: recompute bits by the rule
				if i == 0 {
					sub[i].Bits = p4.PowLimitBits
					continue
				}
				sub[i].Bits, _ = refpow.NextBits(rp4, sub[:i], sub[i].Time)
			}
			hc4 := newHChain(sub)
			tip := sub[m-1]
			mtp := refpow.MTP(sub)
			for _, d := range []int64{-601 - r.Int63n(5000), -601, -600, -599, 1} {
				ts := tip.Time + d
				if ts < 0 || ts > math.MaxUint32 {
					continue
				}
				bits, _ := refpow.NextBits(rp4, sub, ts)
				err := blockchain.CheckBlockHeaderContext(mkHeader(bits, ts, r), hc4.tip(), blockchain.BFNone, &cctx{p: &p4}, true)
				wantOK := ts > mtp && refpow.TimeWarpOK(rp4, tip.Height+1, ts, tip.Time)
				if (err == nil) != wantOK {
					k.Failf(fmt.Sprintf("mtp:bip94-timewarp:periodstart=%v:ts=prev-600%+d", (tip.Height+1)%4 == 0, sign(d+600)),
						"height %d timestamp %d prev %d median-time-past %d: err=%v", tip.Height+1, ts, tip.Time, mtp, err)
				}
				if (tip.Height+1)%4 == 0 && ts > mtp {
					k.Count(fmt.Sprintf("mtp.timewarp.ts=prev-600%+d", sign(d+600)), 1)
				}
			}
		}
		k.Eval(mon.Sig("mtp", n, order), true)
	})
	c.Require("mtp.calc", 1000)
	c.Require("mtp.ctx.ts=mtp+0", 1000)
	c.Require("mtp.ctx.ts=mtp+1", 1000)
	c.Require("mtp.sanity.ts=now+2h+0", 1000)
	c.Require("mtp.sanity.ts=now+2h+1", 1000)
	c.Require("mtp.timewarp.ts=prev-600-1", 50)
	c.Require("mtp.timewarp.ts=prev-600+0", 50)
}

func timesOf(hs []refpow.Header) []int64 {
	out := make([]int64, len(hs))
	for i, h := range hs {
		out[i] = h.Time
	}
	return out
}

func sign(d int64) int {
	switch {
	case d < 0:
		return -1
	case d > 0:
		return 1
	}
	return 0
}

func lenClass(n int) string {
	switch {
	case n < 11 && n%2 == 0:
		return "<11even"
	case n < 11:
		return "<11odd"
	case n == 11:
		return "=11"
	}
	return ">11"
}

// ---------------------------------------------------------------------------------------------
// (e) proof-of-work check

func powFamily(c *mon.Ctx) {
	two256m1 := new(big.Int).Sub(new(big.Int).Lsh(big.NewInt(1), 256), big.NewInt(1))
	c.Family("pow", tierN(c, 6000, 200000), func(k *mon.Case) {
		r := k.Rand
		hdr := mkHeader(0, int64(1400000000)+r.Int63n(100000000), r)
		// choose the bits
		mode := r.Intn(10)
		var bits uint32
		adj := 0 // number of leading hash bytes that must match the target's
		switch mode {
		case 0: // arbitrary compact value
			bits = r.Uint32()
		case 1: // negative / zero / overflow corner values
			bits = []uint32{0, 0x00800000, 0x01800001, 0x03000000, 0x04800001, 0x1d80ffff, 0x207fffff, 0x20ffffff, 0x21000100,
				0x2100ffff, 0x21010000, 0x220000ff, 0x22000100, 0x23000001, 0xff7fffff, 0x01000001, 0x02000100}[r.Intn(17)]
		case 2, 3, 4: // high target, hash passes about half the time
			bits = 0x20000000 | uint32(1+r.Intn(0x7fffff))
		case 5, 6, 7: // one leading byte adjacent
			bits = 0x20000000 | uint32(1+r.Intn(0x7e))<<16
			adj = 1
		default: // two leading bytes adjacent
			bits = 0x20000000 | uint32(0x0100+r.Intn(0x7e00))<<8
			adj = 2
			if !k.C.Thorough() && r.Chance(2, 3) {
				adj = 1
				bits &= 0xffff0000
				if bits&0xffffff == 0 {
					bits |= 0x010000
				}
			}
		}
		hdr.Bits = bits
		target := refpow.CompactToTarget(bits)
		// grind the nonce until the hash is adjacent to the target (top bytes within ±1)
		var hash chainhash.Hash
		tries := 0
		if adj > 0 {
			tb := make([]byte, 32)
			target.FillBytes(tb)
			want := int(tb[0])
			if adj == 2 {
				want = int(tb[0])<<8 | int(tb[1])
			}
			delta := r.Intn(3) - 1
			for ; tries < 1<<22; tries++ {
				hdr.Nonce++
				hash = hdr.BlockHash()
				got := int(hash[31])
				if adj == 2 {
					got = int(hash[31])<<8 | int(hash[30])
				}
				if got == want+delta {
					break
				}
			}
		} else {
			hash = hdr.BlockHash()
		}
		// the limit: below / at / above the target, or a network limit
		var limit *big.Int
		lmode := r.Intn(8)
		switch lmode {
		case 0:
			limit = new(big.Int).Sub(target, big.NewInt(1))
		case 1:
			limit = new(big.Int).Set(target)
		case 2:
			limit = new(big.Int).Add(target, big.NewInt(1))
		case 3:
			limit = chaincfg.MainNetParams.PowLimit
		case 4:
			limit = chaincfg.SigNetParams.PowLimit
		case 5:
			limit = two256m1
		default:
			limit = chaincfg.RegressionNetParams.PowLimit
		}
		if limit.Sign() <= 0 || limit.Cmp(two256m1) > 0 {
			limit = two256m1
			lmode = 5
		}
		k.Desc(map[string]any{"bits": fmt.Sprintf("%08x", bits), "hash": hash.String(), "limit": fmt.Sprintf("%x", limit), "nonce": hdr.Nonce})
		want := refpow.CheckPoW(hash, bits, limit)
		blk := btcutil.NewBlock(&wire.MsgBlock{Header: *hdr})
		err := blockchain.CheckProofOfWork(blk, limit)
		tcls := "valid"
		switch {
		case target.Sign() < 0:
			tcls = "negative"
		case target.Sign() == 0:
			tcls = "zero"
		case target.BitLen() > 256:
			tcls = "overflow"
		case target.Cmp(limit) > 0:
			tcls = "above-limit"
		case target.Cmp(limit) == 0:
			tcls = "at-limit"
		}
		hcls := "hash<=target"
		if refpow.HashToInt(hash).Cmp(target) > 0 {
			hcls = "hash>target"
		}
		if (err == nil) != want {
			k.Failf("pow:CheckProofOfWork:"+tcls+":"+hcls, "bits %08x target %x limit %x hash %s: protocol verdict accept=%v, btcd err=%v", bits, target, limit, hash, want, err)
		}
		// the same through the header sanity entry point, and the range check alone with BFNoPoWCheck
		fts := &fixedTime{hdr.Timestamp.Unix()}
		if err2 := blockchain.CheckBlockHeaderSanity(hdr, limit, fts, blockchain.BFNone); (err2 == nil) != want {
			k.Failf("pow:CheckBlockHeaderSanity:"+tcls+":"+hcls, "bits %08x limit %x hash %s: protocol verdict accept=%v, btcd err=%v", bits, limit, hash, want, err2)
		}
		rangeOK := tcls == "valid" || tcls == "at-limit"
		if err3 := blockchain.CheckBlockHeaderSanity(hdr, limit, fts, blockchain.BFNoPoWCheck); (err3 == nil) != rangeOK {
			k.Failf("pow:CheckBlockHeaderSanity(BFNoPoWCheck):"+tcls, "bits %08x limit %x: range verdict accept=%v, btcd err=%v", bits, limit, rangeOK, err3)
		}
		k.Count("pow.target."+tcls, 1)
		k.Count("pow."+hcls, 1)
		if want {
			k.Count("pow.accept", 1)
		}
		if adj > 0 {
			k.Count(fmt.Sprintf("pow.adjacent%d", adj), 1)
			k.Count("pow.grind.hashes", int64(tries))
		}
		k.Eval(mon.Sig("pow", tcls, hcls, adj, lmode, bits>>24), true)
	})
	c.Require("pow.accept", 500)
	c.Require("pow.adjacent1", 500)
	c.Require("pow.adjacent2", 100)
	c.Require("pow.target.at-limit", 100)
	c.Require("pow.target.above-limit", 100)
	c.Require("pow.target.negative", 50)
	c.Require("pow.target.overflow", 50)
}

// ---------------------------------------------------------------------------------------------
// (f) subsidy schedule

type subsidySet struct {
	name     string
	interval int32
}

func subsidyFamily(c *mon.Ctx) {
	sets := []subsidySet{}
	for _, nd := range stdNets {
		p := nd.p()
		sets = append(sets, subsidySet{nd.name, p.SubsidyReductionInterval})
	}
	for _, iv := range []int32{1, 2, 3, 7, 150, 1000, 65537, 1000003, 33554432 /* 64*iv overflows int32 */, math.MaxInt32} {
		sets = append(sets, subsidySet{fmt.Sprintf("synthetic-%d", iv), iv})
	}
	c.Family("subsidy", int64(len(sets)), func(k *mon.Case) {
		s := sets[k.Index]
		k.Desc(map[string]any{"set": s.name, "interval": s.interval})
		var p chaincfg.Params
		std := k.Index < int64(len(stdNets))
		if std {
			p = stdNets[k.Index].p()
		} else {
			p = chaincfg.RegressionNetParams
			p.SubsidyReductionInterval = s.interval
		}
		iv := int64(s.interval)
		last := 64*iv + iv
		if last > math.MaxInt32 {
			last = math.MaxInt32
		}
		// heights in order; the reference subsidy is kept per epoch and halved naively at each epoch start
		var total, refTotal int64
		epoch, inEpoch := int64(0), int64(0)
		refSub := refpow.SubsidyAfter(0)
		var calls int64
		bad := false
		// the very large synthetic intervals are sampled densely around epoch edges instead of swept
		sweep := last <= 14000000
		step := func(h int64) {
			got := blockchain.CalcBlockSubsidy(int32(h), &p)
			calls++
			if got != refSub && !bad {
				bad = true
				k.Failf(fmt.Sprintf("subsidy:CalcBlockSubsidy:%s:epoch%d", setClass(s.name), min(epoch, 65)), "height %d interval %d: %d, protocol value %d", h, iv, got, refSub)
			}
			total += got
			refTotal += refSub
		}
		if sweep {
			for h := int64(0); h <= last; h++ {
				if inEpoch == iv {
					epoch++
					inEpoch = 0
					refSub /= 2
				}
				inEpoch++
				step(h)
			}
			if total > refpow.MaxMoney || total != refTotal {
				k.Failf("subsidy:total:"+setClass(s.name), "sum of subsidies over heights 0..%d = %d (reference %d, cap %d)", last, total, refTotal, refpow.MaxMoney)
			}
			if iv == 210000 && total != 2099999997690000 {
				k.Failf("subsidy:total:"+setClass(s.name), "sum of subsidies = %d, protocol value 2099999997690000", total)
			}
			k.Count("subsidy.sweeps", 1)
			k.C.Exhaustive(fmt.Sprintf("subsidy: every height 0..%d of parameter set %s", last, s.name))
		} else {
			for e := int64(0); e*iv <= last; e++ {
				epoch = e
				refSub = refpow.SubsidyAfter(e)
				for _, h := range []int64{e * iv, e*iv + 1, e*iv + iv - 1, e*iv + r63(k.Rand, iv)} {
					if h >= 0 && h <= last && h/iv == e {
						step(h)
					}
				}
			}
		}
		// random heights over the whole int32 range
		for i := 0; i < 20000; i++ {
			h := int64(k.Rand.Uint32() >> 1)
			epoch = h / iv
			refSub = refpow.Subsidy(h, iv)
			step(h)
		}
		k.Count("subsidy.calls", calls)
		k.Count("subsidy.sets", 1)
		k.Eval(mon.Sig("subsidy", s.name), true)
		k.C.EvalN(calls - 1)
		k.Sample(map[string]any{"family": "subsidy", "set": s.name, "interval": iv, "heights": calls, "total": total})
	})
	c.Require("subsidy.sets", int64(len(sets)))
	c.Require("subsidy.sweeps", int64(len(stdNets)))
	c.Require("subsidy.calls", 13650001)
}

func r63(r *mon.Rand, n int64) int64 { return r.Int63n(n) }

func setClass(name string) string {
	if len(name) > 9 && name[:9] == "synthetic" {
		return "synthetic"
	}
	return name
}
