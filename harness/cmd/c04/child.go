package main

import (
	"bytes"
	"encoding/json"
	"fmt"
	"os"
	"path/filepath"

	"verif/gen/crashkit"
	"verif/node"
	"verif/ref/refchain"

	"github.com/btcsuite/btcd/blockchain"
	"github.com/btcsuite/btcd/btcutil/v2"
	"github.com/btcsuite/btcd/chainhash/v2"
	"github.com/btcsuite/btcd/database"
	"github.com/btcsuite/btcd/wire/v2"
)

// Result is what a recovery child reports to the parent.
type Result struct {
	Violations []RV   `json:"violations"`
	Tip        string `json:"tip"`
	TipIndex   int    `json:"tip_index"`
	Done       bool   `json:"done"`
	Events     int    `json:"events"`
}
type RV struct {
	Key    string `json:"key"`
	Detail string `json:"detail"`
}

func dbDir(plan *crashkit.Plan) string { return filepath.Join(plan.Dir, "db") }

func openNode(plan *crashkit.Plan, w *Workload, rec *crashkit.Recorder) (*node.Node, error) {
	dir := dbDir(plan)
	if plan.Role == "recover" && w.RecoverUtxoCache != 0 {
		w.Cfg.UtxoCache = w.RecoverUtxoCache
	}
	cb := func(e node.IOEvent) error {
		return rec.Event(crashkit.Event{Kind: e.Kind, FileNum: e.FileNum, Off: e.Off, N: e.N})
	}
	cfg := node.Config{Params: node.NewParams(w.Family), UtxoCacheMaxSize: w.Cfg.UtxoCache, Prune: w.Cfg.Prune,
		FFLDB: &node.FFLDBOpts{Cb: cb, MaxBlockFileSize: w.Cfg.MaxBlockFileSize, CacheBytes: w.Cfg.LdbCacheBytes, FlushSecs: w.Cfg.FlushSecs}}
	return node.Open(dir, cfg, node.NewClock(w.Clock))
}

func blockFile(plan *crashkit.Plan) func(uint32) string {
	return func(n uint32) string { return filepath.Join(dbDir(plan), fmt.Sprintf("%09d.fdb", n)) }
}

// registerExisting tells the recorder about block files that exist already (durable up to their size).
func registerExisting(plan *crashkit.Plan, rec *crashkit.Recorder) {
	// (with pruning the low-numbered files are gone: scan the directory instead of counting up from 0)
	files, _ := filepath.Glob(filepath.Join(dbDir(plan), "*.fdb"))
	for _, f := range files {
		var n uint32
		if _, err := fmt.Sscanf(filepath.Base(f), "%09d.fdb", &n); err != nil {
			continue
		}
		if st, err := os.Stat(f); err == nil {
			rec.KnownFile(n, st.Size())
		}
	}
}

func doOp(n *node.Node, blocks []*refchain.Block, op WOp) error {
	switch op.Kind {
	case "blk":
		_, _, err := n.Chain.ProcessBlock(btcutil.NewBlock(blocks[op.Block].Msg), blockchain.BFNone)
		return err
	case "flush":
		return n.Chain.FlushUtxoCache(blockchain.FlushMode(op.Arg))
	case "inv":
		return n.Chain.InvalidateBlock(&blocks[op.Block].Hash)
	case "rec":
		return n.Chain.ReconsiderBlock(&blocks[op.Block].Hash)
	}
	return fmt.Errorf("unknown op %q", op.Kind)
}

// childWorkload runs the operations; the recorder kills the process at the planned event.
func childWorkload(plan *crashkit.Plan) int {
	w, err := loadWorkload(filepath.Join(plan.Dir, "workload.json"))
	if err != nil {
		fmt.Println("load:", err)
		return 3
	}
	_, blocks, err := w.tree()
	if err != nil {
		fmt.Println("tree:", err)
		return 3
	}
	rec, err := crashkit.NewRecorder(plan, blockFile(plan))
	if err != nil {
		fmt.Println("recorder:", err)
		return 3
	}
	n, err := openNode(plan, w, rec)
	if err != nil {
		fmt.Println("open:", err)
		return 4
	}
	for i, op := range w.Ops {
		rec.Op("B %d %s %d", i, op.Kind, op.Block)
		err := doOp(n, blocks, op)
		// the acknowledgement carries this process's own tip: equal-work ties may legitimately be resolved
		// differently from the reference run (candidate order after an invalidation is map order)
		tip := n.Chain.BestSnapshot().Hash
		if err != nil {
			rec.Op("A %d err %s", i, tip)
		} else {
			rec.Op("A %d ok %s", i, tip)
		}
	}
	rec.Op("CLOSE")
	if err := n.Close(); err != nil {
		fmt.Println("close:", err)
		return 5
	}
	rec.Op("CLOSED")
	return 0
}

// childRecover reopens the database after a crash, checks the recovery clauses, replays the remaining
// operations and checks convergence. With plan.KillAt > 0 it is itself killed during recovery.
func childRecover(plan *crashkit.Plan) int {
	res := &Result{}
	fail := func(key, format string, a ...any) {
		res.Violations = append(res.Violations, RV{Key: key, Detail: fmt.Sprintf(format, a...)})
	}
	write := func() {
		b, _ := json.Marshal(res)
		os.WriteFile(filepath.Join(plan.Dir, "result.json"), b, 0o644)
	}
	w, err := loadWorkload(filepath.Join(plan.Dir, "workload.json"))
	if err != nil {
		fmt.Println("load:", err)
		return 3
	}
	tree, blocks, err := w.tree()
	if err != nil {
		fmt.Println("tree:", err)
		return 3
	}
	rec, err := crashkit.NewRecorder(plan, blockFile(plan))
	if err != nil {
		fmt.Println("recorder:", err)
		return 3
	}
	registerExisting(plan, rec)
	rec.Op("RECOVER")
	defer func() {
		if p := recover(); p != nil {
			fail("recovery:panic", "panic during recovery: %v", p)
			write()
			os.Exit(0)
		}
	}()
	n, err := openNode(plan, w, rec)
	if err != nil {
		fail("recovery:open-failed", "reopening the database / chain after the crash failed: %v", err)
		write()
		return 0
	}
	rec.Op("OPENED")
	// 1. the recovered tip is one of the tips that were active before (or became active in the interrupted op)
	allowed := map[*refchain.Block]bool{tree.Genesis: true}
	tipOf := func(i int) *refchain.Block {
		if i < 0 {
			return tree.Genesis
		}
		return blocks[i]
	}
	upto := w.Acked
	if w.InProgress >= 0 {
		upto = w.InProgress + 1
	}
	prev := tree.Genesis
	for i := 0; i < upto && i < len(w.TipAfter); i++ {
		cur := tipOf(w.TipAfter[i])
		if i < len(w.ChildTips) && w.ChildTips[i] != "" {
			// what the crashed process itself reported after this operation
			if h, err := chainhash.NewHashFromStr(w.ChildTips[i]); err == nil && tree.ByHash[*h] != nil {
				cur = tree.ByHash[*h]
			}
		} else if i >= len(w.ChildTips) {
			// the interrupted operation: besides the reference run's result, every valid delivered block with the
			// same work is a possible destination (tie)
			for _, b := range tree.All {
				if b != cur && b.ChainValid() && b.CumWork.Cmp(cur.CumWork) == 0 {
					f := refchain.Fork(prev, b)
					for x := b; x != nil && x != f; x = x.Parent {
						allowed[x] = true
					}
				}
			}
		}
		// a reorganisation passes through every block between the old tip, the fork point and the new tip
		f := refchain.Fork(prev, cur)
		for x := prev; x != nil && x != f; x = x.Parent {
			allowed[x] = true
		}
		for x := cur; x != nil && x != f; x = x.Parent {
			allowed[x] = true
		}
		allowed[f] = true
		prev = cur
	}
	snap := n.Chain.BestSnapshot()
	tip := tree.ByHash[snap.Hash]
	res.Tip = snap.Hash.String()
	if tip == nil {
		fail("recovery:unknown-tip", "recovered tip %v is not a block of the workload", snap.Hash)
		write()
		return 0
	}
	for i, b := range blocks {
		if b == tip {
			res.TipIndex = i
		}
	}
	if !allowed[tip] {
		fail("recovery:tip-never-active", "recovered tip %s (height %d) was never the active tip before the crash (acked ops %d, in-progress %d)", tip.Name, tip.Height, w.Acked, w.InProgress)
	}
	if !tip.ChainValid() {
		fail("recovery:invalid-tip", "recovered tip %s is on an invalid chain", tip.Name)
		write()
		return 0
	}
	// 2. the utxo set is the fold of the recovered chain
	checkUtxo := func(where string, t *refchain.Block) {
		set := t.Utxo()
		for _, b := range tree.All {
			for _, tx := range b.Msg.Transactions {
				h := tx.TxHash()
				for i := range tx.TxOut {
					op := wire.OutPoint{Hash: h, Index: uint32(i)}
					e, err := n.Chain.FetchUtxoEntry(op)
					if err != nil {
						fail("recovery:utxo-fetch-error:"+where, "FetchUtxoEntry(%v): %v", op, err)
						return
					}
					m, ok := set[op]
					present := e != nil && !e.IsSpent()
					if present != ok {
						fail("recovery:utxo-presence:"+where, "%s: outpoint %v (created in %s) present=%v, fold of chain ending at %s says %v", where, op, b.Name, present, t.Name, ok)
						return
					}
					if ok && (e.Amount() != m.Amount || string(e.PkScript()) != string(m.PkScript) || e.BlockHeight() != m.Height || e.IsCoinBase() != m.Coinbase) {
						fail("recovery:utxo-fields:"+where, "%s: outpoint %v differs from the fold", where, op)
						return
					}
				}
			}
		}
	}
	checkUtxo("after-reopen", tip)
	// views agree
	for h, b := range tip.Path() {
		hh, err := n.Chain.BlockHashByHeight(int32(h))
		if err != nil || *hh != b.Hash {
			fail("recovery:height-index", "BlockHashByHeight(%d) after recovery: %v %v", h, hh, err)
			break
		}
		if _, err := n.Chain.BlockByHash(&b.Hash); err != nil && w.Cfg.Prune == 0 {
			// (with pruning old blocks may legitimately be gone; the store-level check below applies instead)
			fail("recovery:active-block-unreadable", "active chain block %s cannot be read after recovery: %v", b.Name, err)
			break
		}
	}
	// the store never references data it does not have: every block the store says it has is served byte-identical
	// (with pruning this is what remains of "readable": a block is either gone together with its index row or intact)
	verr := n.DB.View(func(dbTx database.Tx) error {
		for _, b := range blocks {
			has, err := dbTx.HasBlock(&b.Hash)
			if err != nil || !has {
				continue
			}
			raw, err := dbTx.FetchBlock(&b.Hash)
			if err != nil {
				fail("recovery:store-has-block-but-cannot-serve-it", "the block store reports block %s as present but FetchBlock fails: %v", b.Name, err)
				return nil
			}
			var buf bytes.Buffer
			b.Msg.Serialize(&buf)
			if !bytes.Equal(raw, buf.Bytes()) {
				fail("recovery:stored-block-bytes-differ", "block %s is served with different bytes after recovery", b.Name)
				return nil
			}
		}
		return nil
	})
	if verr != nil {
		fail("recovery:store-view-failed", "database view after recovery: %v", verr)
	}
	// 3. every block acknowledged before the last durable commit is still known
	for _, bi := range w.Durable {
		b := blocks[bi]
		have, err := n.Chain.HaveBlock(&b.Hash)
		if err != nil || !have {
			fail("recovery:acked-block-lost", "block %s was acknowledged before the last completed database commit but is unknown after recovery (err %v)", b.Name, err)
			break
		}
		if _, err := n.Chain.BlockByHash(&b.Hash); err != nil {
			// BlockByHash only serves main-chain blocks in btcd; side-chain blocks are checked through HaveBlock
			if tip.Ancestor(b.Height) == b && w.Cfg.Prune == 0 {
				fail("recovery:acked-block-unreadable", "acknowledged active block %s unreadable: %v", b.Name, err)
				break
			}
		}
	}
	if len(res.Violations) > 0 {
		write()
		return 0
	}
	rec.Op("CHECKED")
	// 4. feeding the remaining operations converges to the uninterrupted final state
	start := w.Acked
	if w.InProgress >= 0 {
		start = w.InProgress
	}
	// blocks delivered in ops before `start` whose storage did not survive must be offered again: re-deliver every
	// earlier block that is unknown (a peer would do the same after seeing our locator)
	for i := 0; i < start; i++ {
		op := w.Ops[i]
		if op.Kind == "blk" {
			// ... and a delivery that was acknowledged after the last completed commit is repeated as well: the block
			// may be stored while what the delivery did to the chain (connecting it, a reorganisation) was not durable
			if have, _ := n.Chain.HaveBlock(&blocks[op.Block].Hash); !have || i >= w.RedoFrom {
				err := doOp(n, blocks, op)
				if have {
					rec.Op("R %d blk %d (repeat, block known) err=%v", i, op.Block, err)
				}
			}
		} else if (op.Kind == "inv" || op.Kind == "rec") && i >= w.RedoFrom {
			// an invalidation / reconsideration is repeated only when its effects may have been lost: one acknowledged
			// before the last completed commit is durable (and, on a pruned node, could not be repeated later anyway:
			// undoing old history needs block data that is gone)
			err := doOp(n, blocks, op)
			rec.Op("R %d %s %d (repeat) err=%v", i, op.Kind, op.Block, err)
		}
	}
	for i := start; i < len(w.Ops); i++ {
		err := doOp(n, blocks, w.Ops[i])
		bs := n.Chain.BestSnapshot()
		rec.Op("R %d %s %d err=%v tip=%d", i, w.Ops[i].Kind, w.Ops[i].Block, err, bs.Height)
	}
	final := tipOf(w.TipAfter[len(w.TipAfter)-1])
	snap = n.Chain.BestSnapshot()
	if snap.Hash != final.Hash {
		fb := tree.ByHash[snap.Hash]
		nm := "?"
		if fb != nil {
			nm = fb.Name
		}
		if fb == nil || fb.CumWork.Cmp(final.CumWork) != 0 || !fb.ChainValid() {
			fail("convergence:final-tip", "after replaying the remaining operations the tip is %s (height %d), the uninterrupted run ends at %s (height %d)", nm, snap.Height, final.Name, final.Height)
		} else {
			final = fb // equal-work tie resolved differently after the restart: acceptable
		}
	}
	if len(res.Violations) == 0 {
		checkUtxo("after-replay", final)
	}
	n.Close()
	res.Done = true
	res.Events = rec.Count()
	write()
	return 0
}
