package main

import (
	"fmt"
	"os"
	"path/filepath"
	"time"

	"verif/gen/crashkit"
	"verif/mon"
)

// runRecoveryCase: crashes DURING recovery, enumerated. The workload runs with a utxo cache that is (almost) never
// flushed and dies near its end, so the consistency marker is many blocks behind the tip. Recovery then runs with a
// small utxo cache (the start-up replay flushes every few blocks); a dry recovery on a copy of the crashed database
// counts the I/O events of the start-up phase, then for every such event k2 (quick: a sample) a recovery process is
// killed at k2 on a fresh copy and a final recovery must satisfy all clauses of the property.
func runRecoveryCase(k *mon.Case) {
	r := k.Rand
	base := os.Getenv("VERIF_WORKDIR")
	if base == "" {
		base = os.TempDir()
	}
	caseDir, err := os.MkdirTemp(base, "c04r-")
	if err != nil {
		k.Failf("harness:tmp", "%v", err)
		return
	}
	if os.Getenv("VERIF_KEEP") == "" {
		defer os.RemoveAll(caseDir)
	}
	w0, E, _, ok := buildWorkload(k, caseDir, true)
	if !ok || w0 == nil {
		return
	}
	w := *w0
	w.RecoverUtxoCache = []uint64{512, 1024, 2048, 4096}[r.Intn(4)]
	k1 := E - r.Intn(min(E, 14))
	mode := crashkit.ModeDeath
	if r.Chance(1, 3) {
		mode = crashkit.ModePowerLoss
	}
	k.Desc(map[string]any{"family": w.Family, "cfg": w.Cfg, "ops": len(w.Ops), "events": E, "k1": k1, "mode": mode, "recover_cache": w.RecoverUtxoCache})
	dir0 := filepath.Join(caseDir, "crashed")
	os.MkdirAll(dir0, 0o755)
	if err := w.save(filepath.Join(dir0, "workload.json")); err != nil {
		k.Failf("harness:save", "%v", err)
		return
	}
	out, err := crashkit.Spawn(crashkit.Plan{Dir: dir0, KillAt: k1, Mode: mode, Role: "workload"}, 10*time.Minute)
	if err != nil || out.TimedOut {
		k.Count("inconclusive.spawn", 1)
		return
	}
	lines, err := crashkit.ReadLog(dir0)
	if err != nil || !out.Killed || !crashkit.DiedAt(lines, k1) {
		k.Count("recovery.first_crash_not_reached", 1)
		return
	}
	analyse(&w, lines)
	w.save(filepath.Join(dir0, "workload.json"))
	key1 := fmt.Sprintf("k=%d/%s", k1, mode)
	// dry recovery on a copy: verdict of the single-crash recovery with the smaller cache + number of start-up events
	dry := filepath.Join(caseDir, "dry")
	if err := crashkit.CopyDir(dir0, dry); err != nil {
		k.Failf("harness:copy", "%v", err)
		return
	}
	out, err = crashkit.Spawn(crashkit.Plan{Dir: dry, KillAt: 0, Mode: crashkit.ModeNone, Role: "recover"}, 10*time.Minute)
	if err != nil || out.TimedOut {
		k.Count("inconclusive.recover_spawn", 1)
		return
	}
	rr := readResult(dry)
	if rr == nil {
		k.Failf("recovery:child-died", "recovery process ended (exit %d, killed=%v) without a verdict after crash %s: %s", out.ExitCode, out.Killed, key1, tail(out.Output))
		return
	}
	report(k, rr, key1+"+recover-cache", &w)
	if len(rr.Violations) > 0 {
		return
	}
	dl, _ := crashkit.ReadLog(dry)
	startup, in := 0, false
	for _, l := range dl {
		if l.Type == 'O' && l.Op == "RECOVER" {
			in = true
		}
		if l.Type == 'O' && l.Op == "OPENED" {
			in = false
		}
		if in && l.Type == 'E' {
			startup++
		}
	}
	os.RemoveAll(dry)
	k.Count("recovery.startup_events", int64(startup))
	if startup == 0 {
		k.Count("recovery.nothing_to_replay", 1)
		return
	}
	var pts []int
	if k.C.Thorough() || startup <= 8 {
		for i := 1; i <= startup && i <= 80; i++ {
			pts = append(pts, i)
		}
	} else {
		seen := map[int]bool{}
		for len(pts) < 8 {
			p := 1 + r.Intn(startup)
			if !seen[p] {
				seen[p] = true
				pts = append(pts, p)
			}
		}
	}
	for _, k2 := range pts {
		d := filepath.Join(caseDir, fmt.Sprintf("k2-%d", k2))
		if err := crashkit.CopyDir(dir0, d); err != nil {
			k.Failf("harness:copy", "%v", err)
			return
		}
		m2 := crashkit.ModeDeath
		if r.Chance(1, 3) {
			m2 = crashkit.ModePowerLoss
		}
		key := fmt.Sprintf("%s then recovery k2=%d/%s (recovery utxo cache %d)", key1, k2, m2, w.RecoverUtxoCache)
		o2, err := crashkit.Spawn(crashkit.Plan{Dir: d, KillAt: k2, Mode: m2, Role: "recover"}, 10*time.Minute)
		if err != nil || o2.TimedOut {
			k.Count("inconclusive.recover_spawn", 1)
			os.RemoveAll(d)
			continue
		}
		if !o2.Killed {
			k.Count("recovery.second_crash_not_reached", 1)
		} else {
			k.Count("recovery.crash_points", 1)
			k.Count("crash.during_recovery", 1)
		}
		os.Remove(filepath.Join(d, "result.json"))
		o3, err := crashkit.Spawn(crashkit.Plan{Dir: d, KillAt: 0, Mode: crashkit.ModeNone, Role: "recover"}, 10*time.Minute)
		if err != nil || o3.TimedOut {
			k.Count("inconclusive.recover_spawn", 1)
			os.RemoveAll(d)
			continue
		}
		r3 := readResult(d)
		if r3 == nil {
			k.Failf("recovery:child-died", "recovery process ended (exit %d, killed=%v) without a verdict after crash %s: %s", o3.ExitCode, o3.Killed, key, tail(o3.Output))
			os.RemoveAll(d)
			return
		}
		report(k, r3, key, &w)
		if len(r3.Violations) == 0 && r3.Done {
			k.Count("crash.recovered_ok", 1)
		}
		k.Eval(mon.Sig("recovery", k.Index, k1, k2, m2), true)
		os.RemoveAll(d)
		if len(r3.Violations) > 0 {
			return
		}
	}
}
