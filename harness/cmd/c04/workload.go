package main

import (
	"bytes"
	"encoding/hex"
	"encoding/json"
	"os"

	"verif/node"
	"verif/ref/refchain"

	"github.com/btcsuite/btcd/wire/v2"
)

// Workload is everything a child process needs: the blocks (so that no generator has to be re-run), the
// operations, the configuration, and — for recovery children — what the parent learnt from the crash log.
type Workload struct {
	Family string  `json:"family"`
	Blocks []WBlk  `json:"blocks"`
	Ops    []WOp   `json:"ops"`
	Cfg    WConfig `json:"cfg"`
	// model tip (block index, -1 = genesis) after each op of the uninterrupted reference run
	TipAfter []int `json:"tip_after"`
	// recovery input
	Acked      int   `json:"acked"`       // number of ops that returned before the crash
	InProgress int   `json:"in_progress"` // op that was running when the process died (-1: none)
	Durable    []int `json:"durable"`     // blocks acknowledged before the last completed leveldb commit
	Clock      int64 `json:"clock"`
	// ChildTips[i]: the tip hash the crashed process reported when it acknowledged operation i
	ChildTips []string `json:"child_tips"`
	// RedoFrom: operations before this index were acknowledged before the last completed leveldb commit (durable)
	RedoFrom int `json:"redo_from"`
	// RecoverUtxoCache, when non-zero, is the utxo cache size of the recovery runs (an operator may restart with
	// another setting): a small value makes the start-up replay flush several times
	RecoverUtxoCache uint64 `json:"recover_utxo_cache"`
}

type WBlk struct {
	Name   string `json:"name"`
	Parent int    `json:"parent"` // -1 = genesis
	Hex    string `json:"hex"`
	Label  int    `json:"label"`
	Rule   string `json:"rule"`
}

type WOp struct {
	Kind  string `json:"kind"` // blk | flush | inv | rec
	Block int    `json:"block"`
	Arg   int    `json:"arg"`
}

type WConfig struct {
	UtxoCache        uint64 `json:"utxo_cache"`
	MaxBlockFileSize uint32 `json:"max_block_file_size"`
	LdbCacheBytes    uint64 `json:"ldb_cache_bytes"`
	FlushSecs        uint32 `json:"flush_secs"`
	// Prune is the block-storage target in bytes (0 = keep everything); only used with small block files
	Prune uint64 `json:"prune,omitempty"`
}

func (w *Workload) save(path string) error {
	b, err := json.Marshal(w)
	if err != nil {
		return err
	}
	return os.WriteFile(path, b, 0o644)
}

func loadWorkload(path string) (*Workload, error) {
	b, err := os.ReadFile(path)
	if err != nil {
		return nil, err
	}
	w := &Workload{}
	return w, json.Unmarshal(b, w)
}

// tree rebuilds the model tree from the serialized blocks.
func (w *Workload) tree() (*refchain.Tree, []*refchain.Block, error) {
	p := node.NewParams(w.Family)
	t := refchain.NewTree(p.GenesisBlock)
	var blocks []*refchain.Block
	for _, wb := range w.Blocks {
		raw, err := hex.DecodeString(wb.Hex)
		if err != nil {
			return nil, nil, err
		}
		msg := &wire.MsgBlock{}
		if err := msg.Deserialize(bytes.NewReader(raw)); err != nil {
			return nil, nil, err
		}
		parent := t.Genesis
		if wb.Parent >= 0 {
			parent = blocks[wb.Parent]
		}
		blocks = append(blocks, t.Add(wb.Name, msg, parent, refchain.Validity(wb.Label), wb.Rule))
	}
	return t, blocks, nil
}
