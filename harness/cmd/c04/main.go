// Worker for C04: chain state recovers to a consistent, previously-active state after any crash.
package main

import (
	"bytes"
	"encoding/hex"
	"encoding/json"
	"fmt"
	"math"
	"os"
	"path/filepath"
	"sort"
	"strconv"
	"strings"
	"time"

	"verif/gen/chaingen"
	"verif/gen/crashkit"
	"verif/mon"
	"verif/node"
	"verif/ref/refchain"
	"verif/sim"

	"github.com/btcsuite/btcd/blockchain"
)

func main() {
	if plan, ok := crashkit.ChildPlan(); ok {
		switch plan.Role {
		case "workload":
			os.Exit(childWorkload(plan))
		case "recover":
			os.Exit(childRecover(plan))
		}
		os.Exit(9)
	}
	mon.Main("C04", func(c *mon.Ctx) {
		c.Rule("one case = one seeded workload (25-60 operations: extensions with transactions, side chains, multi-block reorganisations, a connect-invalid block, invalidate/reconsider, " +
			"Required/Periodic/IfNeeded flushes) under one configuration (utxo cache 0/4K/1G x ffldb flush every commit/never x block file size tiny/default); the uninterrupted reference run " +
			"counts E durable I/O events (hook H1); for a sample (quick) or all (thorough) k in 1..E a child process runs the workload and is SIGKILLed at event k under the process-death or " +
			"power-loss model; a fresh process reopens, checks tip-was-active / utxo = fold / acknowledged blocks known, replays the remainder and checks convergence; for some k the recovery " +
			"itself is killed at one of its own I/O events first; distinct = (workload, config, k, model, second-level k)")
		c.Family("crash", c.N(28, 1400), runCase)
		c.Family("recovery", c.N(14, 500), runRecoveryCase)
		c.Require("recovery.crash_points", 30)
		c.Require("recovery.startup_events", 50)
		c.Require("crash.points", 150)
		c.Require("crash.recovered_ok", 150)
		c.Require("crash.during_recovery", 5)
		c.Require("reference.pruned_files", 5)
		for _, kind := range []string{"blk-write", "blk-sync", "ldb-commit-pre", "ldb-commit-post"} {
			c.Require("crash.at."+kind, 3)
		}
	})
}

type built struct {
	w      *Workload
	blocks []*refchain.Block
}

// buildWorkload generates blocks and operations and runs the uninterrupted reference (real node + model).
// opEnd[i] is the number of I/O events seen when op i of the reference run had returned.
var opEnd []int

func buildWorkload(k *mon.Case, dir string, recoveryFamily bool) (*Workload, int, []string, bool) {
	opEnd = nil
	r := k.Rand
	fam := []string{node.FamRegtest, node.FamVarWork}[r.Intn(2)]
	g := chaingen.New(node.NewParams(fam), fam, r)
	g.MaxTx = 4
	cfg := WConfig{UtxoCache: []uint64{0, 4096, 1 << 25}[r.Intn(3)], MaxBlockFileSize: []uint32{0, 2048, 16384}[r.Intn(3)],
		LdbCacheBytes: []uint64{0, math.MaxUint64}[r.Intn(2)], FlushSecs: []uint32{0, math.MaxUint32}[r.Intn(2)]}
	if cfg.MaxBlockFileSize != 0 && r.Chance(1, 2) {
		// pruning: keep a few block files only (old files are deleted while the workload runs)
		cfg.Prune = uint64(cfg.MaxBlockFileSize) * uint64([]int{2, 3}[r.Intn(2)])
		if cfg.MaxBlockFileSize < 4096 {
			cfg.Prune = uint64([]int{8192, 16384}[r.Intn(2)])
		}
	}
	pruneHeavy := r.Chance(1, 5)
	if pruneHeavy {
		// many small block files and a prune target of four of them under a utxo cache that is only flushed when it has
		// to be: the flush marker stays where the last forced flush put it, and later prunes reach across that point
		cfg.UtxoCache, cfg.MaxBlockFileSize, cfg.Prune = 1<<25, 2048, 8192
	}
	if recoveryFamily {
		// the utxo cache is (almost) never flushed while the workload runs, so the consistency marker stays far
		// behind the tip and recovery has many blocks to replay
		cfg.UtxoCache = 1 << 25
	}
	var kinds []string
	events := 0
	cb := func(e node.IOEvent) error {
		events++
		kinds = append(kinds, e.Kind)
		return nil
	}
	s, err := sim.New(k, g, node.Config{UtxoCacheMaxSize: cfg.UtxoCache, Prune: cfg.Prune,
		FFLDB: &node.FFLDBOpts{Cb: cb, MaxBlockFileSize: cfg.MaxBlockFileSize, CacheBytes: cfg.LdbCacheBytes, FlushSecs: cfg.FlushSecs}})
	if err != nil {
		k.Failf("harness:open", "%v", err)
		return nil, 0, nil, false
	}
	defer s.Destroy()
	g.ClockNow = s.N.Clock.Now()
	s.CheckUtxo = true
	w := &Workload{Family: fam, Cfg: cfg, Clock: s.N.Clock.Now(), InProgress: -1}
	index := map[*refchain.Block]int{}
	addBlock := func(b *refchain.Block) int {
		var buf bytes.Buffer
		b.Msg.Serialize(&buf)
		pi := -1
		if b.Parent != g.Tree.Genesis {
			pi = index[b.Parent]
		}
		w.Blocks = append(w.Blocks, WBlk{Name: b.Name, Parent: pi, Hex: hex.EncodeToString(buf.Bytes()), Label: int(b.Label), Rule: b.Rule})
		index[b] = len(w.Blocks) - 1
		return len(w.Blocks) - 1
	}
	tipIdx := func() int {
		if s.Tip == g.Tree.Genesis {
			return -1
		}
		return index[s.Tip]
	}
	deliver := func(b *refchain.Block) {
		i := addBlock(b)
		w.Ops = append(w.Ops, WOp{Kind: "blk", Block: i})
		s.DeliverBlock(b)
		w.TipAfter = append(w.TipAfter, tipIdx())
		opEnd = append(opEnd, events)
	}
	// base chain
	tip := g.Tree.Genesis
	nBase := 9 + r.Intn(5)
	if pruneHeavy {
		nBase += 25 + r.Intn(20)
	}
	for i := 0; i < nBase; i++ {
		tip = g.Block(r, tip, chaingen.BlockOpts{NTx: -1, Easy: r.Bool()})
		deliver(tip)
	}
	if pruneHeavy {
		k.Count("reference.prune_heavy_configs", 1)
	}
	nops := 10 + r.Intn(18)
	if k.C.Thorough() {
		nops = 14 + r.Intn(30)
	}
	var invalidated *refchain.Block
	usedInvalid := false
	for i := 0; i < nops && !s.Failed; i++ {
		switch x := r.Intn(100); {
		case x < 40:
			b := g.Block(r, s.Tip, chaingen.BlockOpts{NTx: 1 + r.Intn(4), Easy: r.Bool()})
			deliver(b)
		case x < 62: // side branch that overtakes
			depth := 1 + r.Intn(3)
			p := s.Tip.Ancestor(s.Tip.Height - int32(depth))
			if p == nil || p.Height < 3 || (invalidated != nil) {
				continue
			}
			for j := 0; j < depth+1+r.Intn(2); j++ {
				p = g.Block(r, p, chaingen.BlockOpts{NTx: r.Intn(4), Easy: r.Bool()})
				deliver(p)
			}
		case x < 70 && !usedInvalid: // a connect-invalid block on a branch that would be heaviest
			usedInvalid = true
			rc := chaingen.BasicRecipes(s.N.Clock.Now())[0]
			p := s.Tip
			if r.Bool() && s.Tip.Parent != nil && s.Tip.Parent.Height > 3 {
				p = s.Tip.Parent
				b := g.Block(r, p, chaingen.BlockOpts{NTx: 0, Mutate: rc.Mutate, Label: rc.Label, Rule: rc.Rule})
				deliver(b)
				d := g.Block(r, b, chaingen.BlockOpts{NTx: 0})
				deliver(d)
			} else {
				b := g.Block(r, p, chaingen.BlockOpts{NTx: 0, Mutate: rc.Mutate, Label: rc.Label, Rule: rc.Rule})
				deliver(b)
			}
		case x < 84:
			if recoveryFamily && i > nops/3 {
				continue
			}
			mode := []blockchain.FlushMode{blockchain.FlushRequired, blockchain.FlushPeriodic, blockchain.FlushIfNeeded}[r.Intn(3)]
			w.Ops = append(w.Ops, WOp{Kind: "flush", Arg: int(mode)})
			s.Flush(mode)
			w.TipAfter = append(w.TipAfter, tipIdx())
			opEnd = append(opEnd, events)
		case x < 92:
			if invalidated == nil && s.Tip.Height > 4 {
				invalidated = s.Tip.Ancestor(s.Tip.Height - int32(r.Intn(3)))
				w.Ops = append(w.Ops, WOp{Kind: "inv", Block: index[invalidated]})
				s.Invalidate(invalidated)
				w.TipAfter = append(w.TipAfter, tipIdx())
				opEnd = append(opEnd, events)
			} else if invalidated != nil {
				w.Ops = append(w.Ops, WOp{Kind: "rec", Block: index[invalidated]})
				s.Reconsider(invalidated)
				w.TipAfter = append(w.TipAfter, tipIdx())
				opEnd = append(opEnd, events)
				invalidated = nil
			}
		}
	}
	if invalidated != nil && !s.Failed {
		w.Ops = append(w.Ops, WOp{Kind: "rec", Block: index[invalidated]})
		s.Reconsider(invalidated)
		w.TipAfter = append(w.TipAfter, tipIdx())
		opEnd = append(opEnd, events)
	}
	if cfg.Prune != 0 {
		pruned := 0
		for _, kd := range kinds {
			if kd == "blk-delete" {
				pruned++
			}
		}
		k.Count("reference.pruned_files", int64(pruned))
		k.Count("reference.prune_configs", 1)
	}
	ok := !s.Failed
	// count the events of an orderly close too (the children close as well)
	s.N.Close()
	s.N = nil
	return w, events, kinds, ok
}

func runCase(k *mon.Case) {
	r := k.Rand
	base := os.Getenv("VERIF_WORKDIR")
	if base == "" {
		base = os.TempDir()
	}
	caseDir, err := os.MkdirTemp(base, "c04-")
	if err != nil {
		k.Failf("harness:tmp", "%v", err)
		return
	}
	if os.Getenv("VERIF_KEEP") == "" {
		defer os.RemoveAll(caseDir)
	}
	w, E, kinds, ok := buildWorkload(k, caseDir, false)
	if !ok || w == nil {
		return
	}
	k.Desc(map[string]any{"family": w.Family, "cfg": w.Cfg, "ops": len(w.Ops), "events": E})
	k.Count("reference.events", int64(E))
	// crash points: quick = a stratified sample; thorough = many more
	npoints := 8
	if k.C.Thorough() {
		npoints = 40
	}
	pts := map[int]bool{}
	// half of the points are uniform over the whole run, half fall inside the last three operations, where a
	// stored-but-not-connected or half-committed state cannot be repaired by later deliveries
	tail := 0
	if n := len(opEnd); n >= 4 && n == len(w.Ops) {
		tail = opEnd[n-4]
	}
	// with pruning: a third of the points fall right behind the deletion of a block file
	var deletions []int
	for i, kd := range kinds {
		if kd == "blk-delete" {
			deletions = append(deletions, i+1)
		}
	}
	for tries := 0; len(pts) < npoints && len(pts) < E && tries < 10*npoints; tries++ {
		if len(deletions) > 0 && len(pts)%3 == 2 {
			if p := deletions[r.Intn(len(deletions))] + 1 + r.Intn(10); p <= E {
				pts[p] = true
				k.Count("crash.points_right_after_a_file_deletion", 1)
			}
			continue
		}
		if tail > 0 && tail < E && len(pts)%2 == 1 {
			pts[tail+1+r.Intn(E-tail)] = true
		} else {
			pts[1+r.Intn(E)] = true
		}
	}
	// the clean shutdown at the end of the workload (everything after the last operation returned) is crashed too, once
	// under each model: the final flushes must leave a store that survives a power failure right after they return
	forced := map[int]string{}
	if n := len(opEnd); n > 0 && n == len(w.Ops) && opEnd[n-1] < E {
		for _, md := range []string{crashkit.ModePowerLoss, crashkit.ModeDeath} {
			p := opEnd[n-1] + 1 + r.Intn(E-opEnd[n-1])
			if !pts[p] {
				pts[p] = true
				forced[p] = md
				k.Count("crash.points_inside_the_final_close", 1)
			}
		}
	}
	var order []int
	for kpt := range pts {
		order = append(order, kpt)
	}
	sort.Ints(order)
	for _, kpt := range order {
		mode := crashkit.ModeDeath
		if r.Chance(1, 2) {
			mode = crashkit.ModePowerLoss
		}
		if md, ok := forced[kpt]; ok {
			mode = md
		}
		second := 0
		if r.Chance(1, 6) {
			second = 1 + r.Intn(6)
		}
		runCrash(k, caseDir, w, kpt, mode, second, kinds)
	}
	if k.Index < 2 {
		k.Sample(map[string]any{"family": w.Family, "cfg": w.Cfg, "ops": w.Ops, "reference_events": E, "crash_points": len(pts)})
	}
}

func runCrash(k *mon.Case, caseDir string, w0 *Workload, kpt int, mode string, second int, kinds []string) {
	dir := filepath.Join(caseDir, fmt.Sprintf("k%d-%s", kpt, mode))
	os.MkdirAll(dir, 0o755)
	if os.Getenv("VERIF_KEEP") == "" {
		defer os.RemoveAll(dir)
	}
	w := *w0
	if err := w.save(filepath.Join(dir, "workload.json")); err != nil {
		k.Failf("harness:save", "%v", err)
		return
	}
	key := fmt.Sprintf("k=%d/%s", kpt, mode)
	out, err := crashkit.Spawn(crashkit.Plan{Dir: dir, KillAt: kpt, Mode: mode, Role: "workload"}, 10*time.Minute)
	if err != nil || out.TimedOut {
		k.Count("inconclusive.spawn", 1)
		return
	}
	lines, err := crashkit.ReadLog(dir)
	if err != nil {
		k.Count("inconclusive.log", 1)
		return
	}
	if !out.Killed {
		if out.ExitCode == 0 {
			// the child finished before reaching event k (its event count differs from the reference run's): not a crash run
			k.Count("crash.not_reached", 1)
			return
		}
		k.Failf("workload:child-failed", "workload child exited with code %d before the crash point (%s): %s", out.ExitCode, key, tail(out.Output))
		return
	}
	if !crashkit.DiedAt(lines, kpt) {
		k.Count("inconclusive.died_elsewhere", 1)
		return
	}
	analyse(&w, lines)
	w.save(filepath.Join(dir, "workload.json"))
	if kpt-1 < len(kinds) {
		k.Count("crash.at."+kinds[kpt-1], 1)
	}
	k.Count("crash.points", 1)
	if second > 0 {
		out2, err := crashkit.Spawn(crashkit.Plan{Dir: dir, KillAt: second, Mode: mode, Role: "recover"}, 10*time.Minute)
		if err == nil && out2.Killed {
			k.Count("crash.during_recovery", 1)
		} else if err == nil && !out2.TimedOut && out2.ExitCode == 0 {
			// recovery finished before its own event `second`: its verdict counts
			if rr := readResult(dir); rr != nil {
				report(k, rr, key, w0)
				if len(rr.Violations) > 0 {
					return
				}
			}
		}
		os.Remove(filepath.Join(dir, "result.json"))
	}
	out3, err := crashkit.Spawn(crashkit.Plan{Dir: dir, KillAt: 0, Mode: crashkit.ModeNone, Role: "recover"}, 10*time.Minute)
	if err != nil || out3.TimedOut {
		k.Count("inconclusive.recover_spawn", 1)
		return
	}
	rr := readResult(dir)
	if rr == nil {
		k.Failf("recovery:child-died", "recovery process ended (exit %d, killed=%v) without a verdict after crash %s: %s", out3.ExitCode, out3.Killed, key, tail(out3.Output))
		return
	}
	report(k, rr, key, w0)
	if len(rr.Violations) == 0 && rr.Done {
		k.Count("crash.recovered_ok", 1)
	}
	k.Eval(mon.Sig("crash", k.Index, kpt, mode, second), true)
}

// analyse derives from the crash log what was acknowledged, what was in progress and what is durable.
func analyse(w *Workload, lines []crashkit.Line) {
	w.ChildTips = nil
	acked, inprog := 0, -1
	lastCommitLine := -1
	ackLine := map[int]int{}
	for li, l := range lines {
		raw := rawOf(l)
		if strings.HasPrefix(raw, "B ") {
			f := strings.Fields(raw)
			inprog, _ = strconv.Atoi(f[1])
		} else if strings.HasPrefix(raw, "A ") {
			f := strings.Fields(raw)
			i, _ := strconv.Atoi(f[1])
			if len(f) > 2 && f[2] == "ok" {
				ackLine[i] = li // only a delivery that returned without error acknowledges storage
			}
			for len(w.ChildTips) <= i {
				w.ChildTips = append(w.ChildTips, "")
			}
			if len(f) > 3 {
				w.ChildTips[i] = f[3]
			}
			acked = i + 1
			inprog = -1
		}
		if isEvent(l, "ldb-commit-post") {
			lastCommitLine = li
		}
	}
	w.Acked, w.InProgress = acked, inprog
	// operations acknowledged before the last completed leveldb commit are durable with all their effects: only later
	// ones (and the interrupted one) may have to be repeated after the crash
	w.RedoFrom = 0
	for i := range w.Ops {
		li, ok := ackLine[i]
		if !ok && i < acked {
			// acknowledged with an error: nothing to lose; position by the line of its answer is not recorded, treat as durable
			// only if a later durable op follows (handled by the loop: RedoFrom moves past it then)
			continue
		}
		if ok && li < lastCommitLine {
			w.RedoFrom = i + 1
		}
	}
	w.Durable = nil
	for i, op := range w.Ops {
		if op.Kind == "blk" {
			if li, ok := ackLine[i]; ok && li < lastCommitLine && refchain.Validity(w.Blocks[op.Block].Label) != refchain.InvalidEarly {
				w.Durable = append(w.Durable, op.Block)
			}
		}
	}
}

func report(k *mon.Case, rr *Result, key string, w *Workload) {
	for _, v := range rr.Violations {
		k.Violation(v.Key, fmt.Sprintf("crash %s, config %+v: %s", key, w.Cfg, v.Detail), map[string]any{"crash": key, "cfg": w.Cfg, "ops": w.Ops, "family": w.Family})
	}
}

func readResult(dir string) *Result {
	b, err := os.ReadFile(filepath.Join(dir, "result.json"))
	if err != nil {
		return nil
	}
	r := &Result{}
	if json.Unmarshal(b, r) != nil {
		return nil
	}
	return r
}

func tail(s string) string {
	if len(s) > 1500 {
		return s[len(s)-1500:]
	}
	return s
}

func rawOf(l crashkit.Line) string {
	if l.Type == 'O' {
		return l.Op
	}
	return ""
}

func isEvent(l crashkit.Line, kind string) bool { return l.Type == 'E' && l.Event.Kind == kind }
