// Worker for C12: generated block templates are always valid and correctly accounted.
package main

import (
	"sync"

	"verif/gen/chaingen"
	"verif/mon"
	"verif/node"
	"verif/poolsim"
	"verif/ref/refchain"

	"github.com/btcsuite/btcd/btcutil/v2"
	"github.com/btcsuite/btcd/mining"
	"github.com/btcsuite/btcd/wire/v2"
)

func policy(r *mon.Rand) mining.Policy {
	p := node.DefaultMinePolicy()
	switch r.Intn(5) {
	case 0: // tiny limits force exclusion
		p.BlockMaxWeight = uint32(4000 + r.Intn(8000))
		p.BlockMaxSize = uint32(1000 + r.Intn(3000))
	case 1:
		p.BlockMaxWeight = 4000000
		p.BlockMaxSize = 1000000
		p.BlockPrioritySize = uint32(r.Intn(100000))
	case 2:
		p.BlockMinWeight = uint32(r.Intn(20000))
		p.BlockMinSize = uint32(r.Intn(5000))
		p.BlockPrioritySize = 0
	case 3:
		p.TxMinFreeFee = btcutil.Amount(r.Intn(50000))
		p.BlockPrioritySize = uint32(r.Intn(3000))
	}
	return p
}

func fee(r *mon.Rand) int64 {
	if r.Chance(1, 8) {
		return 0
	}
	return int64(200 + r.Intn(60000))
}

func fill(ps *poolsim.PS, r *mon.Rand, n int) {
	for i := 0; i < n && !ps.Failed; i++ {
		v := ps.View()
		coins := ps.Coins(v, true)
		if len(coins) == 0 {
			return
		}
		k := 1 + r.Intn(min(3, len(coins)))
		var in []chaingen.Spendable
		for _, j := range r.Perm(len(coins))[:k] {
			in = append(in, coins[j])
		}
		spec := poolsim.TxSpec{In: in, Fee: fee(r), NOut: 1 + r.Intn(4), Signal: r.Bool(), Pad: r.Intn(70)}
		if r.Chance(1, 10) {
			spec.Pad = 75
			spec.NOut = 8
		}
		tx := ps.Build(spec)
		// signature operations in bare output scripts: CHECKMULTISIG counts 20, CHECKSIG 1 (legacy counting, x4 cost)
		if r.Chance(1, 6) {
			for q := 0; q < 1+r.Intn(6); q++ {
				tx.AddTxOut(&wire.TxOut{Value: 0, PkScript: [][]byte{{0xae}, {0xac}, {0xac, 0xac, 0xad}, {0x6a, 0x01, 0xae}}[r.Intn(4)]})
			}
			var prev []refchain.Coin
			for _, c := range in {
				prev = append(prev, c.Coin)
			}
			ps.G.SignTx(tx, prev)
			ps.Known[tx.TxHash()] = tx
		}
		ps.Submit(tx, false, "process", v)
	}
}

// sigopScript is a bare script of n OP_CHECKSIG bytes (n legacy signature operations = 4n units of cost).
func sigopScript(n int) []byte {
	s := make([]byte, n)
	for i := range s {
		s[i] = 0xac
	}
	return s
}

// runSigopLimit: a pool whose signature-operation cost reaches the consensus limit of 80 000 in steps of 4, with a
// template coinbase that pays to a script with (or without) a signature operation of its own: generation must succeed
// and the template must stay within the limit whatever the coinbase contributes.
func runSigopLimit(k *mon.Case) {
	r := k.Rand
	g := chaingen.New(node.NewParams(node.FamRegtest), node.FamRegtest, r)
	g.MaxTx = 4
	mp := node.DefaultMemPolicy()
	mp.MinRelayTxFee = 0
	pol := node.DefaultMinePolicy()
	pol.BlockMaxWeight, pol.BlockMaxSize = 4000000, 1000000
	pol.BlockPrioritySize = 0 // fee-rate order: the large transactions first, then the single-sigop ones fill up to the limit
	ps, err := poolsim.New(k, g, node.Config{UtxoCacheMaxSize: 1 << 25}, mp, pol)
	if err != nil {
		k.Failf("harness:open", "%v", err)
		return
	}
	defer ps.Destroy()
	payKind := []chaingen.Kind{chaingen.KTrue, chaingen.KP2PKH, chaingen.KP2PK, chaingen.KP2WPKH, chaingen.KP2TR}[r.Intn(5)]
	if payKind != chaingen.KTrue {
		ps.PayScript = g.Script(payKind, r.Intn(4), r)
	}
	k.Desc(map[string]any{"mode": "sigop-limit", "pay_kind": int(payKind)})
	ps.Base(24 + r.Intn(6))
	v := ps.View()
	coins := ps.Coins(v, false)
	if len(coins) < 8 {
		k.Count("sigoplimit.too_few_coins", 1)
		return
	}
	next := 0
	submit := func(nsig int, fee int64) bool {
		if next >= len(coins) {
			return false
		}
		c := coins[next]
		next++
		var extra []*wire.TxOut
		for left := nsig; left > 0; {
			n := min(left, 2500)
			extra = append(extra, &wire.TxOut{Value: 0, PkScript: sigopScript(n)})
			left -= n
		}
		// one ordinary output of a kind without signature operations in its script
		tx := wire.NewMsgTx(2)
		tx.AddTxIn(&wire.TxIn{PreviousOutPoint: c.Op, Sequence: 0xffffffff})
		tx.AddTxOut(&wire.TxOut{Value: c.Coin.Amount - fee, PkScript: g.Script(chaingen.KP2SHTrue, 0, r)})
		for _, o := range extra {
			tx.AddTxOut(o)
		}
		if err := g.SignTx(tx, []refchain.Coin{c.Coin}); err != nil {
			panic(err)
		}
		ps.Known[tx.TxHash()] = tx
		o := ps.Submit(tx, false, "process", nil)
		return o.Err == nil && len(o.Accepted) > 0
	}
	// four transactions just below the per-transaction limit (cost 19 992 each), then single-sigop transactions
	big := 0
	for i := 0; i < 4 && !ps.Failed; i++ {
		if submit(4998-r.Intn(3), int64(80000+r.Intn(40000))) {
			big++
		}
	}
	small := 0
	for i := 0; i < 14 && !ps.Failed && next < len(coins); i++ {
		if submit(1+r.Intn(2), int64(400+r.Intn(300))) {
			small++
		}
	}
	if ps.Failed {
		return
	}
	k.Count("sigoplimit.pools", 1)
	k.Count("sigoplimit.big_accepted", int64(big))
	k.Count("sigoplimit.small_accepted", int64(small))
	ps.MineTemplate(true)
	// what did not fit goes into the next template
	if !ps.Failed {
		ps.MineTemplate(true)
	}
	k.Eval(mon.Sig("sigoplimit", int(payKind), big, small), true)
}

func runCase(k *mon.Case) {
	r := k.Rand
	// one case in four runs on the family with the 20-minute minimum-difficulty exception and a genesis 16x harder than
	// the limit: the required bits of a template then depend on its timestamp (UpdateBlockTime must follow)
	fam := node.FamRegtest
	if r.Chance(1, 4) {
		fam = node.FamVarWork
	}
	params := node.NewParams(fam)
	if r.Chance(1, 3) {
		// a subsidy halving inside the part of the chain that is built from templates
		params.SubsidyReductionInterval = int32(20 + r.Intn(12))
	}
	g := chaingen.New(params, fam, r)
	g.MaxTx = 4
	mp := node.DefaultMemPolicy()
	mp.MinRelayTxFee = 0 // let zero-fee transactions into the pool: the priority area is part of the quantifier
	mp.DisableRelayPriority = true
	pol := policy(r)
	ps, err := poolsim.New(k, g, node.Config{UtxoCacheMaxSize: []uint64{0, 1 << 25}[r.Intn(2)]}, mp, pol)
	if err != nil {
		k.Failf("harness:open", "%v", err)
		return
	}
	defer ps.Destroy()
	if r.Chance(1, 2) {
		ps.PayScript = g.Script([]chaingen.Kind{chaingen.KP2PKH, chaingen.KP2PK, chaingen.KP2WPKH, chaingen.KP2TR, chaingen.KP2SHTrue}[r.Intn(5)], r.Intn(4), r)
	}
	k.Desc(map[string]any{"policy": pol, "pay_script": ps.PayScript, "family": fam})
	ps.Base(16 + r.Intn(8))
	rounds := 6 + r.Intn(6)
	for i := 0; i < rounds && !ps.Failed; i++ {
		fill(ps, r, 2+r.Intn(14))
		if ps.Failed {
			break
		}
		switch r.Intn(6) {
		case 0: // immediately after a reorganisation
			depth := 1 + r.Intn(2)
			p := ps.Tip.Ancestor(ps.Tip.Height - int32(depth))
			if p != nil && p.Height > 8 {
				ps.F.Clock.Set(ps.F.Clock.Now() + 600)
				for j := 0; j < depth+1 && !ps.Failed; j++ {
					p = g.Block(r, p, chaingen.BlockOpts{NTx: r.Intn(3)})
					ps.DeliverBlock(p)
				}
				ps.CheckInvariants("reorg")
				ps.K.Count("template.after_reorg", 1)
			}
		case 1: // an empty pool template
		}
		ps.MineTemplate(true)
	}
	k.Eval(mon.Sig("tmpl", len(ps.Ops), ps.Tip.Hash.String()[:8]), true)
	if k.Index < 2 {
		k.Sample(map[string]any{"policy": pol, "ops": ps.Ops})
	}
}

// concurrent submitters while templates are generated (race detector)
func runConcurrent(k *mon.Case) {
	r := k.Rand
	g := chaingen.New(node.NewParams(node.FamRegtest), node.FamRegtest, r)
	mp := node.DefaultMemPolicy()
	ps, err := poolsim.New(k, g, node.Config{UtxoCacheMaxSize: 1 << 25}, mp, node.DefaultMinePolicy())
	if err != nil {
		k.Failf("harness:open", "%v", err)
		return
	}
	defer ps.Destroy()
	k.Desc(map[string]any{"mode": "concurrent"})
	ps.Base(20)
	v := ps.View()
	coins := ps.Coins(v, false)
	var txs []*wire.MsgTx
	for i := 0; i < len(coins) && i < 30; i++ {
		txs = append(txs, ps.Build(poolsim.TxSpec{In: coins[i : i+1], Fee: int64(1000 + r.Intn(20000)), NOut: 2}))
	}
	var wg sync.WaitGroup
	for w := 0; w < 3; w++ {
		wg.Add(1)
		go func(w int) {
			defer wg.Done()
			for i := w; i < len(txs); i += 3 {
				ps.F.Pool.ProcessTransaction(btcutil.NewTx(txs[i]), false, false, 0)
			}
		}(w)
	}
	for i := 0; i < 4; i++ {
		if _, err := ps.F.Gen.NewBlockTemplate(nil); err != nil {
			k.Failf("template:generation-failed-concurrent", "NewBlockTemplate during concurrent submissions: %v", err)
		}
	}
	wg.Wait()
	ps.MineTemplate(true)
	k.Eval(mon.Sig("conc", len(txs)), true)
}

func main() {
	mon.Main("C12", func(c *mon.Ctx) {
		c.Rule("one case = a full node with a random mining policy (tiny / maximal weight and size limits, priority area, min free fee) and 6-11 rounds of: fill the pool with 2-15 " +
			"transactions (chains, fans, witness and non-witness, zero and high fees, padded sizes, sigop-carrying outputs), optionally reorganise, then generate a template; each template is checked " +
			"(dependency order, fees and sigop costs recomputed independently, coinbase value, witness commitment and merkle root via own code, policy and consensus limits, UpdateBlockTime / " +
			"UpdateExtraNonce), solved, submitted to ProcessBlock and the pool re-checked; distinct = (op count, final tip)")
		if mon.RaceEnabled {
			c.Family("conc", c.N(24, 600), runConcurrent)
			return
		}
		c.Family("templates", c.N(210, 12000), runCase)
		c.Family("sigoplimit", c.N(28, 1500), runSigopLimit)
		c.Require("sigoplimit.pools", 20)
		c.Require("template.pay_address", 100)
		c.Require("template.regenerated_after_fee_bump", 20)
		c.Require("template.first_block_of_halving_epoch", 5)
		c.Require("template.update_time_across_min_difficulty_boundary", 5)
		c.Require("template.sigops_at_limit", 3)
		c.Require("template.mined", 1000)
		c.Require("template.with_witness", 100)
		c.Require("template.after_reorg", 20)
		c.Require("template.update_time", 100)
		c.Require("template.update_extranonce", 100)
	})
}
