package node

import (
	"sync"
	"time"

	"github.com/btcsuite/btcd/blockchain"
	"github.com/btcsuite/btcd/btcutil/v2"
	"github.com/btcsuite/btcd/chainhash/v2"
	"github.com/btcsuite/btcd/mempool"
	"github.com/btcsuite/btcd/mining"
	"github.com/btcsuite/btcd/netsync"
	"github.com/btcsuite/btcd/peer"
	"github.com/btcsuite/btcd/txscript/v2"
	"github.com/btcsuite/btcd/wire/v2"
)

func init() {
	// netsync has no init() that disables its package logger (btcd's main package installs one): a nil
	// logger would make the first log call dereference nil
	netsync.DisableLog()
}

// recorder is the PeerNotifier stub: it only records what the sync manager tells the peers.
type recorder struct {
	mu        sync.Mutex
	Announced []chainhash.Hash
	Confirmed []chainhash.Hash
	Relayed   int
}

func (r *recorder) AnnounceNewTransactions(newTxs []*mempool.TxDesc) {
	r.mu.Lock()
	for _, d := range newTxs {
		r.Announced = append(r.Announced, *d.Tx.Hash())
	}
	r.mu.Unlock()
}
func (r *recorder) UpdatePeerHeights(*chainhash.Hash, int32, *peer.Peer) {}
func (r *recorder) RelayInventory(*wire.InvVect, interface{}) {
	r.mu.Lock()
	r.Relayed++
	r.mu.Unlock()
}
func (r *recorder) TransactionConfirmed(tx *btcutil.Tx) {
	r.mu.Lock()
	r.Confirmed = append(r.Confirmed, *tx.Hash())
	r.mu.Unlock()
}

// Full is a node with mempool, the netsync notification handler and the mining template generator wired
// exactly as server.go wires them.
type Full struct {
	*Node
	Pool       *mempool.TxPool
	Sync       *netsync.SyncManager
	Gen        *mining.BlkTmplGenerator
	Notifier   *recorder
	MemPolicy  mempool.Policy
	MinePolicy mining.Policy
}

// DefaultMemPolicy mirrors btcd's defaults on regtest (non-standard transactions relayed).
func DefaultMemPolicy() mempool.Policy {
	return mempool.Policy{
		DisableRelayPriority: true,
		AcceptNonStd:         true,
		FreeTxRelayLimit:     15.0,
		MaxOrphanTxs:         100,
		MaxOrphanTxSize:      100000,
		MaxSigOpCostPerTx:    blockchain.MaxBlockSigOpsCost / 4,
		MinRelayTxFee:        mempool.DefaultMinRelayTxFee,
		MaxTxVersion:         2,
	}
}

// DefaultMinePolicy mirrors btcd's default mining policy.
func DefaultMinePolicy() mining.Policy {
	return mining.Policy{BlockMinWeight: 0, BlockMaxWeight: 3000000, BlockMinSize: 0, BlockMaxSize: 750000,
		BlockPrioritySize: 50000, TxMinFreeFee: mempool.DefaultMinRelayTxFee}
}

// OpenFull opens a node and wires mempool, sync-manager notification handling and mining on top of it.
func OpenFull(dir string, cfg Config, clock *Clock, mp mempool.Policy, mine mining.Policy) (*Full, error) {
	cfg.SigCache = true
	n, err := Open(dir, cfg, clock)
	if err != nil {
		return nil, err
	}
	f := &Full{Node: n, Notifier: &recorder{}, MemPolicy: mp, MinePolicy: mine}
	sigCache := txscript.NewSigCache(1000)
	hashCache := txscript.NewHashCache(1000)
	chain := n.Chain
	txC := mempool.Config{
		Policy:         mp,
		ChainParams:    n.Params,
		FetchUtxoView:  chain.FetchUtxoView,
		BestHeight:     func() int32 { return chain.BestSnapshot().Height },
		MedianTimePast: func() time.Time { return chain.BestSnapshot().MedianTime },
		CalcSequenceLock: func(tx *btcutil.Tx, view *blockchain.UtxoViewpoint) (*blockchain.SequenceLock, error) {
			return chain.CalcSequenceLock(tx, view, true)
		},
		IsDeploymentActive: chain.IsDeploymentActive,
		SigCache:           sigCache,
		HashCache:          hashCache,
	}
	f.Pool = mempool.New(&txC)
	f.Sync, err = netsync.New(&netsync.Config{PeerNotifier: f.Notifier, Chain: chain, TxMemPool: f.Pool, ChainParams: n.Params,
		DisableCheckpoints: true, MaxPeers: 8})
	if err != nil {
		n.CloseNoFlush()
		return nil, err
	}
	f.Gen = mining.NewBlkTmplGenerator(&f.MinePolicy, n.Params, f.Pool, chain, n.Clock, sigCache, hashCache)
	return f, nil
}
