//go:build !verif

package node

// FFLDBOpts is only functional in builds with the verif tag.
type FFLDBOpts struct{}
