//go:build verif

package node

import (
	"github.com/btcsuite/btcd/database"
	"github.com/btcsuite/btcd/database/ffldb"
	"github.com/btcsuite/btcd/wire/v2"
)

// IOEvent mirrors ffldb.VerifEvent (hook H1).
type IOEvent = ffldb.VerifEvent

func init() {
	openHooked = func(dir string, net wire.BitcoinNet, create bool, o *FFLDBOpts) (database.DB, error) {
		return ffldb.VerifOpen(dir, net, create, o.Cb, o.MaxBlockFileSize, o.CacheBytes, o.FlushSecs)
	}
}

// FFLDBOpts selects the interposed open of hook H1: every block-file I/O and leveldb commit of the store is
// reported to Cb (which may record, inject an error, sleep or kill the process); the limits have the
// ffldb.VerifSetLimits meaning (0 / MaxUint64 / MaxUint32 = leave unchanged).
type FFLDBOpts struct {
	Cb               func(IOEvent) error
	MaxBlockFileSize uint32
	CacheBytes       uint64
	FlushSecs        uint32
}
