// Package node wires a real btcd node (ffldb + blockchain [+ indexers, mempool, netsync, mining]) for the
// integrated checks, entirely through btcd's public API, the way server.go does it.
package node

import (
	"fmt"
	"math/big"
	"os"
	"sync"
	"time"

	"github.com/btcsuite/btcd/blockchain"
	"github.com/btcsuite/btcd/blockchain/indexers"
	"github.com/btcsuite/btcd/btcutil/v2"
	"github.com/btcsuite/btcd/chaincfg/v2"
	"github.com/btcsuite/btcd/chainhash/v2"
	"github.com/btcsuite/btcd/database"
	_ "github.com/btcsuite/btcd/database/ffldb"
	"github.com/btcsuite/btcd/txscript/v2"
	"github.com/btcsuite/btcd/wire/v2"
)

// Clock is a harness-owned MedianTimeSource: no oracle ever reads the wall clock.
type Clock struct {
	mu  sync.Mutex
	now int64
}

func NewClock(unix int64) *Clock { return &Clock{now: unix} }
func (c *Clock) AdjustedTime() time.Time {
	c.mu.Lock()
	defer c.mu.Unlock()
	return time.Unix(c.now, 0)
}
func (c *Clock) AddTimeSample(string, time.Time) {}
func (c *Clock) Offset() time.Duration           { return 0 }
func (c *Clock) Set(unix int64)                  { c.mu.Lock(); c.now = unix; c.mu.Unlock() }
func (c *Clock) Now() int64                      { c.mu.Lock(); defer c.mu.Unlock(); return c.now }

// CloneParams deep-copies a Params value: blockchain.New writes the chain into the deployment
// starters/enders (SynchronizeClock), so two live chains must never share them.
func CloneParams(p *chaincfg.Params) *chaincfg.Params {
	q := *p
	for i := range q.Deployments {
		d := &q.Deployments[i]
		if s, ok := d.DeploymentStarter.(*chaincfg.MedianTimeDeploymentStarter); ok {
			d.DeploymentStarter = chaincfg.NewMedianTimeDeploymentStarter(s.StartTime())
		}
		if e, ok := d.DeploymentEnder.(*chaincfg.MedianTimeDeploymentEnder); ok {
			d.DeploymentEnder = chaincfg.NewMedianTimeDeploymentEnder(e.EndTime())
		}
	}
	q.Checkpoints = append([]chaincfg.Checkpoint(nil), p.Checkpoints...)
	q.PowLimit = new(big.Int).Set(p.PowLimit)
	g := *p.GenesisBlock
	q.GenesisBlock = &g
	h := *p.GenesisHash
	q.GenesisHash = &h
	return &q
}

// GenesisTime is the timestamp of the synthetic genesis blocks; the fake clock starts well after it.
const GenesisTime = 1600000000

// Family names of parameter sets.
const (
	FamRegtest  = "regtest"  // all soft forks buried-active, constant minimum difficulty, maturity 6
	FamVarWork  = "varwork"  // custom genesis 16x harder than the limit + testnet min-difficulty rule: per-block work is 1x or 16x by timestamp choice
	FamRetarget = "retarget" // 8-block retarget interval with the 4x clamp, no min-difficulty rule
	FamPreFork  = "prefork"  // BIP34/66/65 heights in the future of short chains; CSV/segwit/taproot never active
)

func customGenesis(bits uint32, ts int64, tag byte) *wire.MsgBlock {
	cb := wire.NewMsgTx(1)
	cb.AddTxIn(&wire.TxIn{PreviousOutPoint: wire.OutPoint{Index: 0xffffffff},
		SignatureScript: []byte{0x04, 0xff, 0xff, 0x00, 0x1d, 0x01, tag}, Sequence: 0xffffffff})
	cb.AddTxOut(&wire.TxOut{Value: 50e8, PkScript: []byte{txscript.OP_TRUE}})
	blk := &wire.MsgBlock{Header: wire.BlockHeader{Version: 1, Timestamp: time.Unix(ts, 0), Bits: bits}}
	blk.AddTransaction(cb)
	blk.Header.MerkleRoot = cb.TxHash()
	return blk
}

// NewParams builds a fresh (unshared) parameter set of the given family.
func NewParams(family string) *chaincfg.Params {
	p := CloneParams(&chaincfg.RegressionNetParams)
	p.CoinbaseMaturity = 6
	p.SubsidyReductionInterval = 150
	switch family {
	case FamRegtest:
		g := customGenesis(p.PowLimitBits, GenesisTime, 1)
		p.GenesisBlock = g
		h := g.BlockHash()
		p.GenesisHash = &h
	case FamVarWork:
		p.Name = "verif-varwork"
		p.PoWNoRetargeting = false
		p.ReduceMinDifficulty = true
		p.MinDiffReductionTime = 20 * time.Minute
		p.TargetTimespan = 14 * 24 * time.Hour
		p.TargetTimePerBlock = 10 * time.Minute
		g := customGenesis(HardBits, GenesisTime, 2)
		p.GenesisBlock = g
		h := g.BlockHash()
		p.GenesisHash = &h
	case FamRetarget:
		p.Name = "verif-retarget"
		p.PoWNoRetargeting = false
		p.ReduceMinDifficulty = false
		p.TargetTimespan = 80 * time.Minute
		p.TargetTimePerBlock = 10 * time.Minute
		p.RetargetAdjustmentFactor = 4
		g := customGenesis(0x2000ffff, GenesisTime, 3)
		p.GenesisBlock = g
		h := g.BlockHash()
		p.GenesisHash = &h
	case FamPreFork:
		p.Name = "verif-prefork"
		p.BIP0034Height = 100000
		p.BIP0065Height = 100000
		p.BIP0066Height = 100000
		for _, id := range []int{chaincfg.DeploymentCSV, chaincfg.DeploymentSegwit, chaincfg.DeploymentTaproot} {
			d := &p.Deployments[id]
			d.AlwaysActiveHeight = 0
			// start time in the far future: state stays Defined
			d.DeploymentStarter = chaincfg.NewMedianTimeDeploymentStarter(time.Unix(4000000000, 0))
			d.DeploymentEnder = chaincfg.NewMedianTimeDeploymentEnder(time.Unix(4100000000, 0))
		}
		g := customGenesis(p.PowLimitBits, GenesisTime, 4)
		p.GenesisBlock = g
		h := g.BlockHash()
		p.GenesisHash = &h
	default:
		panic("unknown params family " + family)
	}
	return p
}

// HardBits is the genesis difficulty of the varwork family: target 2^251-ish, i.e. 16x the work of a
// minimum-difficulty block (PowLimitBits 0x207fffff).
const HardBits = 0x2007ffff

// Notif is one recorded blockchain notification.
type Notif struct {
	Type blockchain.NotificationType
	Hash chainhash.Hash
}

// Config selects what is wired.
type Config struct {
	Params           *chaincfg.Params
	UtxoCacheMaxSize uint64
	Prune            uint64
	CfIndex          bool
	ClockStart       int64 // unix; 0 => GenesisTime + 10 years
	SigCache         bool
	Checkpoints      []chaincfg.Checkpoint
	// FFLDB, when set (verif builds only), opens the store through hook H1 with an I/O observer and limits.
	FFLDB *FFLDBOpts
	// WrapDB, when set, decorates the opened database before the chain gets it (fault injection at the database.DB
	// interface: a View / Update that fails once)
	WrapDB func(database.DB) database.DB
}

var openHooked func(dir string, net wire.BitcoinNet, create bool, o *FFLDBOpts) (database.DB, error)

// Node is a live integrated node.
type Node struct {
	Dir    string
	Cfg    Config
	DB     database.DB
	Chain  *blockchain.BlockChain
	Params *chaincfg.Params
	Clock  *Clock
	CfIdx  *indexers.CfIndex

	mu     sync.Mutex
	notifs []Notif
}

// Open creates (or reopens) the database under dir and starts a chain on it.
func Open(dir string, cfg Config, clock *Clock) (*Node, error) {
	if cfg.Params == nil {
		return nil, fmt.Errorf("node.Open: nil params")
	}
	var db database.DB
	var err error
	_, serr := os.Stat(dir + "/metadata")
	exists := serr == nil
	switch {
	case cfg.FFLDB != nil && openHooked != nil:
		if !exists {
			os.MkdirAll(dir, 0o755)
		}
		db, err = openHooked(dir, cfg.Params.Net, !exists, cfg.FFLDB)
	case exists:
		db, err = database.Open("ffldb", dir, cfg.Params.Net)
	default:
		os.MkdirAll(dir, 0o755)
		db, err = database.Create("ffldb", dir, cfg.Params.Net)
	}
	if err != nil {
		return nil, fmt.Errorf("database open/create: %w", err)
	}
	if cfg.WrapDB != nil {
		db = cfg.WrapDB(db)
	}
	if clock == nil {
		st := cfg.ClockStart
		if st == 0 {
			st = GenesisTime + 10*365*86400
		}
		clock = NewClock(st)
	}
	n := &Node{Dir: dir, Cfg: cfg, DB: db, Params: cfg.Params, Clock: clock}
	bc := &blockchain.Config{DB: db, ChainParams: cfg.Params, TimeSource: clock,
		UtxoCacheMaxSize: cfg.UtxoCacheMaxSize, Prune: cfg.Prune, Checkpoints: cfg.Checkpoints}
	if cfg.SigCache {
		bc.SigCache = txscript.NewSigCache(1000)
		bc.HashCache = txscript.NewHashCache(1000)
	}
	if cfg.CfIndex {
		n.CfIdx = indexers.NewCfIndex(db, cfg.Params)
		bc.IndexManager = indexers.NewManager(db, []indexers.Indexer{n.CfIdx})
	}
	chain, err := blockchain.New(bc)
	if err != nil {
		db.Close()
		return nil, fmt.Errorf("blockchain.New: %w", err)
	}
	n.Chain = chain
	chain.Subscribe(func(nt *blockchain.Notification) {
		if b, ok := nt.Data.(*btcutil.Block); ok {
			n.mu.Lock()
			n.notifs = append(n.notifs, Notif{Type: nt.Type, Hash: *b.Hash()})
			n.mu.Unlock()
		}
	})
	return n, nil
}

// TakeNotifs returns and clears the recorded notifications.
func (n *Node) TakeNotifs() []Notif {
	n.mu.Lock()
	defer n.mu.Unlock()
	r := n.notifs
	n.notifs = nil
	return r
}

// Close flushes the utxo cache the way btcd's shutdown does and closes the database.
func (n *Node) Close() error {
	var ferr error
	if n.Chain != nil {
		ferr = n.Chain.FlushUtxoCache(blockchain.FlushRequired)
	}
	err := n.DB.Close()
	if ferr != nil {
		return ferr
	}
	return err
}

// CloseNoFlush closes the database without flushing the utxo cache (an abrupt but orderly stop).
func (n *Node) CloseNoFlush() error { return n.DB.Close() }
