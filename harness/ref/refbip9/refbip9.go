// Package refbip9 evaluates the BIP9 version-bits state machine naively, from genesis, for any block of
// a refchain tree. Two transition tables exist: the classic BIP9 one and the amended ("speedy trial",
// BIP341 deployment) one with a minimum activation height, in which a deployment can only fail at the
// end of a window in which it did not lock in.
package refbip9

import "verif/ref/refchain"

type State int

const (
	Defined State = iota
	Started
	LockedIn
	Active
	Failed
)

func (s State) String() string {
	return [...]string{"Defined", "Started", "LockedIn", "Active", "Failed"}[s]
}

// Deployment is the definition of one soft-fork deployment.
type Deployment struct {
	Bit                 uint8
	Start, Timeout      int64 // median-time-past thresholds; 0 start = always started, 0 timeout = never ends
	Threshold           uint32
	Window              int32
	MinActivationHeight uint32
	AlwaysActiveHeight  uint32 // 0 = unset
	Speedy              bool
}

// Signals: top three version bits are 001 and the deployment's bit is set.
func Signals(version int32, bit uint8) bool {
	v := uint32(version)
	return v&0xe0000000 == 0x20000000 && v&(1<<bit) != 0
}

// StateAfter returns the state that applies to the block following prev (prev == nil: the genesis block).
func StateAfter(prev *refchain.Block, d *Deployment) State {
	if prev != nil && d.AlwaysActiveHeight != 0 && uint32(prev.Height)+1 >= d.AlwaysActiveHeight {
		return Active
	}
	if prev == nil || prev.Height+1 < d.Window {
		return Defined
	}
	path := prev.Path()
	state := Defined
	// the state changes only at window boundaries: evaluate one transition per complete window, using
	// the last block of that window
	for h := d.Window - 1; h <= prev.Height; h += d.Window {
		last := path[h]
		mtp := last.MTP()
		started := d.Start == 0 || mtp >= d.Start
		ended := d.Timeout != 0 && mtp >= d.Timeout
		switch state {
		case Defined:
			if !d.Speedy && ended {
				state = Failed
			} else if started {
				state = Started
			}
		case Started:
			if !d.Speedy && ended {
				state = Failed
				break
			}
			count := uint32(0)
			for i := int32(0); i < d.Window; i++ {
				if Signals(path[h-i].Msg.Header.Version, d.Bit) {
					count++
				}
			}
			if count >= d.Threshold {
				state = LockedIn
			} else if d.Speedy && ended {
				state = Failed
			}
		case LockedIn:
			if d.MinActivationHeight == 0 || uint32(last.Height)+1 >= d.MinActivationHeight {
				state = Active
			}
		}
	}
	return state
}
