// Package refacct holds the definitional reference models of property C13 (consensus accounting
// primitives): an own transaction / block (de)serializer with txid, wtxid and weight; merkle roots and the
// BIP141 witness commitment; legacy / P2SH / witness signature-operation counting; the BIP34 coinbase
// height prefix; IsFinalTx and the BIP68 sequence-lock computation.
//
// Everything here is written from the BIPs and from Bitcoin Core's semantics (primitives/transaction.h,
// consensus/merkle.cpp, consensus/tx_verify.cpp, script/script.cpp, script/interpreter.cpp:CountWitnessSigOps,
// validation.cpp:ContextualCheckBlock), deliberately naive, and shares nothing with btcd beyond crypto/sha256.
package refacct

import (
	"crypto/sha256"
	"errors"
)

// Hash is a 32-byte double-SHA256 value in internal byte order.
type Hash = [32]byte

// DSHA is SHA256(SHA256(b)).
func DSHA(b []byte) Hash {
	a := sha256.Sum256(b)
	return sha256.Sum256(a[:])
}

// TxIn is one transaction input.
type TxIn struct {
	PrevHash  Hash
	PrevIndex uint32
	ScriptSig []byte
	Sequence  uint32
	Witness   [][]byte // script witness stack (nil/empty = no witness for this input)
}

// TxOut is one transaction output.
type TxOut struct {
	Value    int64
	PkScript []byte
}

// Tx is a transaction.
type Tx struct {
	Version  int32
	In       []TxIn
	Out      []TxOut
	LockTime uint32
}

// Header is an 80-byte block header.
type Header struct {
	Version int32
	Prev    Hash
	Merkle  Hash
	Time    uint32
	Bits    uint32
	Nonce   uint32
}

// Block is a header plus transactions.
type Block struct {
	Header Header
	Txs    []*Tx
}

func putU32(b []byte, v uint32) []byte {
	return append(b, byte(v), byte(v>>8), byte(v>>16), byte(v>>24))
}

func putU64(b []byte, v uint64) []byte {
	for i := 0; i < 8; i++ {
		b = append(b, byte(v>>(8*uint(i))))
	}
	return b
}

// PutCompactSize appends Bitcoin's variable length integer.
func PutCompactSize(b []byte, v uint64) []byte {
	switch {
	case v < 253:
		return append(b, byte(v))
	case v <= 0xffff:
		return append(b, 253, byte(v), byte(v>>8))
	case v <= 0xffffffff:
		return putU32(append(b, 254), uint32(v))
	default:
		return putU64(append(b, 255), v)
	}
}

func putVarBytes(b, data []byte) []byte {
	return append(PutCompactSize(b, uint64(len(data))), data...)
}

// HasWitness is Core's CTransaction::HasWitness: some input has a non-empty witness stack.
func (t *Tx) HasWitness() bool {
	for i := range t.In {
		if len(t.In[i].Witness) != 0 {
			return true
		}
	}
	return false
}

// Serialize returns the network serialization. With allowWitness and HasWitness() the BIP144
// extended format (marker 0x00, flag 0x01, witness stacks after the outputs) is used.
func (t *Tx) Serialize(allowWitness bool) []byte {
	ext := allowWitness && t.HasWitness()
	var b []byte
	b = putU32(b, uint32(t.Version))
	if ext {
		b = append(b, 0x00, 0x01)
	}
	b = PutCompactSize(b, uint64(len(t.In)))
	for i := range t.In {
		in := &t.In[i]
		b = append(b, in.PrevHash[:]...)
		b = putU32(b, in.PrevIndex)
		b = putVarBytes(b, in.ScriptSig)
		b = putU32(b, in.Sequence)
	}
	b = PutCompactSize(b, uint64(len(t.Out)))
	for i := range t.Out {
		b = putU64(b, uint64(t.Out[i].Value))
		b = putVarBytes(b, t.Out[i].PkScript)
	}
	if ext {
		for i := range t.In {
			w := t.In[i].Witness
			b = PutCompactSize(b, uint64(len(w)))
			for _, item := range w {
				b = putVarBytes(b, item)
			}
		}
	}
	b = putU32(b, t.LockTime)
	return b
}

// TxID is the double-SHA256 of the serialization without witness.
func (t *Tx) TxID() Hash { return DSHA(t.Serialize(false)) }

// WTxID is the double-SHA256 of the serialization with witness (equal to TxID when there is none).
func (t *Tx) WTxID() Hash { return DSHA(t.Serialize(true)) }

// Weight is BIP141's transaction weight: 3 * stripped size + total size.
func (t *Tx) Weight() int64 {
	return 3*int64(len(t.Serialize(false))) + int64(len(t.Serialize(true)))
}

// IsCoinBase is Core's CTransaction::IsCoinBase: exactly one input whose prevout is null
// (zero hash, index 0xffffffff).
func (t *Tx) IsCoinBase() bool {
	return len(t.In) == 1 && t.In[0].PrevHash == Hash{} && t.In[0].PrevIndex == 0xffffffff
}

// Serialize returns the 80 header bytes.
func (h *Header) Serialize() []byte {
	var b []byte
	b = putU32(b, uint32(h.Version))
	b = append(b, h.Prev[:]...)
	b = append(b, h.Merkle[:]...)
	b = putU32(b, h.Time)
	b = putU32(b, h.Bits)
	b = putU32(b, h.Nonce)
	return b
}

// Hash is the block hash.
func (h *Header) Hash() Hash { return DSHA(h.Serialize()) }

// Serialize returns the block serialization with or without witness data.
func (bl *Block) Serialize(allowWitness bool) []byte {
	b := bl.Header.Serialize()
	b = PutCompactSize(b, uint64(len(bl.Txs)))
	for _, t := range bl.Txs {
		b = append(b, t.Serialize(allowWitness)...)
	}
	return b
}

// Weight is BIP141's block weight: 3 * size without witness + size with witness.
func (bl *Block) Weight() int64 {
	return 3*int64(len(bl.Serialize(false))) + int64(len(bl.Serialize(true)))
}

// ---------------------------------------------------------------------------------------------
// A small parser, used only to calibrate the serializer against raw main-chain blocks.

type reader struct {
	b   []byte
	pos int
	err error
}

func (r *reader) take(n int) []byte {
	if r.err != nil {
		return nil
	}
	if n < 0 || len(r.b)-r.pos < n {
		r.err = errors.New("refacct: short read")
		return nil
	}
	v := r.b[r.pos : r.pos+n]
	r.pos += n
	return v
}

func (r *reader) u32() uint32 {
	v := r.take(4)
	if v == nil {
		return 0
	}
	return uint32(v[0]) | uint32(v[1])<<8 | uint32(v[2])<<16 | uint32(v[3])<<24
}

func (r *reader) u64() uint64 {
	lo := uint64(r.u32())
	hi := uint64(r.u32())
	return lo | hi<<32
}

func (r *reader) compact() uint64 {
	v := r.take(1)
	if v == nil {
		return 0
	}
	switch v[0] {
	case 253:
		w := r.take(2)
		if w == nil {
			return 0
		}
		return uint64(w[0]) | uint64(w[1])<<8
	case 254:
		return uint64(r.u32())
	case 255:
		return r.u64()
	}
	return uint64(v[0])
}

func (r *reader) varBytes() []byte {
	n := r.compact()
	if n > uint64(len(r.b)) {
		r.err = errors.New("refacct: oversized length")
		return nil
	}
	return append([]byte{}, r.take(int(n))...)
}

func (r *reader) tx() *Tx {
	t := &Tx{}
	t.Version = int32(r.u32())
	nin := r.compact()
	ext := false
	if nin == 0 && r.err == nil && r.pos < len(r.b) && r.b[r.pos] == 0x01 {
		ext = true
		r.pos++
		nin = r.compact()
	}
	if nin > uint64(len(r.b)) {
		r.err = errors.New("refacct: oversized input count")
		return nil
	}
	for i := uint64(0); i < nin && r.err == nil; i++ {
		var in TxIn
		copy(in.PrevHash[:], r.take(32))
		in.PrevIndex = r.u32()
		in.ScriptSig = r.varBytes()
		in.Sequence = r.u32()
		t.In = append(t.In, in)
	}
	nout := r.compact()
	if nout > uint64(len(r.b)) {
		r.err = errors.New("refacct: oversized output count")
		return nil
	}
	for i := uint64(0); i < nout && r.err == nil; i++ {
		var out TxOut
		out.Value = int64(r.u64())
		out.PkScript = r.varBytes()
		t.Out = append(t.Out, out)
	}
	if ext {
		for i := range t.In {
			n := r.compact()
			if n > uint64(len(r.b)) {
				r.err = errors.New("refacct: oversized witness count")
				return nil
			}
			for j := uint64(0); j < n && r.err == nil; j++ {
				t.In[i].Witness = append(t.In[i].Witness, r.varBytes())
			}
		}
	}
	t.LockTime = r.u32()
	return t
}

// ParseTx parses exactly one transaction.
func ParseTx(b []byte) (*Tx, error) {
	r := &reader{b: b}
	t := r.tx()
	if r.err != nil {
		return nil, r.err
	}
	if r.pos != len(b) {
		return nil, errors.New("refacct: trailing bytes after transaction")
	}
	return t, nil
}

// ParseBlock parses exactly one block.
func ParseBlock(b []byte) (*Block, error) {
	r := &reader{b: b}
	bl := &Block{}
	bl.Header.Version = int32(r.u32())
	copy(bl.Header.Prev[:], r.take(32))
	copy(bl.Header.Merkle[:], r.take(32))
	bl.Header.Time = r.u32()
	bl.Header.Bits = r.u32()
	bl.Header.Nonce = r.u32()
	n := r.compact()
	if n > uint64(len(b)) {
		return nil, errors.New("refacct: oversized tx count")
	}
	for i := uint64(0); i < n && r.err == nil; i++ {
		bl.Txs = append(bl.Txs, r.tx())
	}
	if r.err != nil {
		return nil, r.err
	}
	if r.pos != len(b) {
		return nil, errors.New("refacct: trailing bytes after block")
	}
	return bl, nil
}
