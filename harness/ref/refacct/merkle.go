package refacct

// MerkleLevels computes Bitcoin's merkle tree bottom-up exactly as defined (consensus/merkle.cpp):
// on every level with an odd number of nodes the last node is paired with itself; the root of the
// empty list is the zero hash. levels[0] are the leaves, levels[len-1] is {root}.
func MerkleLevels(leaves []Hash) (root Hash, levels [][]Hash) {
	if len(leaves) == 0 {
		return Hash{}, nil
	}
	cur := append([]Hash{}, leaves...)
	levels = append(levels, cur)
	for len(cur) > 1 {
		var next []Hash
		for i := 0; i < len(cur); i += 2 {
			l := cur[i]
			r := l
			if i+1 < len(cur) {
				r = cur[i+1]
			}
			var cat []byte
			cat = append(cat, l[:]...)
			cat = append(cat, r[:]...)
			next = append(next, DSHA(cat))
		}
		cur = next
		levels = append(levels, cur)
	}
	return cur[0], levels
}

// MerkleRoot is the root only.
func MerkleRoot(leaves []Hash) Hash {
	r, _ := MerkleLevels(leaves)
	return r
}

// merkleRecursive is a second, structurally different definition (top-down recursion over the
// padded tree) used to cross-check MerkleLevels inside the reference itself.
func merkleRecursive(leaves []Hash) Hash {
	if len(leaves) == 0 {
		return Hash{}
	}
	height := 0
	for (1 << uint(height)) < len(leaves) {
		height++
	}
	var node func(level, index int) (Hash, bool)
	node = func(level, index int) (Hash, bool) {
		// number of nodes present on this level
		width := len(leaves)
		for i := 0; i < level; i++ {
			width = (width + 1) / 2
		}
		if index >= width {
			return Hash{}, false
		}
		if level == 0 {
			return leaves[index], true
		}
		l, _ := node(level-1, 2*index)
		r, ok := node(level-1, 2*index+1)
		if !ok {
			r = l
		}
		var cat []byte
		cat = append(cat, l[:]...)
		cat = append(cat, r[:]...)
		return DSHA(cat), true
	}
	h, _ := node(height, 0)
	return h
}

// MerkleRecursive exposes the second definition.
func MerkleRecursive(leaves []Hash) Hash { return merkleRecursive(leaves) }

// TxLeaves returns the leaf list of a transaction list: txids, or for the witness tree the wtxids
// with the first (coinbase) leaf replaced by the zero hash (BIP141).
func TxLeaves(txs []*Tx, witness bool) []Hash {
	out := make([]Hash, len(txs))
	for i, t := range txs {
		switch {
		case witness && i == 0:
			out[i] = Hash{}
		case witness:
			out[i] = t.WTxID()
		default:
			out[i] = t.TxID()
		}
	}
	return out
}

// MinWitnessCommitment is the minimum length of a witness commitment output script.
const MinWitnessCommitment = 38

// WitnessCommitmentIndex is Core's GetWitnessCommitmentIndex applied to the coinbase: the index of
// the LAST output whose script is at least 38 bytes and starts with 6a 24 aa 21 a9 ed, or -1.
func WitnessCommitmentIndex(coinbase *Tx) int {
	pos := -1
	for i := range coinbase.Out {
		s := coinbase.Out[i].PkScript
		if len(s) >= MinWitnessCommitment && s[0] == 0x6a && s[1] == 0x24 && s[2] == 0xaa &&
			s[3] == 0x21 && s[4] == 0xa9 && s[5] == 0xed {
			pos = i
		}
	}
	return pos
}

// Witness commitment verdicts.
const (
	WCOk              = "ok"
	WCBadNonceSize    = "bad-witness-nonce-size"
	WCBadMerkleMatch  = "bad-witness-merkle-match"
	WCUnexpectedWitns = "unexpected-witness"
)

// CheckWitnessCommitment is the BIP141 block rule as implemented by Core's ContextualCheckBlock with
// segwit active. The block must have a coinbase as its first transaction.
func CheckWitnessCommitment(bl *Block) string {
	cb := bl.Txs[0]
	pos := WitnessCommitmentIndex(cb)
	if pos >= 0 {
		root := MerkleRoot(TxLeaves(bl.Txs, true))
		w := cb.In[0].Witness
		if len(w) != 1 || len(w[0]) != 32 {
			return WCBadNonceSize
		}
		var cat []byte
		cat = append(cat, root[:]...)
		cat = append(cat, w[0]...)
		h := DSHA(cat)
		if string(h[:]) != string(cb.Out[pos].PkScript[6:38]) {
			return WCBadMerkleMatch
		}
		return WCOk
	}
	for _, t := range bl.Txs {
		if t.HasWitness() {
			return WCUnexpectedWitns
		}
	}
	return WCOk
}

// WitnessCommitmentScript builds the canonical 38-byte commitment script for a block body and nonce.
func WitnessCommitmentScript(txs []*Tx, nonce []byte) []byte {
	root := MerkleRoot(TxLeaves(txs, true))
	var cat []byte
	cat = append(cat, root[:]...)
	cat = append(cat, nonce...)
	h := DSHA(cat)
	return append([]byte{0x6a, 0x24, 0xaa, 0x21, 0xa9, 0xed}, h[:]...)
}
