package refacct

import "errors"

// EncodeScriptNum is CScriptNum::serialize: minimal little-endian sign-magnitude.
func EncodeScriptNum(n int64) []byte {
	if n == 0 {
		return nil
	}
	neg := n < 0
	var abs uint64
	if neg {
		abs = uint64(-n)
	} else {
		abs = uint64(n)
	}
	var b []byte
	for abs > 0 {
		b = append(b, byte(abs&0xff))
		abs >>= 8
	}
	if b[len(b)-1]&0x80 != 0 {
		if neg {
			b = append(b, 0x80)
		} else {
			b = append(b, 0x00)
		}
	} else if neg {
		b[len(b)-1] |= 0x80
	}
	return b
}

// HeightPrefix is BIP34's required coinbase scriptSig prefix as Core builds it: `CScript() << nHeight`.
// CScript::push_int64 emits OP_0 for 0, OP_1..OP_16 (and OP_1NEGATE for -1) as a single opcode, and a
// minimal CScriptNum data push otherwise.
func HeightPrefix(height int64) []byte {
	switch {
	case height == -1 || (height >= 1 && height <= 16):
		return []byte{byte(height + (op1 - 1))}
	case height == 0:
		return []byte{op0}
	}
	num := EncodeScriptNum(height)
	return append([]byte{byte(len(num))}, num...) // at most 9 bytes: always a direct push
}

func hasPrefix(s, p []byte) bool {
	return len(s) >= len(p) && string(s[:len(p)]) == string(p)
}

// CheckHeight is ContextualCheckBlock's BIP34 rule: the coinbase scriptSig starts with HeightPrefix(height).
func CheckHeight(scriptSig []byte, height int64) bool {
	return hasPrefix(scriptSig, HeightPrefix(height))
}

// ErrNoHeight is returned when no non-negative 32-bit height satisfies the BIP34 rule for a scriptSig.
var ErrNoHeight = errors.New("refacct: scriptSig does not start with a BIP34 height")

// ExtractHeight returns the unique height in [0, 2^31-1] for which CheckHeight holds, if any. The
// candidates are read off the first byte: OP_0, OP_1..OP_16, or a direct push of k bytes interpreted as a
// little-endian magnitude; the candidate is then confirmed with the definitional CheckHeight.
func ExtractHeight(scriptSig []byte) (int32, error) {
	if len(scriptSig) == 0 {
		return 0, ErrNoHeight
	}
	f := scriptSig[0]
	var cand int64 = -1
	switch {
	case f == op0:
		cand = 0
	case f >= op1 && f <= op16:
		cand = int64(f) - (op1 - 1)
	case f >= 1 && f <= 5 && len(scriptSig) >= 1+int(f):
		var v uint64
		for i := int(f); i >= 1; i-- {
			v = v<<8 | uint64(scriptSig[i])
		}
		if v <= 0x7fffffff {
			cand = int64(v)
		}
	}
	if cand < 0 || !CheckHeight(scriptSig, cand) {
		return 0, ErrNoHeight
	}
	return int32(cand), nil
}
