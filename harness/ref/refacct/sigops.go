package refacct

// Signature-operation counting, written from Bitcoin Core:
//   CScript::GetSigOpCount(bool fAccurate), CScript::GetSigOpCount(const CScript& scriptSig),
//   GetLegacySigOpCount, GetP2SHSigOpCount, CountWitnessSigOps / WitnessSigOps, GetTransactionSigOpCost.

// Opcodes that matter for counting.
const (
	op0              = 0x00
	opPushData1      = 0x4c
	opPushData2      = 0x4d
	opPushData4      = 0x4e
	op1              = 0x51
	op16             = 0x60
	opHash160        = 0xa9
	opEqual          = 0x87
	opCheckSig       = 0xac
	opCheckSigVerify = 0xad
	opCheckMultiSig  = 0xae
	opCheckMultiSigV = 0xaf
	opInvalid        = 0xff

	// MaxPubKeysPerMultisig is what an OP_CHECKMULTISIG(VERIFY) counts for when it is not accurately sized.
	MaxPubKeysPerMultisig = 20
	// WitnessScaleFactor is BIP141's factor.
	WitnessScaleFactor = 4
)

// GetOp is Core's GetScriptOp: reads one opcode (and the data it pushes) at *pc. ok=false means the
// script is malformed at this position (truncated push); pc is then meaningless and callers stop.
func GetOp(script []byte, pc *int) (opcode byte, data []byte, ok bool) {
	if *pc >= len(script) {
		return opInvalid, nil, false
	}
	opcode = script[*pc]
	*pc++
	if opcode <= opPushData4 {
		var size uint64
		switch {
		case opcode < opPushData1:
			size = uint64(opcode)
		case opcode == opPushData1:
			if len(script)-*pc < 1 {
				return opInvalid, nil, false
			}
			size = uint64(script[*pc])
			*pc++
		case opcode == opPushData2:
			if len(script)-*pc < 2 {
				return opInvalid, nil, false
			}
			size = uint64(script[*pc]) | uint64(script[*pc+1])<<8
			*pc += 2
		default: // OP_PUSHDATA4
			if len(script)-*pc < 4 {
				return opInvalid, nil, false
			}
			size = uint64(script[*pc]) | uint64(script[*pc+1])<<8 | uint64(script[*pc+2])<<16 | uint64(script[*pc+3])<<24
			*pc += 4
		}
		if uint64(len(script)-*pc) < size {
			return opInvalid, nil, false
		}
		data = script[*pc : *pc+int(size)]
		*pc += int(size)
	}
	return opcode, data, true
}

// SigOpCount is CScript::GetSigOpCount(fAccurate): every CHECKSIG(VERIFY) counts 1; every
// CHECKMULTISIG(VERIFY) counts n when accurate and the immediately preceding opcode is OP_1..OP_16,
// otherwise 20. Push payloads are skipped. Counting stops silently at the first malformed push.
func SigOpCount(script []byte, accurate bool) int {
	n := 0
	pc := 0
	last := byte(opInvalid)
	for pc < len(script) {
		op, _, ok := GetOp(script, &pc)
		if !ok {
			break
		}
		switch op {
		case opCheckSig, opCheckSigVerify:
			n++
		case opCheckMultiSig, opCheckMultiSigV:
			if accurate && last >= op1 && last <= op16 {
				n += int(last) - (op1 - 1)
			} else {
				n += MaxPubKeysPerMultisig
			}
		}
		last = op
	}
	return n
}

// IsP2SH is CScript::IsPayToScriptHash.
func IsP2SH(s []byte) bool {
	return len(s) == 23 && s[0] == opHash160 && s[1] == 0x14 && s[22] == opEqual
}

// IsPushOnly is CScript::IsPushOnly (OP_RESERVED and OP_1NEGATE count as pushes; a malformed push fails).
func IsPushOnly(s []byte) bool {
	pc := 0
	for pc < len(s) {
		op, _, ok := GetOp(s, &pc)
		if !ok {
			return false
		}
		if op > op16 {
			return false
		}
	}
	return true
}

// IsWitnessProgram is CScript::IsWitnessProgram.
func IsWitnessProgram(s []byte) (version int, program []byte, ok bool) {
	if len(s) < 4 || len(s) > 42 {
		return 0, nil, false
	}
	if s[0] != op0 && (s[0] < op1 || s[0] > op16) {
		return 0, nil, false
	}
	if int(s[1])+2 == len(s) {
		v := 0
		if s[0] != op0 {
			v = int(s[0]) - (op1 - 1)
		}
		return v, s[2:], true
	}
	return 0, nil, false
}

// P2SHSigOpCount is CScript::GetSigOpCount(const CScript& scriptSig) called on scriptPubKey: for a
// non-P2SH scriptPubKey the accurate count of scriptPubKey itself; for P2SH the accurate count of the
// last item pushed by scriptSig, or 0 when scriptSig is malformed or contains a non-push opcode.
func P2SHSigOpCount(scriptPubKey, scriptSig []byte) int {
	if !IsP2SH(scriptPubKey) {
		return SigOpCount(scriptPubKey, true)
	}
	pc := 0
	var last []byte
	for pc < len(scriptSig) {
		op, data, ok := GetOp(scriptSig, &pc)
		if !ok {
			return 0
		}
		if op > op16 {
			return 0
		}
		last = data // GetOp clears the data for non-push opcodes (OP_1NEGATE, OP_RESERVED, OP_1..OP_16)
	}
	return SigOpCount(last, true)
}

// witnessSigOps is interpreter.cpp:WitnessSigOps.
func witnessSigOps(version int, program []byte, witness [][]byte) int {
	if version == 0 {
		if len(program) == 20 {
			return 1
		}
		if len(program) == 32 && len(witness) > 0 {
			return SigOpCount(witness[len(witness)-1], true)
		}
	}
	return 0
}

// CountWitnessSigOps is interpreter.cpp:CountWitnessSigOps with SCRIPT_VERIFY_WITNESS|P2SH set.
func CountWitnessSigOps(scriptSig, scriptPubKey []byte, witness [][]byte) int {
	if v, prog, ok := IsWitnessProgram(scriptPubKey); ok {
		return witnessSigOps(v, prog, witness)
	}
	if IsP2SH(scriptPubKey) && IsPushOnly(scriptSig) {
		pc := 0
		var data []byte
		for pc < len(scriptSig) {
			_, d, _ := GetOp(scriptSig, &pc)
			data = d
		}
		if v, prog, ok := IsWitnessProgram(data); ok {
			return witnessSigOps(v, prog, witness)
		}
	}
	return 0
}

// LegacySigOpCount is GetLegacySigOpCount: inaccurate count over all scriptSigs and scriptPubKeys of the tx.
func LegacySigOpCount(t *Tx) int {
	n := 0
	for i := range t.In {
		n += SigOpCount(t.In[i].ScriptSig, false)
	}
	for i := range t.Out {
		n += SigOpCount(t.Out[i].PkScript, false)
	}
	return n
}

// TxP2SHSigOpCount is GetP2SHSigOpCount. prevScripts[i] is the scriptPubKey spent by input i.
func TxP2SHSigOpCount(t *Tx, prevScripts [][]byte) int {
	if t.IsCoinBase() {
		return 0
	}
	n := 0
	for i := range t.In {
		if IsP2SH(prevScripts[i]) {
			n += P2SHSigOpCount(prevScripts[i], t.In[i].ScriptSig)
		}
	}
	return n
}

// TransactionSigOpCost is GetTransactionSigOpCost. p2sh / witness are the SCRIPT_VERIFY_P2SH /
// SCRIPT_VERIFY_WITNESS flags (witness requires p2sh in Core).
func TransactionSigOpCost(t *Tx, prevScripts [][]byte, p2sh, witness bool) int {
	n := LegacySigOpCount(t) * WitnessScaleFactor
	if t.IsCoinBase() {
		return n
	}
	if p2sh {
		n += TxP2SHSigOpCount(t, prevScripts) * WitnessScaleFactor
	}
	if witness {
		for i := range t.In {
			n += CountWitnessSigOps(t.In[i].ScriptSig, prevScripts[i], t.In[i].Witness)
		}
	}
	return n
}
