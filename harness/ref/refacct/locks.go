package refacct

import "sort"

// Lock-time constants (script/script.h, primitives/transaction.h).
const (
	LockTimeThreshold       = 500000000
	SequenceFinal           = 0xffffffff
	SequenceDisableFlag     = 1 << 31
	SequenceTypeFlag        = 1 << 22
	SequenceMask            = 0x0000ffff
	SequenceGranularity     = 9
	MedianTimeSpan          = 11
	MaxRelativeLockSeconds  = SequenceMask << SequenceGranularity
	MaxRelativeLockInBlocks = SequenceMask
)

// IsFinalTx is consensus/tx_verify.cpp:IsFinalTx.
func IsFinalTx(t *Tx, blockHeight int32, blockTime int64) bool {
	if t.LockTime == 0 {
		return true
	}
	lt := int64(t.LockTime)
	var limit int64
	if lt < LockTimeThreshold {
		limit = int64(blockHeight)
	} else {
		limit = blockTime
	}
	if lt < limit {
		return true
	}
	for i := range t.In {
		if t.In[i].Sequence != SequenceFinal {
			return false
		}
	}
	return true
}

// MedianTimePast is CBlockIndex::GetMedianTimePast for the block at `height` of a chain whose block
// timestamps are times[0..]: the median (element size/2 of the sorted list) of the timestamps of the
// block and up to 10 ancestors.
func MedianTimePast(times []int64, height int) int64 {
	var w []int64
	for h := height; h >= 0 && len(w) < MedianTimeSpan; h-- {
		w = append(w, times[h])
	}
	sort.Slice(w, func(i, j int) bool { return w[i] < w[j] })
	return w[len(w)/2]
}

// SeqLock is the (height, time) pair of BIP68: the last height / median-time-past at which the
// transaction is NOT yet allowed; -1 means no constraint.
type SeqLock struct {
	MinHeight int32
	MinTime   int64
}

// CalculateSequenceLocks is consensus/tx_verify.cpp:CalculateSequenceLocks with LOCKTIME_VERIFY_SEQUENCE
// set iff enforce. prevHeights[i] is the height of the block containing the coin spent by input i (for
// an unconfirmed coin: tip height + 1). mtpAt(h) must return the median-time-past of the ancestor at
// height h of the block the transaction would be included in.
func CalculateSequenceLocks(t *Tx, enforce bool, prevHeights []int32, mtpAt func(h int32) int64) SeqLock {
	lock := SeqLock{MinHeight: -1, MinTime: -1}
	if !(uint32(t.Version) >= 2 && enforce) {
		return lock
	}
	for i := range t.In {
		seq := t.In[i].Sequence
		if seq&SequenceDisableFlag != 0 {
			continue
		}
		coinHeight := prevHeights[i]
		if seq&SequenceTypeFlag != 0 {
			h := coinHeight - 1
			if h < 0 {
				h = 0
			}
			coinTime := mtpAt(h)
			v := coinTime + int64((seq&SequenceMask)<<SequenceGranularity) - 1
			if v > lock.MinTime {
				lock.MinTime = v
			}
		} else {
			v := coinHeight + int32(seq&SequenceMask) - 1
			if v > lock.MinHeight {
				lock.MinHeight = v
			}
		}
	}
	return lock
}

// EvaluateSequenceLocks is consensus/tx_verify.cpp:EvaluateSequenceLocks: blockHeight is the height of
// the including block and prevMTP the median-time-past of its parent.
func EvaluateSequenceLocks(blockHeight int32, prevMTP int64, lock SeqLock) bool {
	if lock.MinHeight >= blockHeight || lock.MinTime >= prevMTP {
		return false
	}
	return true
}

// LockTimeToSequence is the BIP68 encoding of a relative lock: blocks are the value itself, seconds are
// expressed in units of 512 s with the type flag set. Defined for blocks <= 0xffff and seconds <= 0xffff*512+511.
func LockTimeToSequence(isSeconds bool, v uint32) uint32 {
	if !isSeconds {
		return v
	}
	return SequenceTypeFlag | (v / 512)
}
