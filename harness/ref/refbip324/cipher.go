package refbip324

import (
	"crypto/hmac"
	"crypto/sha256"
	"crypto/subtle"
	"encoding/binary"

	"golang.org/x/crypto/chacha20"
	"golang.org/x/crypto/poly1305"
)

// RekeyInterval is the number of messages per key epoch.
const RekeyInterval = 224

// HKDFExtract is RFC 5869 Extract with SHA-256.
func HKDFExtract(salt, ikm []byte) []byte {
	m := hmac.New(sha256.New, salt)
	m.Write(ikm)
	return m.Sum(nil)
}

// HKDFExpand32 is RFC 5869 Expand with SHA-256 for L = 32 (a single block T(1)).
func HKDFExpand32(prk []byte, info string) (out [32]byte) {
	m := hmac.New(sha256.New, prk)
	m.Write([]byte(info))
	m.Write([]byte{1})
	copy(out[:], m.Sum(nil))
	return
}

// Keys is everything derived from the ECDH secret.
type Keys struct {
	InitiatorL, InitiatorP, ResponderL, ResponderP [32]byte
	SessionID                                      [32]byte
	InitiatorGarbageTerm, ResponderGarbageTerm     [16]byte
}

// DeriveKeys is initialize_v2_transport's key schedule.
func DeriveKeys(secret [32]byte, magic [4]byte) Keys {
	salt := append([]byte("bitcoin_v2_shared_secret"), magic[:]...)
	prk := HKDFExtract(salt, secret[:])
	var k Keys
	k.SessionID = HKDFExpand32(prk, "session_id")
	k.InitiatorL = HKDFExpand32(prk, "initiator_L")
	k.InitiatorP = HKDFExpand32(prk, "initiator_P")
	k.ResponderL = HKDFExpand32(prk, "responder_L")
	k.ResponderP = HKDFExpand32(prk, "responder_P")
	gt := HKDFExpand32(prk, "garbage_terminators")
	copy(k.InitiatorGarbageTerm[:], gt[:16])
	copy(k.ResponderGarbageTerm[:], gt[16:])
	return k
}

// chachaBlock returns the 64-byte ChaCha20 block (RFC 8439 layout: 96-bit nonce, 32-bit counter).
func chachaBlock(key [32]byte, nonce [12]byte, counter uint32) (out [64]byte) {
	c, err := chacha20.NewUnauthenticatedCipher(key[:], nonce[:])
	if err != nil {
		panic(err)
	}
	c.SetCounter(counter)
	c.XORKeyStream(out[:], out[:])
	return
}

// FSChaCha20 is the forward-secure stream cipher used for the length field; one continuous
// keystream per key epoch, re-keyed from the keystream itself every RekeyInterval chunks.
type FSChaCha20 struct {
	key          [32]byte
	blockCounter uint32
	chunkCounter uint64
	keystream    []byte
}

// NewFSChaCha20 starts the cipher at chunk 0.
func NewFSChaCha20(key [32]byte) *FSChaCha20 { return &FSChaCha20{key: key} }

func (f *FSChaCha20) keystreamBytes(n int) []byte {
	for len(f.keystream) < n {
		var nonce [12]byte
		binary.LittleEndian.PutUint64(nonce[4:], f.chunkCounter/RekeyInterval)
		b := chachaBlock(f.key, nonce, f.blockCounter)
		f.keystream = append(f.keystream, b[:]...)
		f.blockCounter++
	}
	out := append([]byte(nil), f.keystream[:n]...)
	f.keystream = f.keystream[n:]
	return out
}

// Crypt encrypts or decrypts one chunk.
func (f *FSChaCha20) Crypt(chunk []byte) []byte {
	ks := f.keystreamBytes(len(chunk))
	out := make([]byte, len(chunk))
	for i := range chunk {
		out[i] = chunk[i] ^ ks[i]
	}
	if (f.chunkCounter+1)%RekeyInterval == 0 {
		copy(f.key[:], f.keystreamBytes(32))
		f.blockCounter = 0
		f.keystream = nil
	}
	f.chunkCounter++
	return out
}

// Clone copies the cipher state.
func (f *FSChaCha20) Clone() *FSChaCha20 {
	c := *f
	c.keystream = append([]byte(nil), f.keystream...)
	return &c
}

func pad16(n int) []byte { return make([]byte, (16-n%16)%16) }

// aeadTag computes the RFC 8439 tag for (aad, ciphertext):
// Poly1305(otk, aad || pad16 || ct || pad16 || le64(len aad) || le64(len ct)), otk = first 32 bytes of block 0.
func aeadTag(key [32]byte, nonce [12]byte, aad, ct []byte) [16]byte {
	b0 := chachaBlock(key, nonce, 0)
	var polyKey [32]byte
	copy(polyKey[:], b0[:32])
	mac := poly1305.New(&polyKey)
	mac.Write(aad)
	mac.Write(pad16(len(aad)))
	mac.Write(ct)
	mac.Write(pad16(len(ct)))
	var l [16]byte
	binary.LittleEndian.PutUint64(l[:8], uint64(len(aad)))
	binary.LittleEndian.PutUint64(l[8:], uint64(len(ct)))
	mac.Write(l[:])
	var tag [16]byte
	mac.Sum(tag[:0])
	return tag
}

func chachaXOR(key [32]byte, nonce [12]byte, counter uint32, in []byte) []byte {
	c, err := chacha20.NewUnauthenticatedCipher(key[:], nonce[:])
	if err != nil {
		panic(err)
	}
	c.SetCounter(counter)
	out := make([]byte, len(in), len(in)+16)
	c.XORKeyStream(out, in)
	return out
}

// AEADEncrypt is RFC 8439 AEAD_CHACHA20_POLY1305 encryption: ciphertext || tag.
func AEADEncrypt(key [32]byte, nonce [12]byte, aad, pt []byte) []byte {
	ct := chachaXOR(key, nonce, 1, pt)
	tag := aeadTag(key, nonce, aad, ct)
	return append(ct, tag[:]...)
}

// AEADDecrypt returns the plaintext, or ok=false when the tag does not verify.
func AEADDecrypt(key [32]byte, nonce [12]byte, aad, in []byte) ([]byte, bool) {
	if len(in) < 16 {
		return nil, false
	}
	ct, tag := in[:len(in)-16], in[len(in)-16:]
	want := aeadTag(key, nonce, aad, ct)
	if subtle.ConstantTimeCompare(want[:], tag) != 1 {
		return nil, false
	}
	return chachaXOR(key, nonce, 1, ct), true
}

// FSChaCha20Poly1305 is the forward-secure AEAD used for packet bodies.
type FSChaCha20Poly1305 struct {
	key           [32]byte
	packetCounter uint64
}

// NewFSChaCha20Poly1305 starts the AEAD at packet 0.
func NewFSChaCha20Poly1305(key [32]byte) *FSChaCha20Poly1305 { return &FSChaCha20Poly1305{key: key} }

func (f *FSChaCha20Poly1305) nonce() (n [12]byte) {
	binary.LittleEndian.PutUint32(n[:4], uint32(f.packetCounter%RekeyInterval))
	binary.LittleEndian.PutUint64(n[4:], f.packetCounter/RekeyInterval)
	return
}

func (f *FSChaCha20Poly1305) advance(nonce [12]byte) {
	if (f.packetCounter+1)%RekeyInterval == 0 {
		rk := nonce
		rk[0], rk[1], rk[2], rk[3] = 0xff, 0xff, 0xff, 0xff
		b := chachaBlock(f.key, rk, 1)
		copy(f.key[:], b[:32])
	}
	f.packetCounter++
}

// Encrypt seals one message and advances the counter.
func (f *FSChaCha20Poly1305) Encrypt(aad, pt []byte) []byte {
	n := f.nonce()
	out := AEADEncrypt(f.key, n, aad, pt)
	f.advance(n)
	return out
}

// Decrypt opens one message; on failure the state is left unchanged (the connection is dead anyway).
func (f *FSChaCha20Poly1305) Decrypt(aad, ct []byte) ([]byte, bool) {
	n := f.nonce()
	pt, ok := AEADDecrypt(f.key, n, aad, ct)
	if !ok {
		return nil, false
	}
	f.advance(n)
	return pt, true
}

// Clone copies the AEAD state.
func (f *FSChaCha20Poly1305) Clone() *FSChaCha20Poly1305 { c := *f; return &c }

// Counter returns the number of messages processed.
func (f *FSChaCha20Poly1305) Counter() uint64 { return f.packetCounter }

// PacketCipher is one direction of the packet layer (length cipher + body AEAD).
type PacketCipher struct {
	L *FSChaCha20
	P *FSChaCha20Poly1305
}

// NewPacketCipher builds a direction from its two keys.
func NewPacketCipher(l, p [32]byte) *PacketCipher {
	return &PacketCipher{L: NewFSChaCha20(l), P: NewFSChaCha20Poly1305(p)}
}

// Clone copies the direction's state (used for "what would the spec send here" shadow encryptors).
func (c *PacketCipher) Clone() *PacketCipher { return &PacketCipher{L: c.L.Clone(), P: c.P.Clone()} }

// MaxContentsLen is the largest contents length the 3-byte length field can express.
const MaxContentsLen = 1<<24 - 1

// IgnoreBit is the header bit that marks a decoy.
const IgnoreBit = 0x80

// EncPacket is v2_enc_packet: enc(len) || AEAD(header || contents).
func (c *PacketCipher) EncPacket(contents, aad []byte, ignore bool) []byte {
	return c.EncPacketReserved(contents, aad, ignore, 0)
}

// EncPacketReserved is EncPacket with the seven reserved header bits set as given (BIP324: "the other bits are
// reserved and must be ignored by the receiver"; a sender of today sets them to zero).
func (c *PacketCipher) EncPacketReserved(contents, aad []byte, ignore bool, reserved byte) []byte {
	if len(contents) > MaxContentsLen {
		panic("refbip324: contents too long")
	}
	pt := make([]byte, 1, 1+len(contents))
	pt[0] = reserved &^ IgnoreBit
	if ignore {
		pt[0] |= IgnoreBit
	}
	pt = append(pt, contents...)
	body := c.P.Encrypt(aad, pt)
	l := []byte{byte(len(contents)), byte(len(contents) >> 8), byte(len(contents) >> 16)}
	out := make([]byte, 0, 3+len(body))
	return append(append(out, c.L.Crypt(l)...), body...)
}

// DecLength decrypts the 3-byte length field.
func (c *PacketCipher) DecLength(enc []byte) int {
	l := c.L.Crypt(enc[:3])
	return int(l[0]) | int(l[1])<<8 | int(l[2])<<16
}

// DecBody opens header||contents||tag.
func (c *PacketCipher) DecBody(body, aad []byte) (header byte, contents []byte, ok bool) {
	pt, ok := c.P.Decrypt(aad, body)
	if !ok || len(pt) < 1 {
		return 0, nil, false
	}
	return pt[0], pt[1:], true
}
