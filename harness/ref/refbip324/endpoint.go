package refbip324

import (
	"bytes"
	"errors"
	"io"
)

// MaxGarbageLen is the largest garbage a peer may send.
const MaxGarbageLen = 4095

// Errors of the reference endpoint.
var (
	ErrV1Peer        = errors.New("refbip324: peer speaks the v1 protocol")
	ErrWrongNetwork  = errors.New("refbip324: v1 version message of another network")
	ErrNoTerminator  = errors.New("refbip324: garbage terminator not found within 4095+16 bytes")
	ErrAuth          = errors.New("refbip324: packet authentication failed")
	ErrState         = errors.New("refbip324: call out of order")
	ErrGarbageTooBig = errors.New("refbip324: garbage longer than 4095 bytes")
)

// V1Prefix returns magic || "version\0\0\0\0\0".
func V1Prefix(magic [4]byte) []byte {
	return append(append([]byte(nil), magic[:]...), []byte("version\x00\x00\x00\x00\x00")...)
}

// Endpoint is one side of a BIP324 connection over an io.ReadWriter. The handshake can be run
// in one call (Handshake) or step by step (the exported step methods, in the BIP's order), which
// lets a single goroutine interleave it with the other side over a buffered connection.
type Endpoint struct {
	RW         io.ReadWriter
	Initiating bool
	Magic      [4]byte
	Priv       [32]byte
	Ours       [64]byte

	Theirs       [64]byte
	Prefix       []byte // responder: bytes consumed by the v1 detection
	Secret       [32]byte
	Keys         Keys
	Send, Recv   *PacketCipher
	SendTerm     [16]byte
	RecvTerm     [16]byte
	SentGarbage  []byte
	RecvGarbage  []byte
	RecvDecoys   int // decoys skipped before the version packet
	VersionBytes []byte

	// ReservedBits, when set, supplies the seven reserved header bits of every packet sent (receivers must ignore
	// them); ReservedSent counts the packets that went out with a non-zero value.
	ReservedBits func() byte
	ReservedSent int

	// SecretFunc, when set, replaces the reference ECDH in RecvKey (see SetTheirsWithSecret).
	SecretFunc func(theirs [64]byte) [32]byte

	keySent, keyRecv, termSent, ready bool
	dead                              error
}

// NewEndpoint creates an endpoint with the given key pair (ours must encode priv's public key).
func NewEndpoint(rw io.ReadWriter, initiating bool, magic [4]byte, priv [32]byte, ours [64]byte) *Endpoint {
	return &Endpoint{RW: rw, Initiating: initiating, Magic: magic, Priv: priv, Ours: ours}
}

func (e *Endpoint) fail(err error) error {
	if e.dead == nil {
		e.dead = err
	}
	return err
}

func (e *Endpoint) read(n int) ([]byte, error) {
	b := make([]byte, n)
	if _, err := io.ReadFull(e.RW, b); err != nil {
		return nil, err
	}
	return b, nil
}

func (e *Endpoint) write(b []byte) error {
	n, err := e.RW.Write(b)
	if err == nil && n != len(b) {
		err = io.ErrShortWrite
	}
	return err
}

// DetectV1 is the responder's first step: consume bytes while they match the v1 prefix. It returns
// ErrV1Peer after 16 matching bytes, nil at the first mismatch (the peer is v2).
func (e *Endpoint) DetectV1() error {
	if e.Initiating {
		return ErrState
	}
	v1 := V1Prefix(e.Magic)
	for len(e.Prefix) < len(v1) {
		b, err := e.read(1)
		if err != nil {
			return e.fail(err)
		}
		e.Prefix = append(e.Prefix, b[0])
		if b[0] != v1[len(e.Prefix)-1] {
			return nil
		}
	}
	return e.fail(ErrV1Peer)
}

// SendKey sends our ElligatorSwift key followed by the garbage.
func (e *Endpoint) SendKey(garbage []byte) error {
	if e.keySent {
		return ErrState
	}
	if len(garbage) > MaxGarbageLen {
		return ErrGarbageTooBig
	}
	e.SentGarbage = append([]byte(nil), garbage...)
	e.keySent = true
	if err := e.write(append(append([]byte(nil), e.Ours[:]...), garbage...)); err != nil {
		return e.fail(err)
	}
	return nil
}

// SendGarbageLate sends the garbage after the key went out on its own (SendKey(nil)) and the peer's key has been
// received: nothing in BIP324 forbids a peer to delay its garbage until it knows the session keys, for instance to
// make the garbage end in a prefix of its own terminator.
func (e *Endpoint) SendGarbageLate(garbage []byte) error {
	if !e.keySent || !e.keyRecv || e.termSent || len(e.SentGarbage) != 0 {
		return ErrState
	}
	if len(garbage) > MaxGarbageLen {
		return ErrGarbageTooBig
	}
	e.SentGarbage = append([]byte(nil), garbage...)
	if err := e.write(garbage); err != nil {
		return e.fail(err)
	}
	return nil
}

// RecvKey reads (the rest of) the peer's key and derives all session keys.
func (e *Endpoint) RecvKey() error {
	if e.keyRecv {
		return ErrState
	}
	rest, err := e.read(64 - len(e.Prefix))
	if err != nil {
		return e.fail(err)
	}
	copy(e.Theirs[:], append(append([]byte(nil), e.Prefix...), rest...))
	if !e.Initiating && bytes.Equal(e.Theirs[4:16], V1Prefix(e.Magic)[4:16]) {
		return e.fail(ErrWrongNetwork)
	}
	if e.SecretFunc != nil {
		e.SetTheirsWithSecret(e.Theirs, e.SecretFunc(e.Theirs))
	} else {
		e.SetTheirs(e.Theirs)
	}
	return nil
}

// SetTheirs installs the peer key directly (used when the caller moved the bytes itself) and
// derives the session.
func (e *Endpoint) SetTheirs(theirs [64]byte) {
	e.SetTheirsWithSecret(theirs, V2ECDH(e.Priv, theirs, e.Ours, e.Initiating))
}

// SetTheirsWithSecret is SetTheirs with the ECDH secret supplied by the caller (harness plumbing for
// workloads whose verdict does not depend on the key agreement; the key schedule is still computed here).
func (e *Endpoint) SetTheirsWithSecret(theirs [64]byte, secret [32]byte) {
	e.Theirs = theirs
	e.Secret = secret
	e.Keys = DeriveKeys(e.Secret, e.Magic)
	ini := NewPacketCipher(e.Keys.InitiatorL, e.Keys.InitiatorP)
	res := NewPacketCipher(e.Keys.ResponderL, e.Keys.ResponderP)
	if e.Initiating {
		e.Send, e.Recv = ini, res
		e.SendTerm, e.RecvTerm = e.Keys.InitiatorGarbageTerm, e.Keys.ResponderGarbageTerm
	} else {
		e.Send, e.Recv = res, ini
		e.SendTerm, e.RecvTerm = e.Keys.ResponderGarbageTerm, e.Keys.InitiatorGarbageTerm
	}
	e.keyRecv = true
}

// reserved returns the reserved header bits of the next packet sent (ReservedBits nil: zero, as today's senders do).
func (e *Endpoint) reserved() byte {
	if e.ReservedBits == nil {
		return 0
	}
	b := e.ReservedBits() &^ IgnoreBit
	if b != 0 {
		e.ReservedSent++
	}
	return b
}

// SendTerminatorAndVersion sends our garbage terminator, the decoys (any contents) and the empty
// version packet; the first packet authenticates our garbage.
func (e *Endpoint) SendTerminatorAndVersion(decoys [][]byte) error {
	if !e.keyRecv || !e.keySent || e.termSent {
		return ErrState
	}
	e.termSent = true
	out := append([]byte(nil), e.SendTerm[:]...)
	aad := e.SentGarbage
	for _, d := range decoys {
		out = append(out, e.Send.EncPacketReserved(d, aad, true, e.reserved())...)
		aad = nil
	}
	out = append(out, e.Send.EncPacketReserved(nil, aad, false, e.reserved())...)
	if err := e.write(out); err != nil {
		return e.fail(err)
	}
	return nil
}

// RecvGarbageAndVersion skips the peer's garbage up to its terminator, then receives packets up to
// and including the version packet (decoys are skipped); the first packet must authenticate the
// garbage.
func (e *Endpoint) RecvGarbageAndVersion() error {
	if !e.keyRecv {
		return ErrState
	}
	buf, err := e.read(16)
	if err != nil {
		return e.fail(err)
	}
	for !bytes.Equal(buf[len(buf)-16:], e.RecvTerm[:]) {
		if len(buf) == MaxGarbageLen+16 {
			return e.fail(ErrNoTerminator)
		}
		b, err := e.read(1)
		if err != nil {
			return e.fail(err)
		}
		buf = append(buf, b[0])
	}
	e.RecvGarbage = buf[:len(buf)-16]
	aad := e.RecvGarbage
	for {
		hdr, contents, _, err := e.recvOne(aad)
		if err != nil {
			return err
		}
		aad = nil
		if hdr&IgnoreBit == 0 {
			e.VersionBytes = contents
			break
		}
		e.RecvDecoys++
	}
	e.ready = true
	return nil
}

// Handshake runs the whole BIP324 handshake in the order of the BIP's pseudocode.
func (e *Endpoint) Handshake(garbage []byte, decoys [][]byte) error {
	if !e.Initiating {
		if err := e.DetectV1(); err != nil {
			return err
		}
	}
	if err := e.SendKey(garbage); err != nil {
		return err
	}
	if err := e.RecvKey(); err != nil {
		return err
	}
	if err := e.SendTerminatorAndVersion(decoys); err != nil {
		return err
	}
	return e.RecvGarbageAndVersion()
}

// Ready reports whether the handshake completed.
func (e *Endpoint) Ready() bool { return e.ready && e.dead == nil }

// SendPacket encrypts and writes one packet; it returns the bytes put on the wire.
func (e *Endpoint) SendPacket(contents []byte, ignore bool) ([]byte, error) {
	if !e.termSent {
		return nil, ErrState
	}
	pkt := e.Send.EncPacketReserved(contents, nil, ignore, e.reserved())
	if err := e.write(pkt); err != nil {
		return pkt, e.fail(err)
	}
	return pkt, nil
}

func (e *Endpoint) recvOne(aad []byte) (hdr byte, contents, raw []byte, err error) {
	if e.dead != nil {
		return 0, nil, nil, e.dead
	}
	l, err := e.read(3)
	if err != nil {
		return 0, nil, nil, e.fail(err)
	}
	n := e.Recv.DecLength(l)
	body, err := e.read(1 + n + 16)
	if err != nil {
		return 0, nil, nil, e.fail(err)
	}
	hdr, contents, ok := e.Recv.DecBody(body, aad)
	if !ok {
		return 0, nil, nil, e.fail(ErrAuth)
	}
	return hdr, contents, append(l, body...), nil
}

// RecvPacket receives exactly one packet, decoy or not, and also returns its wire bytes.
func (e *Endpoint) RecvPacket() (ignore bool, contents, raw []byte, err error) {
	if !e.ready {
		return false, nil, nil, ErrState
	}
	hdr, contents, raw, err := e.recvOne(nil)
	return hdr&IgnoreBit != 0, contents, raw, err
}

// Receive is v2_receive_packet: decoys are skipped.
func (e *Endpoint) Receive() ([]byte, error) {
	for {
		ign, c, _, err := e.RecvPacket()
		if err != nil {
			return nil, err
		}
		if !ign {
			return c, nil
		}
	}
}
