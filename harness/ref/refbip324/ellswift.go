// Package refbip324 is an independent, deliberately naive implementation of BIP324 written from
// the BIP text and its Python reference (field and curve arithmetic on math/big, affine points,
// byte-at-a-time framing). It shares no code with btcd; from golang.org/x/crypto it only uses
// the ChaCha20 block function and the Poly1305 one-time authenticator; HKDF and the RFC 8439
// AEAD construction are spelled out here.
package refbip324

import (
	"crypto/sha256"
	"io"
	"math/big"
)

// secp256k1 parameters.
var (
	P, _  = new(big.Int).SetString("fffffffffffffffffffffffffffffffffffffffffffffffffffffffefffffc2f", 16)
	N, _  = new(big.Int).SetString("fffffffffffffffffffffffffffffffebaaedce6af48a03bbfd25e8cd0364141", 16)
	Gx, _ = new(big.Int).SetString("79be667ef9dcbbac55a06295ce870b07029bfcdb2dce28d959f2815b16f81798", 16)
	Gy, _ = new(big.Int).SetString("483ada7726a3c4655da4fbfc0e1108a8fd17b448a68554199c47d08ffb10d4b8", 16)

	// MinusThreeSqrt is c = sqrt(-3) mod p as fixed by BIP324.
	MinusThreeSqrt, _ = new(big.Int).SetString("0a2d2ba93507f1df233770c2a797962cc61f6d15da14ecd47d8d27ae1cd5f852", 16)

	pPlus1Div4 = new(big.Int).Rsh(new(big.Int).Add(P, big.NewInt(1)), 2)
	pMinus1Div = new(big.Int).Rsh(new(big.Int).Sub(P, big.NewInt(1)), 1)
	one        = big.NewInt(1)
	two        = big.NewInt(2)
	seven      = big.NewInt(7)
)

func fe(x *big.Int) *big.Int { return new(big.Int).Mod(x, P) }

// fadd and fsub take the one-step route when the raw result is within one p of the range
// (always the case for reduced operands) and fall back to Mod otherwise.
func fadd(a, b *big.Int) *big.Int {
	r := new(big.Int).Add(a, b)
	if r.Sign() >= 0 && r.Cmp(P) < 0 {
		return r
	}
	if r.Sign() >= 0 && r.Sub(r, P).Cmp(P) < 0 {
		return r
	}
	return fe(new(big.Int).Add(a, b))
}

func fsub(a, b *big.Int) *big.Int {
	r := new(big.Int).Sub(a, b)
	if r.Sign() < 0 {
		r.Add(r, P)
	}
	if r.Sign() >= 0 && r.Cmp(P) < 0 {
		return r
	}
	return fe(new(big.Int).Sub(a, b))
}

func fmul(a, b *big.Int) *big.Int          { return fe(new(big.Int).Mul(a, b)) }
func fneg(a *big.Int) *big.Int             { return fe(new(big.Int).Neg(a)) }
func fdbl(a *big.Int) *big.Int             { return fadd(a, a) }
func fsqr(a *big.Int) *big.Int             { return fmul(a, a) }
func fcube(a *big.Int) *big.Int            { return fmul(fmul(a, a), a) }
func fint(v int64) *big.Int                { return fe(big.NewInt(v)) }
func fiszero(a *big.Int) bool              { return a.Sign() == 0 }
func fequal(a, b *big.Int) bool            { return a.Cmp(b) == 0 }
func curveG(x *big.Int) *big.Int           { return fadd(fcube(x), seven) } // g(x) = x^3 + 7
func fhalf(a *big.Int) *big.Int            { return fdiv(a, two) }
func fmulInt(a *big.Int, v int64) *big.Int { return fmul(a, fint(v)) }

// finv returns a^-1, with 0^-1 = 0 as in the BIP's reference (a^(p-2)).
func finv(a *big.Int) *big.Int {
	if a.Sign() == 0 {
		return new(big.Int)
	}
	return new(big.Int).ModInverse(a, P)
}

func fdiv(a, b *big.Int) *big.Int { return fmul(a, finv(b)) }

// IsSquare reports whether a is a quadratic residue mod p (0 counts as a square).
func IsSquare(a *big.Int) bool {
	if a.Sign() == 0 {
		return true
	}
	return new(big.Int).Exp(a, pMinus1Div, P).Cmp(one) == 0
}

// Sqrt returns the root a^((p+1)/4) if a is a square, else nil (the BIP reference's FE.sqrt).
func Sqrt(a *big.Int) *big.Int {
	r := new(big.Int).Exp(a, pPlus1Div4, P)
	if !fequal(fsqr(r), fe(a)) {
		return nil
	}
	return r
}

// XSwiftEC is the BIP324 decoding function: (u, t) -> x. u and t are reduced mod p first.
func XSwiftEC(u, t *big.Int) *big.Int {
	u, t = fe(u), fe(t)
	if fiszero(u) {
		u = fint(1)
	}
	if fiszero(t) {
		t = fint(1)
	}
	if fiszero(fadd(curveG(u), fsqr(t))) {
		t = fmulInt(t, 2)
	}
	X := fdiv(fsub(curveG(u), fsqr(t)), fmulInt(t, 2))
	Y := fdiv(fadd(X, t), fmul(MinusThreeSqrt, u))
	cands := []*big.Int{
		fadd(u, fmulInt(fsqr(Y), 4)),
		fhalf(fsub(fneg(fdiv(X, Y)), u)),
		fhalf(fsub(fdiv(X, Y), u)),
	}
	for _, x := range cands {
		if IsSquare(curveG(x)) {
			return x
		}
	}
	panic("refbip324: xswiftec found no x on the curve (impossible)")
}

// XSwiftECInv is the BIP324 partial inverse: given x on the curve, u and a case 0..7 it returns
// t with XSwiftEC(u, t) = x, or nil when that case has no solution.
func XSwiftECInv(x, u *big.Int, c int) *big.Int {
	x, u = fe(x), fe(u)
	var v, s *big.Int
	if c&2 == 0 {
		if IsSquare(curveG(fsub(fneg(x), u))) {
			return nil
		}
		v = x
		s = fneg(fdiv(curveG(u), fadd(fadd(fsqr(u), fmul(u, v)), fsqr(v))))
	} else {
		s = fsub(x, u)
		if fiszero(s) {
			return nil
		}
		r := Sqrt(fmul(fneg(s), fadd(fmulInt(curveG(u), 4), fmul(fmulInt(fsqr(u), 3), s))))
		if r == nil {
			return nil
		}
		if c&1 == 1 && fiszero(r) {
			return nil
		}
		v = fhalf(fadd(fneg(u), fdiv(r, s)))
	}
	w := Sqrt(s)
	if w == nil {
		return nil
	}
	oneMinusC := fsub(one, MinusThreeSqrt)
	onePlusC := fadd(one, MinusThreeSqrt)
	switch c & 5 {
	case 0:
		return fmul(fneg(w), fadd(fhalf(fmul(u, oneMinusC)), v))
	case 1:
		return fmul(w, fadd(fhalf(fmul(u, onePlusC)), v))
	case 4:
		return fmul(w, fadd(fhalf(fmul(u, oneMinusC)), v))
	default: // 5
		return fmul(fneg(w), fadd(fhalf(fmul(u, onePlusC)), v))
	}
}

// randFE draws a uniform non-zero field element from rnd.
func randFE(rnd io.Reader) *big.Int {
	var b [32]byte
	for {
		if _, err := io.ReadFull(rnd, b[:]); err != nil {
			panic(err)
		}
		v := new(big.Int).SetBytes(b[:])
		if v.Sign() != 0 && v.Cmp(P) < 0 {
			return v
		}
	}
}

// XElligatorSwift encodes x (which must be on the curve) as a random (u, t).
func XElligatorSwift(x *big.Int, rnd io.Reader) (u, t *big.Int) {
	for {
		u = randFE(rnd)
		var cb [1]byte
		io.ReadFull(rnd, cb[:])
		if t = XSwiftECInv(x, u, int(cb[0]&7)); t != nil {
			return u, t
		}
	}
}

// XElligatorSwiftWithU tries to encode x with a caller-chosen u; it returns nil when none of the
// 8 cases has a solution for that u.
func XElligatorSwiftWithU(x, u *big.Int, firstCase int) *big.Int {
	for i := 0; i < 8; i++ {
		if t := XSwiftECInv(x, u, (firstCase+i)&7); t != nil {
			return t
		}
	}
	return nil
}

// Point is an affine secp256k1 point; Inf marks the point at infinity.
type Point struct {
	X, Y *big.Int
	Inf  bool
}

// Add is affine point addition.
func (p Point) Add(q Point) Point {
	if p.Inf {
		return q
	}
	if q.Inf {
		return p
	}
	var lam *big.Int
	if fequal(p.X, q.X) {
		if !fequal(p.Y, q.Y) || fiszero(p.Y) {
			return Point{Inf: true}
		}
		lam = fdiv(fmulInt(fsqr(p.X), 3), fmulInt(p.Y, 2))
	} else {
		lam = fdiv(fsub(q.Y, p.Y), fsub(q.X, p.X))
	}
	x := fsub(fsub(fsqr(lam), p.X), q.X)
	y := fsub(fmul(lam, fsub(p.X, x)), p.Y)
	return Point{X: x, Y: y}
}

// jac is a Jacobian point (X/Z^2, Y/Z^3); Z = 0 is infinity.
type jac struct{ X, Y, Z *big.Int }

func (p jac) double() jac {
	if p.Z.Sign() == 0 || p.Y.Sign() == 0 {
		return jac{big.NewInt(1), big.NewInt(1), new(big.Int)}
	}
	a, b := fsqr(p.X), fsqr(p.Y)
	c := fsqr(b)
	d := fdbl(fsub(fsub(fsqr(fadd(p.X, b)), a), c))
	e := fadd(fdbl(a), a)
	x3 := fsub(fsqr(e), fdbl(d))
	y3 := fsub(fmul(e, fsub(d, x3)), fdbl(fdbl(fdbl(c))))
	z3 := fdbl(fmul(p.Y, p.Z))
	return jac{x3, y3, z3}
}

// addAffine adds the affine point q (not infinity) to p.
func (p jac) addAffine(q Point) jac {
	if p.Z.Sign() == 0 {
		return jac{new(big.Int).Set(q.X), new(big.Int).Set(q.Y), big.NewInt(1)}
	}
	z1z1 := fsqr(p.Z)
	u2 := fmul(q.X, z1z1)
	s2 := fmul(fmul(q.Y, p.Z), z1z1)
	h := fsub(u2, p.X)
	r := fsub(s2, p.Y)
	if h.Sign() == 0 {
		if r.Sign() == 0 {
			return p.double()
		}
		return jac{big.NewInt(1), big.NewInt(1), new(big.Int)}
	}
	hh := fsqr(h)
	hhh := fmul(hh, h)
	v := fmul(p.X, hh)
	x3 := fsub(fsub(fsqr(r), hhh), fdbl(v))
	y3 := fsub(fmul(r, fsub(v, x3)), fmul(p.Y, hhh))
	z3 := fmul(p.Z, h)
	return jac{x3, y3, z3}
}

// Mul is double-and-add scalar multiplication in Jacobian coordinates (k is reduced mod n).
// MulAffine is the definitional version it is calibrated against.
func (p Point) Mul(k *big.Int) Point {
	k = new(big.Int).Mod(k, N)
	if p.Inf || k.Sign() == 0 {
		return Point{Inf: true}
	}
	r := jac{big.NewInt(1), big.NewInt(1), new(big.Int)}
	for i := k.BitLen() - 1; i >= 0; i-- {
		r = r.double()
		if k.Bit(i) == 1 {
			r = r.addAffine(p)
		}
	}
	if r.Z.Sign() == 0 {
		return Point{Inf: true}
	}
	zi := finv(r.Z)
	zi2 := fsqr(zi)
	return Point{X: fmul(r.X, zi2), Y: fmul(r.Y, fmul(zi2, zi))}
}

// MulAffine is textbook double-and-add on affine points (k is reduced mod n).
func (p Point) MulAffine(k *big.Int) Point {
	k = new(big.Int).Mod(k, N)
	r := Point{Inf: true}
	for i := k.BitLen() - 1; i >= 0; i-- {
		r = r.Add(r)
		if k.Bit(i) == 1 {
			r = r.Add(p)
		}
	}
	return r
}

// LiftX returns the point with the given x and even y, ok=false if x is not on the curve.
func LiftX(x *big.Int) (Point, bool) {
	x = fe(x)
	y := Sqrt(curveG(x))
	if y == nil {
		return Point{}, false
	}
	if y.Bit(0) == 1 {
		y = fneg(y)
	}
	return Point{X: x, Y: y}, true
}

// PubX returns the x coordinate of priv*G.
func PubX(priv [32]byte) *big.Int {
	return Point{X: Gx, Y: Gy}.Mul(new(big.Int).SetBytes(priv[:])).X
}

func to32(v *big.Int) (out [32]byte) {
	v.FillBytes(out[:])
	return
}

// EllswiftEncode builds the 64-byte encoding bytes(u) || bytes(t).
func EllswiftEncode(u, t *big.Int) (out [64]byte) {
	u.FillBytes(out[:32])
	t.FillBytes(out[32:])
	return
}

// EllswiftCreate returns the ElligatorSwift encoding of priv*G using randomness from rnd.
func EllswiftCreate(priv [32]byte, rnd io.Reader) [64]byte {
	u, t := XElligatorSwift(PubX(priv), rnd)
	return EllswiftEncode(u, t)
}

// EllswiftDecode returns the x coordinate an encoding stands for.
func EllswiftDecode(e [64]byte) *big.Int {
	return XSwiftEC(new(big.Int).SetBytes(e[:32]), new(big.Int).SetBytes(e[32:]))
}

// EllswiftECDHXOnly returns bytes(x(priv * lift_x(decode(theirs)))).
func EllswiftECDHXOnly(theirs [64]byte, priv [32]byte) [32]byte {
	pt, ok := LiftX(EllswiftDecode(theirs))
	if !ok {
		panic("refbip324: decoded x not on curve (impossible)")
	}
	sh := pt.Mul(new(big.Int).SetBytes(priv[:]))
	if sh.Inf {
		panic("refbip324: ECDH with scalar 0 mod n")
	}
	return to32(sh.X)
}

// TaggedHash is the BIP340 tagged hash.
func TaggedHash(tag string, msg []byte) [32]byte {
	th := sha256.Sum256([]byte(tag))
	h := sha256.New()
	h.Write(th[:])
	h.Write(th[:])
	h.Write(msg)
	var out [32]byte
	copy(out[:], h.Sum(nil))
	return out
}

// V2ECDH is the BIP324 shared secret.
func V2ECDH(priv [32]byte, theirs, ours [64]byte, initiating bool) [32]byte {
	x := EllswiftECDHXOnly(theirs, priv)
	var msg []byte
	if initiating {
		msg = append(append(append(msg, ours[:]...), theirs[:]...), x[:]...)
	} else {
		msg = append(append(append(msg, theirs[:]...), ours[:]...), x[:]...)
	}
	return TaggedHash("bip324_ellswift_xonly_ecdh", msg)
}
