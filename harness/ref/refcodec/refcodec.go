// Package refcodec is the reference model of btcd's persisted chain-state record formats (C15):
// the offset base-128 variable length quantity, amount compression, script compression, compressed
// txouts, utxo set keys and entries, spend journal entries, the best chain state record and block
// index rows.
//
// It is written from the format descriptions (the documentation blocks in blockchain/compress.go and
// blockchain/chainio.go, which follow Bitcoin Core's compressor.h / VARINT) in a deliberately
// different, naive style: closed-form digit arithmetic for the VLQ, decimal strings and math/big for
// amounts, an own secp256k1 point check on math/big for pay-to-pubkey scripts. It imports nothing
// from btcd.
package refcodec

import (
	"math/big"
	"strings"
)

// ---------------------------------------------------------------------------------------------
// VLQ
//
// An L-byte encoding stands for the integers first(L) .. first(L)+128^L-1 where
// first(1)=0 and first(L+1)=first(L)+128^L; the bytes are the L base-128 digits (most significant
// first) of n-first(L), every byte but the last carrying the 0x80 continuation bit.

var big128 = big.NewInt(128)

var vlqFirsts = func() (t [16]*big.Int) {
	for L := range t {
		t[L] = computeVlqFirst(L)
	}
	return
}()

func vlqFirst(L int) *big.Int {
	if L < len(vlqFirsts) {
		return vlqFirsts[L]
	}
	return computeVlqFirst(L)
}

func computeVlqFirst(L int) *big.Int {
	f := new(big.Int)
	p := new(big.Int).Set(big128)
	for i := 1; i < L; i++ {
		f.Add(f, p)
		p = new(big.Int).Mul(p, big128)
	}
	return f
}

// PutVLQ returns the encoding of n.
func PutVLQ(n uint64) []byte {
	N := new(big.Int).SetUint64(n)
	L := 1
	for vlqFirst(L+1).Cmp(N) <= 0 {
		L++
	}
	rest := new(big.Int).Sub(N, vlqFirst(L))
	out := make([]byte, L)
	for i := L - 1; i >= 0; i-- {
		q, d := new(big.Int).QuoRem(rest, big128, new(big.Int))
		out[i] = byte(d.Uint64())
		if i != L-1 {
			out[i] |= 0x80
		}
		rest = q
	}
	return out
}

// ReadVLQ parses one VLQ from the front of b. ok is false when b ends before a byte without the
// continuation bit. The exact value is returned (it may exceed 64 bits for hostile input).
func ReadVLQ(b []byte) (n *big.Int, size int, ok bool) {
	for i, v := range b {
		if v&0x80 == 0 {
			L := i + 1
			rest := new(big.Int)
			for _, d := range b[:L] {
				rest.Mul(rest, big128)
				rest.Add(rest, big.NewInt(int64(d&0x7f)))
			}
			return rest.Add(rest, vlqFirst(L)), L, true
		}
	}
	return nil, len(b), false
}

// ---------------------------------------------------------------------------------------------
// amount compression (decimal-string formulation)
//
// Strip up to nine trailing decimal zeros (e of them). If e < 9 the remaining number ends in a
// non-zero digit d and has the prefix m (possibly empty = 0): code = 1 + 10*(9*m + d-1) + e.
// If e = 9 the remaining number is m >= 1: code = 1 + 10*(m-1) + 9. Zero is coded as zero.

// CompressAmountExact returns the exact code, which may not fit 64 bits.
func CompressAmountExact(a uint64) *big.Int {
	if a == 0 {
		return new(big.Int)
	}
	s := new(big.Int).SetUint64(a).String()
	e := 0
	for e < 9 && strings.HasSuffix(s, "0") {
		s = s[:len(s)-1]
		e++
	}
	code := new(big.Int)
	if e < 9 {
		d := int64(s[len(s)-1] - '0')
		m := new(big.Int)
		if len(s) > 1 {
			m.SetString(s[:len(s)-1], 10)
		}
		code.Mul(m, big.NewInt(9))
		code.Add(code, big.NewInt(d-1))
	} else {
		m, _ := new(big.Int).SetString(s, 10)
		code.Sub(m, big.NewInt(1))
	}
	code.Mul(code, big.NewInt(10))
	code.Add(code, big.NewInt(int64(1+e)))
	return code
}

// CompressAmount returns the code when the format can represent it (it is stored as a 64-bit VLQ).
func CompressAmount(a uint64) (uint64, bool) {
	c := CompressAmountExact(a)
	if !c.IsUint64() {
		return 0, false
	}
	return c.Uint64(), true
}

// DecompressAmountExact inverts the code; the exact amount may not fit 64 bits for hostile codes.
func DecompressAmountExact(c uint64) *big.Int {
	if c == 0 {
		return new(big.Int)
	}
	x := new(big.Int).SetUint64(c - 1)
	q, eB := new(big.Int).QuoRem(x, big.NewInt(10), new(big.Int))
	e := int(eB.Int64())
	var s string
	if e < 9 {
		m, dB := new(big.Int).QuoRem(q, big.NewInt(9), new(big.Int))
		s = m.String() + string(rune('1'+dB.Int64()))
	} else {
		s = new(big.Int).Add(q, big.NewInt(1)).String()
	}
	s += strings.Repeat("0", e)
	n, _ := new(big.Int).SetString(s, 10)
	return n
}

// ---------------------------------------------------------------------------------------------
// secp256k1 point validity (for pay-to-pubkey recognition)

var (
	fieldP, _ = new(big.Int).SetString("fffffffffffffffffffffffffffffffffffffffffffffffffffffffefffffc2f", 16)
	seven     = big.NewInt(7)
)

func rhs(x *big.Int) *big.Int {
	r := new(big.Int).Exp(x, big.NewInt(3), fieldP)
	r.Add(r, seven)
	return r.Mod(r, fieldP)
}

// LiftX returns the y coordinate with the wanted parity for x, if x is the abscissa of a curve point.
func LiftX(xb []byte, odd bool) ([]byte, bool) {
	x := new(big.Int).SetBytes(xb)
	if x.Cmp(fieldP) >= 0 {
		return nil, false
	}
	r := rhs(x)
	e := new(big.Int).Add(fieldP, big.NewInt(1))
	e.Rsh(e, 2)
	y := new(big.Int).Exp(r, e, fieldP)
	if new(big.Int).Exp(y, big.NewInt(2), fieldP).Cmp(r) != 0 {
		return nil, false
	}
	if (y.Bit(0) == 1) != odd {
		y.Sub(fieldP, y)
	}
	out := make([]byte, 32)
	y.FillBytes(out)
	return out, true
}

// ValidPubKey reports whether the serialized key is a valid compressed (02/03) or uncompressed (04)
// secp256k1 public key. Hybrid keys are not accepted.
func ValidPubKey(k []byte) bool {
	switch {
	case len(k) == 33 && (k[0] == 2 || k[0] == 3):
		_, ok := LiftX(k[1:], k[0] == 3)
		return ok
	case len(k) == 65 && k[0] == 4:
		x, y := new(big.Int).SetBytes(k[1:33]), new(big.Int).SetBytes(k[33:])
		if x.Cmp(fieldP) >= 0 || y.Cmp(fieldP) >= 0 {
			return false
		}
		return new(big.Int).Exp(y, big.NewInt(2), fieldP).Cmp(rhs(x)) == 0
	}
	return false
}

// ---------------------------------------------------------------------------------------------
// script compression

const (
	opDup, opHash160, opEqual, opEqualVerify, opCheckSig = 0x76, 0xa9, 0x87, 0x88, 0xac
	numSpecial                                           = 6
)

// ScriptClass names the compression class of a script.
func ScriptClass(s []byte) string {
	switch {
	case len(s) == 25 && s[0] == opDup && s[1] == opHash160 && s[2] == 20 && s[23] == opEqualVerify && s[24] == opCheckSig:
		return "p2pkh"
	case len(s) == 23 && s[0] == opHash160 && s[1] == 20 && s[22] == opEqual:
		return "p2sh"
	case len(s) == 35 && s[0] == 33 && s[34] == opCheckSig && ValidPubKey(s[1:34]):
		return "p2pk-comp"
	case len(s) == 67 && s[0] == 65 && s[66] == opCheckSig && ValidPubKey(s[1:66]):
		return "p2pk-uncomp"
	}
	return "other"
}

// CompressScript returns the compressed form.
func CompressScript(s []byte) []byte {
	switch ScriptClass(s) {
	case "p2pkh":
		return append([]byte{0}, s[3:23]...)
	case "p2sh":
		return append([]byte{1}, s[2:22]...)
	case "p2pk-comp":
		return append([]byte{s[1]}, s[2:34]...)
	case "p2pk-uncomp":
		return append([]byte{4 | s[66-1]&1}, s[2:34]...)
	}
	return append(PutVLQ(uint64(len(s))+numSpecial), s...)
}

// DecompressScript parses one compressed script from the front of b. ok=false when b is too short
// (or the size does not fit); script=nil with ok=true for an uncompressed-pubkey form whose x is not
// on the curve (no script can be reconstructed).
func DecompressScript(b []byte) (script []byte, size int, ok bool) {
	t, n, ok := ReadVLQ(b)
	if !ok {
		return nil, 0, false
	}
	if t.IsUint64() && t.Uint64() < numSpecial {
		need := 20
		if t.Uint64() >= 2 {
			need = 32
		}
		if len(b) < n+need {
			return nil, 0, false
		}
		d := b[n : n+need]
		switch t.Uint64() {
		case 0:
			s := append([]byte{opDup, opHash160, 20}, d...)
			return append(s, opEqualVerify, opCheckSig), n + need, true
		case 1:
			s := append([]byte{opHash160, 20}, d...)
			return append(s, opEqual), n + need, true
		case 2, 3:
			s := append([]byte{33, byte(t.Uint64())}, d...)
			return append(s, opCheckSig), n + need, true
		default:
			y, on := LiftX(d, t.Uint64() == 5)
			if !on {
				return nil, n + need, true
			}
			s := append([]byte{65, 4}, d...)
			s = append(s, y...)
			return append(s, opCheckSig), n + need, true
		}
	}
	l := new(big.Int).Sub(t, big.NewInt(numSpecial))
	if !l.IsInt64() || l.Int64() > int64(len(b)-n) {
		return nil, 0, false
	}
	return append([]byte{}, b[n:n+int(l.Int64())]...), n + int(l.Int64()), true
}

// ---------------------------------------------------------------------------------------------
// records

// TxOut is <VLQ compressed amount><compressed script>. ok=false when the amount has no code.
func TxOut(amount uint64, script []byte) ([]byte, bool) {
	c, ok := CompressAmount(amount)
	if !ok {
		return nil, false
	}
	return append(PutVLQ(c), CompressScript(script)...), true
}

func headerCode(height int32, coinbase bool) uint64 {
	c := uint64(uint32(height)) * 2
	if coinbase {
		c++
	}
	return c
}

// UtxoEntry is <VLQ header code><compressed txout>, header code = height*2 + coinbase.
func UtxoEntry(height int32, coinbase bool, amount uint64, script []byte) ([]byte, bool) {
	t, ok := TxOut(amount, script)
	if !ok {
		return nil, false
	}
	return append(PutVLQ(headerCode(height, coinbase)), t...), true
}

// OutpointKey is <32-byte hash><VLQ output index>.
func OutpointKey(hash [32]byte, index uint32) []byte {
	return append(append([]byte{}, hash[:]...), PutVLQ(uint64(index))...)
}

// Stxo is a spent output with its creation context.
type Stxo struct {
	Height   int32
	CoinBase bool
	Amount   uint64
	Script   []byte
}

// StxoBytes is <VLQ header code>[<reserved 0x00> when height > 0]<compressed txout>.
func StxoBytes(s Stxo) ([]byte, bool) {
	t, ok := TxOut(s.Amount, s.Script)
	if !ok {
		return nil, false
	}
	out := PutVLQ(headerCode(s.Height, s.CoinBase))
	if s.Height > 0 {
		out = append(out, 0)
	}
	return append(out, t...), true
}

// SpendJournal serialises the spent outputs of a block (given in spending order) last-first.
func SpendJournal(stxos []Stxo) ([]byte, bool) {
	var out []byte
	for i := len(stxos) - 1; i >= 0; i-- {
		b, ok := StxoBytes(stxos[i])
		if !ok {
			return nil, false
		}
		out = append(out, b...)
	}
	return out, true
}

// Parsed is what a well-formed utxo entry / stxo denotes. Clean is false when a quantity in it does
// not fit its field (VLQ beyond 64 bits, height beyond 31 bits, amount beyond 64 bits): such records
// are never written and their decoded value is not specified.
type Parsed struct {
	Stxo
	Size  int
	Clean bool
}

func parseTxOut(b []byte, p *Parsed) bool {
	c, n, ok := ReadVLQ(b)
	if !ok {
		return false
	}
	s, m, ok := DecompressScript(b[n:])
	if !ok {
		return false
	}
	if !c.IsUint64() {
		p.Clean = false
	} else if a := DecompressAmountExact(c.Uint64()); a.IsUint64() {
		p.Amount = a.Uint64()
	} else {
		p.Clean = false
	}
	p.Script = s
	p.Size += n + m
	return true
}

// ParseUtxoEntry parses a utxo set value.
func ParseUtxoEntry(b []byte) (Parsed, bool) {
	p := Parsed{Clean: true}
	code, n, ok := ReadVLQ(b)
	if !ok {
		return p, false
	}
	if !code.IsUint64() || code.Uint64()>>1 > 0x7fffffff {
		p.Clean = false
	} else {
		p.Height, p.CoinBase = int32(code.Uint64()>>1), code.Uint64()&1 == 1
	}
	p.Size = n
	return p, parseTxOut(b[n:], &p)
}

// ParseStxo parses one spend journal element from the front of b.
func ParseStxo(b []byte) (Parsed, bool) {
	p := Parsed{Clean: true}
	code, n, ok := ReadVLQ(b)
	if !ok {
		return p, false
	}
	nonZeroHeight := true
	if !code.IsUint64() || code.Uint64()>>1 > 0x7fffffff {
		p.Clean = false
	} else {
		p.Height, p.CoinBase = int32(code.Uint64()>>1), code.Uint64()&1 == 1
		nonZeroHeight = p.Height > 0
	}
	p.Size = n
	if nonZeroHeight {
		_, m, ok := ReadVLQ(b[n:])
		if !ok {
			return p, false
		}
		p.Size += m
	}
	return p, parseTxOut(b[p.Size:], &p)
}

func le32(v uint32) []byte { return []byte{byte(v), byte(v >> 8), byte(v >> 16), byte(v >> 24)} }

// BestState is <hash><height u32 LE><total txns u64 LE><work length u32 LE><work big-endian bytes>.
func BestState(hash [32]byte, height uint32, totalTxns uint64, work *big.Int) []byte {
	out := append([]byte{}, hash[:]...)
	out = append(out, le32(height)...)
	out = append(out, le32(uint32(totalTxns))...)
	out = append(out, le32(uint32(totalTxns>>32))...)
	w := work.Bytes()
	out = append(out, le32(uint32(len(w)))...)
	return append(out, w...)
}

// Header is a block header.
type Header struct {
	Version    int32
	Prev       [32]byte
	MerkleRoot [32]byte
	Time       uint32
	Bits       uint32
	Nonce      uint32
}

// Bytes is the 80-byte wire form.
func (h Header) Bytes() []byte {
	out := le32(uint32(h.Version))
	out = append(out, h.Prev[:]...)
	out = append(out, h.MerkleRoot[:]...)
	out = append(out, le32(h.Time)...)
	out = append(out, le32(h.Bits)...)
	return append(out, le32(h.Nonce)...)
}

// BlockRow is <80-byte header><status byte>.
func BlockRow(h Header, status byte) []byte { return append(h.Bytes(), status) }

// BlockIndexKey is <height u32 big-endian><hash>.
func BlockIndexKey(hash [32]byte, height uint32) []byte {
	return append([]byte{byte(height >> 24), byte(height >> 16), byte(height >> 8), byte(height)}, hash[:]...)
}

// ---------------------------------------------------------------------------------------------
// legacy per-transaction utxo entry (utxo set bucket version 1, read by the upgrade path)
//
//	<VLQ tx version><VLQ block height><VLQ header code><unspentness bitmap><compressed txout>...
//
// header code: bit 0 coinbase, bit 1 output 0 unspent, bit 2 output 1 unspent, bits 3.. = number N
// of bitmap bytes, or N-1 when neither bit 1 nor bit 2 is set (such an entry always has a bitmap).
// Bit j of bitmap byte i stands for output 2+8i+j. One compressed txout follows for every unspent
// output, in ascending output order.

// LegacyOut is one unspent output of a legacy entry.
type LegacyOut struct {
	Amount uint64
	Script []byte
}

// LegacyEntry is a legacy utxo entry. BitmapBytes is the number of bitmap bytes to write; 0 means
// the minimal number (the historical writer dropped trailing zero bytes).
type LegacyEntry struct {
	Version     uint64
	Height      int32
	CoinBase    bool
	Outs        map[uint32]LegacyOut
	BitmapBytes int
}

// MinBitmapBytes is the number of bitmap bytes needed for the highest unspent output.
func (e *LegacyEntry) MinBitmapBytes() int {
	n := 0
	for idx := range e.Outs {
		if idx >= 2 {
			if b := int(idx-2)/8 + 1; b > n {
				n = b
			}
		}
	}
	return n
}

// Bytes encodes the entry; ok=false when it cannot be expressed (no bitmap although neither of
// the first two outputs is unspent, or an amount without a code).
func (e *LegacyEntry) Bytes() ([]byte, bool) {
	n := e.BitmapBytes
	if m := e.MinBitmapBytes(); n < m {
		n = m
	}
	_, o0 := e.Outs[0]
	_, o1 := e.Outs[1]
	code := uint64(0)
	if e.CoinBase {
		code |= 1
	}
	if o0 {
		code |= 2
	}
	if o1 {
		code |= 4
	}
	if !o0 && !o1 {
		if n == 0 {
			return nil, false
		}
		code |= uint64(n-1) << 3
	} else {
		code |= uint64(n) << 3
	}
	out := PutVLQ(e.Version)
	out = append(out, PutVLQ(uint64(uint32(e.Height)))...)
	out = append(out, PutVLQ(code)...)
	bitmap := make([]byte, n)
	var order []uint32
	for idx := range e.Outs {
		order = append(order, idx)
		if idx >= 2 {
			bitmap[(idx-2)/8] |= 1 << ((idx - 2) % 8)
		}
	}
	for i := range order { // ascending, naive
		for j := i + 1; j < len(order); j++ {
			if order[j] < order[i] {
				order[i], order[j] = order[j], order[i]
			}
		}
	}
	out = append(out, bitmap...)
	for _, idx := range order {
		t, ok := TxOut(e.Outs[idx].Amount, e.Outs[idx].Script)
		if !ok {
			return nil, false
		}
		out = append(out, t...)
	}
	return out, true
}

// ParseLegacyEntry parses a legacy entry. ok=false: malformed (ends early). clean=false: some
// quantity does not fit its field, the decoded value is unspecified.
func ParseLegacyEntry(b []byte) (e LegacyEntry, clean, ok bool) {
	clean = true
	ver, n, ok := ReadVLQ(b)
	if !ok {
		return e, clean, false
	}
	if ver.IsUint64() {
		e.Version = ver.Uint64()
	} else {
		clean = false
	}
	off := n
	h, n, ok := ReadVLQ(b[off:])
	if !ok {
		return e, clean, false
	}
	if h.IsUint64() && h.Uint64() <= 0x7fffffff {
		e.Height = int32(h.Uint64())
	} else {
		clean = false
	}
	off += n
	code, n, ok := ReadVLQ(b[off:])
	if !ok {
		return e, clean, false
	}
	off += n
	if !code.IsUint64() {
		return e, false, false
	}
	c := code.Uint64()
	e.CoinBase = c&1 != 0
	o0, o1 := c&2 != 0, c&4 != 0
	nb := new(big.Int).SetUint64(c >> 3)
	if !o0 && !o1 {
		nb.Add(nb, big.NewInt(1))
	}
	if nb.Cmp(big.NewInt(int64(len(b)-off))) > 0 {
		return e, clean, false
	}
	e.BitmapBytes = int(nb.Int64())
	var order []uint32
	if o0 {
		order = append(order, 0)
	}
	if o1 {
		order = append(order, 1)
	}
	for i := 0; i < e.BitmapBytes; i++ {
		for j := 0; j < 8; j++ {
			if b[off+i]>>uint(j)&1 == 1 {
				if 2+8*i+j > 0xffffffff {
					clean = false
				}
				order = append(order, uint32(2+8*i+j))
			}
		}
	}
	off += e.BitmapBytes
	e.Outs = map[uint32]LegacyOut{}
	for _, idx := range order {
		p := Parsed{Clean: true}
		if !parseTxOut(b[off:], &p) {
			return e, clean, false
		}
		if !p.Clean {
			clean = false
		}
		e.Outs[idx] = LegacyOut{p.Amount, p.Script}
		off += p.Size
	}
	return e, clean, true
}
