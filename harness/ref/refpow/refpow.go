// Package refpow is the reference model of Bitcoin's proof-of-work arithmetic used by C09 (and C01):
// compact <-> target conversion, per-block work, the next-work-required rule (retarget with clamp,
// testnet minimum-difficulty rule with walk-back, BIP94, no-retarget networks), median-time-past,
// the proof-of-work check and the subsidy schedule.
//
// It is written from the protocol description (the "compact" format is the 4-byte abbreviation of
// OpenSSL's MPI encoding: a length byte followed by the three most significant bytes of the
// sign-and-magnitude big-endian number; Bitcoin Core pow.cpp / arith_uint256.cpp / validation.cpp
// semantics) and is deliberately naive: byte-string construction, math/big, sort. It imports
// nothing from btcd.
package refpow

import (
	"math/big"
	"sort"
)

var (
	one    = big.NewInt(1)
	two256 = new(big.Int).Lsh(big.NewInt(1), 256)
)

// CompactToTarget expands a compact value by constructing the MPI byte string it abbreviates:
// size = top byte; the three low bytes are the first three bytes of a size-byte big-endian
// sign-and-magnitude number (bit 7 of the first byte is the sign); missing low bytes are zero, and
// when size < 3 only the first size bytes exist. Negative zero is zero.
func CompactToTarget(c uint32) *big.Int {
	size := int(c >> 24)
	b := []byte{byte(c >> 16), byte(c >> 8), byte(c)}
	neg := b[0]&0x80 != 0
	b[0] &= 0x7f
	var mag []byte
	if size <= 3 {
		mag = b[:size]
	} else {
		mag = make([]byte, size) // three leading bytes, the rest zero
		copy(mag, b)
	}
	n := new(big.Int).SetBytes(mag)
	if neg && n.Sign() != 0 {
		n.Neg(n)
	}
	return n
}

// TargetToCompact abbreviates a number: minimal big-endian magnitude, a 0x00 byte in front when
// the top bit of the first byte is set (that bit is the sign in MPI), size = byte count, mantissa
// = first three bytes (right-padded with zero bytes when there are fewer), sign bit for negatives.
// Defined for |n| < 2^(8*255).
func TargetToCompact(n *big.Int) uint32 {
	if n.Sign() == 0 {
		return 0
	}
	mag := n.Bytes() // big-endian magnitude
	if mag[0]&0x80 != 0 {
		mag = append([]byte{0}, mag...)
	}
	size := len(mag)
	var m [3]byte
	copy(m[:], mag)
	c := uint32(size)<<24 | uint32(m[0])<<16 | uint32(m[1])<<8 | uint32(m[2])
	if n.Sign() < 0 {
		c |= 0x00800000
	}
	return c
}

// Overflows reports whether the compact value denotes a magnitude that does not fit 256 bits.
func Overflows(c uint32) bool {
	return new(big.Int).Abs(CompactToTarget(c)).Cmp(two256) >= 0
}

// Work is the expected number of hashes for a block with the given compact target:
// 0 for negative, zero or overflowing targets, otherwise floor(2^256 / (target+1)), computed the
// way Bitcoin Core writes it: (~target / (target+1)) + 1 over 256-bit numbers.
func Work(c uint32) *big.Int { return WorkOfTarget(CompactToTarget(c)) }

// WorkOfTarget is Work for an already expanded target.
func WorkOfTarget(t *big.Int) *big.Int {
	if t.Sign() <= 0 || t.Cmp(two256) >= 0 {
		return new(big.Int)
	}
	not := new(big.Int).Sub(two256, one)
	not.Sub(not, t)
	den := new(big.Int).Add(t, one)
	q := new(big.Int).Quo(not, den)
	return q.Add(q, one)
}

// HashToInt interprets a 32-byte block hash (internal byte order) as a little-endian number.
func HashToInt(h [32]byte) *big.Int {
	n := new(big.Int)
	for i := 31; i >= 0; i-- {
		n.Lsh(n, 8)
		n.Or(n, big.NewInt(int64(h[i])))
	}
	return n
}

// CheckPoW: the claimed target must be positive, not overflow, not exceed the limit, and the hash
// must not exceed the target.
func CheckPoW(hash [32]byte, bits uint32, limit *big.Int) bool {
	t := CompactToTarget(bits)
	if t.Sign() <= 0 || t.Cmp(two256) >= 0 || t.Cmp(limit) > 0 {
		return false
	}
	return HashToInt(hash).Cmp(t) <= 0
}

// Params are the consensus parameters the next-work rule depends on (all times in seconds).
type Params struct {
	PowLimit         *big.Int
	TargetTimespan   int64
	TargetSpacing    int64
	AdjustmentFactor int64 // 4 on every Bitcoin network
	AllowMinDiff     bool  // testnet rule
	MinDiffReduction int64 // 2*TargetSpacing on every Bitcoin network
	NoRetarget       bool  // regtest
	BIP94            bool  // testnet4
}

// Interval is the number of blocks per difficulty period.
func (p *Params) Interval() int64 { return p.TargetTimespan / p.TargetSpacing }

// LimitBits is the compact form of the proof-of-work limit.
func (p *Params) LimitBits() uint32 { return TargetToCompact(p.PowLimit) }

// Header is what the rules read from a block header and its position.
type Header struct {
	Height int64
	Time   int64
	Bits   uint32
}

// at returns the header at absolute height h of a contiguous chain slice.
func at(chain []Header, h int64) (Header, bool) {
	i := h - chain[0].Height
	if i < 0 || i >= int64(len(chain)) {
		return Header{}, false
	}
	return chain[i], true
}

// NextBits is the compact target required of the block that follows chain (whose last element is
// the tip) and carries timestamp newTime. chain must be contiguous and, for a retarget or a
// walk-back, reach back to the first block of the tip's difficulty period; ok=false otherwise.
//
// On a no-retarget network the rule is evaluated over valid histories only (every block already
// carries the limit), where it always yields the limit.
func NextBits(p *Params, chain []Header, newTime int64) (bits uint32, ok bool) {
	limit := p.LimitBits()
	if p.NoRetarget {
		return limit, true
	}
	if len(chain) == 0 {
		return limit, true
	}
	tip := chain[len(chain)-1]
	n := p.Interval()
	if (tip.Height+1)%n != 0 {
		if !p.AllowMinDiff {
			return tip.Bits, true
		}
		if newTime > tip.Time+p.MinDiffReduction {
			return limit, true
		}
		// last block that is not a minimum-difficulty exception block: walk back while the block
		// has a predecessor, is not the first of its period and carries the limit.
		h := tip.Height
		for {
			cur, have := at(chain, h)
			if !have {
				return 0, false
			}
			if h == 0 || h%n == 0 || cur.Bits != limit {
				return cur.Bits, true
			}
			h--
		}
	}
	first, have := at(chain, tip.Height-(n-1))
	if !have {
		return 0, false
	}
	span := tip.Time - first.Time
	lo, hi := p.TargetTimespan/p.AdjustmentFactor, p.TargetTimespan*p.AdjustmentFactor
	if span < lo {
		span = lo
	}
	if span > hi {
		span = hi
	}
	old := CompactToTarget(tip.Bits)
	if p.BIP94 {
		old = CompactToTarget(first.Bits)
	}
	nt := new(big.Int).Mul(old, big.NewInt(span))
	nt.Quo(nt, big.NewInt(p.TargetTimespan))
	if nt.Cmp(p.PowLimit) > 0 {
		nt.Set(p.PowLimit)
	}
	return TargetToCompact(nt), true
}

// MTP is the median-time-past of the chain's tip: the element at index count/2 of the sorted
// timestamps of the last min(11, len) blocks.
func MTP(chain []Header) int64 {
	k := len(chain)
	if k > 11 {
		k = 11
	}
	ts := make([]int64, 0, k)
	for _, h := range chain[len(chain)-k:] {
		ts = append(ts, h.Time)
	}
	sort.Slice(ts, func(i, j int) bool { return ts[i] < ts[j] })
	return ts[len(ts)/2]
}

// TimeWarpOK is the BIP94 rule: the first block of a difficulty period may not be more than 600
// seconds earlier than its predecessor.
func TimeWarpOK(p *Params, height, newTime, prevTime int64) bool {
	if !p.BIP94 || height%p.Interval() != 0 {
		return true
	}
	return newTime >= prevTime-600
}

// BaseSubsidy is 50 coins in satoshi.
const BaseSubsidy = int64(50 * 100000000)

// MaxMoney is 21 million coins in satoshi.
const MaxMoney = int64(21000000 * 100000000)

// SubsidyAfter returns the subsidy after the given number of halvings by halving naively.
func SubsidyAfter(halvings int64) int64 {
	s := BaseSubsidy
	for i := int64(0); i < halvings && s > 0; i++ {
		s /= 2
	}
	return s
}

// Subsidy is the block subsidy at a height for a halving interval.
func Subsidy(height, interval int64) int64 { return SubsidyAfter(height / interval) }
