// Package refdb is the reference model of the btcd database interface
// (database/interface.go) used by the C05 monitors: nested ordered maps for the
// metadata, a block store keyed by hash, and transactions with snapshot
// semantics.  It is written from the documented interface contract, is
// deliberately naive (maps, sort on demand, deep copy per write transaction) and
// shares no code with ffldb.
//
// Error conditions are reported as the *set* of contract error codes whose
// documented condition holds (the interface does not define a precedence
// between them); an empty set means the call must succeed.  Codes are the names
// printed by database.ErrorCode.String(); "other" stands for a documented
// failure that has no contract code.
package refdb

import (
	"bytes"
	"sort"
)

// Contract error code names.
const (
	ErrDbNotOpen          = "ErrDbNotOpen"
	ErrTxClosed           = "ErrTxClosed"
	ErrTxNotWritable      = "ErrTxNotWritable"
	ErrBucketNotFound     = "ErrBucketNotFound"
	ErrBucketExists       = "ErrBucketExists"
	ErrBucketNameRequired = "ErrBucketNameRequired"
	ErrKeyRequired        = "ErrKeyRequired"
	ErrIncompatibleValue  = "ErrIncompatibleValue"
	ErrBlockNotFound      = "ErrBlockNotFound"
	ErrBlockExists        = "ErrBlockExists"
	ErrBlockRegionInvalid = "ErrBlockRegionInvalid"
	ErrOther              = "other"
)

// Codes is a set of acceptable error codes; empty = success required.
type Codes []string

// Accepts reports whether the observed code ("" = nil error) is acceptable.
func (c Codes) Accepts(got string) bool {
	if len(c) == 0 {
		return got == ""
	}
	for _, x := range c {
		if x == got {
			return true
		}
	}
	return false
}

// Dedup returns the set without repetitions, sorted.
func (c Codes) Dedup() Codes {
	m := map[string]bool{}
	var out Codes
	for _, x := range c {
		if !m[x] {
			m[x] = true
			out = append(out, x)
		}
	}
	sort.Strings(out)
	return out
}

// Fails reports whether an error is required.
func (c Codes) Fails() bool { return len(c) > 0 }

func (c Codes) String() string {
	if len(c) == 0 {
		return "nil"
	}
	s := ""
	for i, x := range c {
		if i > 0 {
			s += "|"
		}
		s += x
	}
	return s
}

// Hash identifies a block.
type Hash [32]byte

// Bucket is one level of the nested ordered map.  A name is either a key with
// a value or a nested bucket, never both.
type Bucket struct {
	Keys map[string][]byte
	Subs map[string]*Bucket
}

func newBucket() *Bucket {
	return &Bucket{Keys: map[string][]byte{}, Subs: map[string]*Bucket{}}
}

func (b *Bucket) clone() *Bucket {
	n := newBucket()
	for k, v := range b.Keys {
		n.Keys[k] = append([]byte{}, v...)
	}
	for k, s := range b.Subs {
		n.Subs[k] = s.clone()
	}
	return n
}

// SortedKeys returns the value keys in byte order.
func (b *Bucket) SortedKeys() []string {
	out := make([]string, 0, len(b.Keys))
	for k := range b.Keys {
		out = append(out, k)
	}
	sort.Strings(out)
	return out
}

// SortedSubs returns the nested bucket names in byte order.
func (b *Bucket) SortedSubs() []string {
	out := make([]string, 0, len(b.Subs))
	for k := range b.Subs {
		out = append(out, k)
	}
	sort.Strings(out)
	return out
}

// BlockRec is one stored block.
type BlockRec struct {
	Bytes   []byte
	File    uint32 // flat file the block was appended to (valid once committed)
	Pending bool   // stored by the still-open transaction
	Seq     int    // global store order
}

// State is one committed (or in-transaction) version of the whole database.
type State struct {
	Root   *Bucket
	Blocks map[Hash]*BlockRec

	// Flat-file layout, needed only to predict what PruneBlocks may remove:
	// records are appended (block length + 12 bytes of framing) to the current
	// file and a record that does not fit starts the next file.
	AnyFile   bool
	FirstFile uint32
	CurFile   uint32
	CurOff    uint32
	FileBytes map[uint32]uint32
	Pruned    bool
	NextSeq   int
}

// NewState returns the state of a freshly created database.
func NewState() *State {
	return &State{Root: newBucket(), Blocks: map[Hash]*BlockRec{}, FileBytes: map[uint32]uint32{}}
}

// Clone deep-copies the state (block bytes are immutable and shared).
func (s *State) Clone() *State {
	n := &State{Root: s.Root.clone(), Blocks: make(map[Hash]*BlockRec, len(s.Blocks)),
		AnyFile: s.AnyFile, FirstFile: s.FirstFile, CurFile: s.CurFile, CurOff: s.CurOff,
		FileBytes: make(map[uint32]uint32, len(s.FileBytes)), Pruned: s.Pruned, NextSeq: s.NextSeq}
	for h, r := range s.Blocks {
		c := *r
		n.Blocks[h] = &c
	}
	for f, b := range s.FileBytes {
		n.FileBytes[f] = b
	}
	return n
}

// DB is the model database.
type DB struct {
	Open    bool
	S       *State // last committed state
	MaxFile uint32 // maximum flat file size in force
	Commits int    // number of committed write transactions
}

// New returns an open, empty model database.
func New(maxFile uint32) *DB { return &DB{Open: true, S: NewState(), MaxFile: maxFile} }

// Close closes the database.
func (d *DB) Close() Codes {
	if !d.Open {
		return Codes{ErrDbNotOpen}
	}
	d.Open = false
	return nil
}

// Reopen marks the database open again (same committed state).
func (d *DB) Reopen() { d.Open = true }

// Tx is a model transaction.
type Tx struct {
	db        *DB
	Writable  bool
	Closed    bool
	S         *State
	pending   []Hash
	delFiles  int // number of files scheduled for deletion by PruneBlocks
	prunedAny bool
}

// Begin starts a transaction.  A read-only transaction sees the committed state
// at this moment forever; a writable one works on a private copy.
func (d *DB) Begin(writable bool) (*Tx, Codes) {
	if !d.Open {
		return nil, Codes{ErrDbNotOpen}
	}
	tx := &Tx{db: d, Writable: writable, S: d.S}
	if writable {
		tx.S = d.S.Clone()
	}
	return tx, nil
}

// Rollback ends the transaction discarding its changes.
func (tx *Tx) Rollback() Codes {
	if tx.Closed {
		return Codes{ErrTxClosed}
	}
	tx.Closed = true
	return nil
}

// CommitCodes returns the codes a Commit call must produce, without committing.
func (tx *Tx) CommitCodes() Codes {
	if tx.Closed {
		return Codes{ErrTxClosed}
	}
	if !tx.Writable {
		return Codes{ErrTxNotWritable}
	}
	return nil
}

// Commit applies the transaction.  The transaction is closed afterwards in every
// case (the contract says so for failures too).
func (tx *Tx) Commit() Codes {
	c := tx.CommitCodes()
	if tx.Closed {
		return c
	}
	tx.Closed = true
	if c.Fails() {
		return c
	}
	s := tx.S
	// Files scheduled for deletion go first, then pending blocks are appended.
	for i := 0; i < tx.delFiles; i++ {
		delete(s.FileBytes, s.FirstFile)
		s.FirstFile++
		s.Pruned = true
	}
	if tx.prunedAny {
		s.Pruned = true
	}
	for _, h := range tx.pending {
		r := s.Blocks[h]
		if r == nil || !r.Pending {
			continue
		}
		rec := uint32(len(r.Bytes)) + 12
		if s.CurOff+rec > tx.db.MaxFile {
			s.CurFile++
			s.CurOff = 0
		}
		r.File = s.CurFile
		r.Pending = false
		s.FileBytes[s.CurFile] += rec
		s.CurOff += rec
		s.AnyFile = true
	}
	tx.db.S = s
	tx.db.Commits++
	return nil
}

// Abandon closes the transaction after the real commit failed (I/O fault): the
// model state does not advance.
func (tx *Tx) Abandon() { tx.Closed = true }

// Lookup walks a bucket path from the root; nil when any component is missing.
func (tx *Tx) Lookup(path []string) *Bucket {
	if tx.Closed {
		return nil
	}
	b := tx.S.Root
	for _, p := range path {
		b = b.Subs[p]
		if b == nil {
			return nil
		}
	}
	return b
}

func (tx *Tx) writeCodes() Codes {
	if tx.Closed {
		return Codes{ErrTxClosed}
	}
	if !tx.Writable {
		return Codes{ErrTxNotWritable}
	}
	return nil
}

// CreateBucket creates a nested bucket.
func (tx *Tx) CreateBucket(b *Bucket, name string) Codes {
	if tx.Closed {
		return Codes{ErrTxClosed}
	}
	var c Codes
	if !tx.Writable {
		c = append(c, ErrTxNotWritable)
	}
	if name == "" {
		c = append(c, ErrBucketNameRequired)
	}
	if _, ok := b.Subs[name]; ok {
		c = append(c, ErrBucketExists)
	}
	if _, ok := b.Keys[name]; ok {
		c = append(c, ErrIncompatibleValue)
	}
	if c.Fails() {
		return c
	}
	b.Subs[name] = newBucket()
	return nil
}

// CreateBucketIfNotExists creates the nested bucket unless it exists.
func (tx *Tx) CreateBucketIfNotExists(b *Bucket, name string) Codes {
	if tx.Closed {
		return Codes{ErrTxClosed}
	}
	var c Codes
	if !tx.Writable {
		c = append(c, ErrTxNotWritable)
	}
	if name == "" {
		c = append(c, ErrBucketNameRequired)
	}
	if _, ok := b.Keys[name]; ok {
		c = append(c, ErrIncompatibleValue)
	}
	if c.Fails() {
		return c
	}
	if _, ok := b.Subs[name]; !ok {
		b.Subs[name] = newBucket()
	}
	return nil
}

// DeleteBucket removes a nested bucket with everything below it.
func (tx *Tx) DeleteBucket(b *Bucket, name string) Codes {
	if tx.Closed {
		return Codes{ErrTxClosed}
	}
	var c Codes
	if !tx.Writable {
		c = append(c, ErrTxNotWritable)
	}
	if _, ok := b.Subs[name]; !ok {
		c = append(c, ErrBucketNotFound)
	}
	if c.Fails() {
		return c
	}
	delete(b.Subs, name)
	return nil
}

// Put stores a key/value pair (nil value = empty value).
func (tx *Tx) Put(b *Bucket, key string, val []byte) Codes {
	if tx.Closed {
		return Codes{ErrTxClosed}
	}
	var c Codes
	if !tx.Writable {
		c = append(c, ErrTxNotWritable)
	}
	if key == "" {
		c = append(c, ErrKeyRequired)
	}
	if _, ok := b.Subs[key]; ok && key != "" {
		c = append(c, ErrIncompatibleValue)
	}
	if c.Fails() {
		return c
	}
	b.Keys[key] = append([]byte{}, val...)
	return nil
}

// Get returns the value (non-nil, possibly empty) or nil when absent.
func (tx *Tx) Get(b *Bucket, key string) []byte {
	if tx.Closed {
		return nil
	}
	v, ok := b.Keys[key]
	if !ok {
		return nil
	}
	return v
}

// Delete removes a key; an absent key is not an error.
func (tx *Tx) Delete(b *Bucket, key string) Codes {
	if tx.Closed {
		return Codes{ErrTxClosed}
	}
	var c Codes
	if !tx.Writable {
		c = append(c, ErrTxNotWritable)
	}
	if key == "" {
		c = append(c, ErrKeyRequired)
	}
	if _, ok := b.Subs[key]; ok && key != "" {
		c = append(c, ErrIncompatibleValue)
	}
	if c.Fails() {
		return c
	}
	delete(b.Keys, key)
	return nil
}

// ---------------------------------------------------------------------------
// cursors

// Elem is one position of a cursor: the value keys of the bucket in byte order,
// followed by its nested buckets in byte order.  (The interface does not define
// how the two kinds interleave; this is the tolerated arrangement.)
type Elem struct {
	IsBucket bool
	Name     string
}

func elemLess(a, b Elem) bool {
	if a.IsBucket != b.IsBucket {
		return !a.IsBucket
	}
	return a.Name < b.Name
}

// Cursor is a model cursor; it re-derives its neighbours from the bucket on
// every move, so deletions through it cannot invalidate it.
type Cursor struct {
	tx    *Tx
	b     *Bucket
	Valid bool
	Pos   Elem
}

// NewCursor returns an unpositioned cursor.
func (tx *Tx) NewCursor(b *Bucket) *Cursor { return &Cursor{tx: tx, b: b} }

func (c *Cursor) elems() []Elem {
	var out []Elem
	for _, k := range c.b.SortedKeys() {
		out = append(out, Elem{false, k})
	}
	for _, k := range c.b.SortedSubs() {
		out = append(out, Elem{true, k})
	}
	return out
}

// First positions at the first element.
func (c *Cursor) First() bool {
	if c.tx.Closed {
		return false
	}
	e := c.elems()
	if len(e) == 0 {
		c.Valid = false
		return false
	}
	c.Valid, c.Pos = true, e[0]
	return true
}

// Last positions at the last element.
func (c *Cursor) Last() bool {
	if c.tx.Closed {
		return false
	}
	e := c.elems()
	if len(e) == 0 {
		c.Valid = false
		return false
	}
	c.Valid, c.Pos = true, e[len(e)-1]
	return true
}

// Next moves to the successor of the current position.
func (c *Cursor) Next() bool {
	if c.tx.Closed || !c.Valid {
		return false
	}
	for _, e := range c.elems() {
		if elemLess(c.Pos, e) {
			c.Pos = e
			return true
		}
	}
	c.Valid = false
	return false
}

// Prev moves to the predecessor of the current position.
func (c *Cursor) Prev() bool {
	if c.tx.Closed || !c.Valid {
		return false
	}
	es := c.elems()
	for i := len(es) - 1; i >= 0; i-- {
		if elemLess(es[i], c.Pos) {
			c.Pos = es[i]
			return true
		}
	}
	c.Valid = false
	return false
}

// Seek positions at the first element not before the value key `key`.
func (c *Cursor) Seek(key string) bool {
	if c.tx.Closed {
		return false
	}
	t := Elem{false, key}
	for _, e := range c.elems() {
		if !elemLess(e, t) {
			c.Valid, c.Pos = true, e
			return true
		}
	}
	c.Valid = false
	return false
}

// Key returns the current name or nil.
func (c *Cursor) Key() []byte {
	if c.tx.Closed || !c.Valid {
		return nil
	}
	return []byte(c.Pos.Name)
}

// Value returns the current value; nil for nested buckets and invalid cursors.
func (c *Cursor) Value() []byte {
	if c.tx.Closed || !c.Valid || c.Pos.IsBucket {
		return nil
	}
	return c.b.Keys[c.Pos.Name]
}

// Exists reports whether the element under the cursor still exists (it does
// not after Delete).
func (c *Cursor) Exists() bool {
	if !c.Valid {
		return false
	}
	if c.Pos.IsBucket {
		_, ok := c.b.Subs[c.Pos.Name]
		return ok
	}
	_, ok := c.b.Keys[c.Pos.Name]
	return ok
}

// Delete removes the pair under the cursor.  The caller must only invoke it on a
// positioned cursor whose element exists (the contract is silent otherwise).
func (c *Cursor) Delete() Codes {
	if c.tx.Closed {
		return Codes{ErrTxClosed}
	}
	var codes Codes
	if !c.tx.Writable {
		codes = append(codes, ErrTxNotWritable)
	}
	if c.Pos.IsBucket {
		codes = append(codes, ErrIncompatibleValue)
	}
	if codes.Fails() {
		return codes
	}
	delete(c.b.Keys, c.Pos.Name)
	return nil
}

// ---------------------------------------------------------------------------
// blocks

// StoreBlock stores a block.
func (tx *Tx) StoreBlock(h Hash, raw []byte) Codes {
	if tx.Closed {
		return Codes{ErrTxClosed}
	}
	var c Codes
	if !tx.Writable {
		c = append(c, ErrTxNotWritable)
	}
	if _, ok := tx.S.Blocks[h]; ok {
		c = append(c, ErrBlockExists)
	}
	if c.Fails() {
		return c
	}
	tx.S.Blocks[h] = &BlockRec{Bytes: raw, Pending: true, Seq: tx.S.NextSeq}
	tx.S.NextSeq++
	tx.pending = append(tx.pending, h)
	return nil
}

// HasBlock reports whether the block exists from the transaction's viewpoint.
func (tx *Tx) HasBlock(h Hash) (bool, Codes) {
	if tx.Closed {
		return false, Codes{ErrTxClosed}
	}
	_, ok := tx.S.Blocks[h]
	return ok, nil
}

// FetchBlock returns the stored bytes.
func (tx *Tx) FetchBlock(h Hash) ([]byte, Codes) {
	if tx.Closed {
		return nil, Codes{ErrTxClosed}
	}
	r, ok := tx.S.Blocks[h]
	if !ok {
		return nil, Codes{ErrBlockNotFound}
	}
	return r.Bytes, nil
}

// Region is a block region request.
type Region struct {
	Hash     Hash
	Off, Len uint32
}

// FetchRegion returns the region bytes.
func (tx *Tx) FetchRegion(r Region) ([]byte, Codes) {
	if tx.Closed {
		return nil, Codes{ErrTxClosed}
	}
	rec, ok := tx.S.Blocks[r.Hash]
	if !ok {
		return nil, Codes{ErrBlockNotFound}
	}
	end := uint64(r.Off) + uint64(r.Len)
	if end > uint64(len(rec.Bytes)) {
		return nil, Codes{ErrBlockRegionInvalid}
	}
	return rec.Bytes[r.Off:end], nil
}

// FetchRegions is the bulk form: when several requests fail, any of their codes
// is acceptable.
func (tx *Tx) FetchRegions(rs []Region) ([][]byte, Codes) {
	if tx.Closed {
		return nil, Codes{ErrTxClosed}
	}
	var out [][]byte
	var codes Codes
	for _, r := range rs {
		b, c := tx.FetchRegion(r)
		codes = append(codes, c...)
		out = append(out, b)
	}
	if codes.Fails() {
		return nil, codes.Dedup()
	}
	return out, nil
}

// ---------------------------------------------------------------------------
// pruning

// PruneRange describes what PruneBlocks(target) may do: delete the c oldest flat
// files for some MinFiles <= c <= MaxFiles.  The lower bound charges every file
// its real size, the upper bound charges every file but the newest the maximum
// file size (the store may not know the real sizes); the newest file is never
// deleted.
type PruneRange struct {
	Codes    Codes
	MinFiles int
	MaxFiles int
}

// PruneOptions evaluates PruneBlocks(target) without changing anything.
func (tx *Tx) PruneOptions(target uint64) PruneRange {
	if tx.Closed {
		return PruneRange{Codes: Codes{ErrTxClosed}}
	}
	var c Codes
	if !tx.Writable {
		c = append(c, ErrTxNotWritable)
	}
	if target < uint64(tx.db.MaxFile) {
		c = append(c, ErrOther)
	}
	if c.Fails() {
		return PruneRange{Codes: c}
	}
	// The files considered are the committed ones (deletion happens at commit).
	s := tx.db.S
	if !s.AnyFile || s.FirstFile+uint32(tx.delFiles) >= s.CurFile {
		return PruneRange{}
	}
	first := s.FirstFile + uint32(tx.delFiles)
	nOld := int(s.CurFile - first) // files that may be deleted
	var real, est uint64
	for f := first; f <= s.CurFile; f++ {
		real += uint64(s.FileBytes[f])
	}
	est = uint64(s.FileBytes[s.CurFile]) + uint64(nOld)*uint64(tx.db.MaxFile)
	minF, maxF := 0, 0
	for f := first; real > target && minF < nOld; f++ {
		real -= uint64(s.FileBytes[f])
		minF++
	}
	for est > target && maxF < nOld {
		est -= uint64(tx.db.MaxFile)
		maxF++
	}
	if maxF < minF {
		maxF = minF
	}
	return PruneRange{MinFiles: minF, MaxFiles: maxF}
}

// PruneSet returns the hashes (in byte order) of the blocks, still present in
// the transaction, that live in the c oldest not-yet-scheduled files.
func (tx *Tx) PruneSet(c int) []Hash {
	s := tx.db.S
	first := s.FirstFile + uint32(tx.delFiles)
	var out []Hash
	for h, r := range tx.S.Blocks {
		if r.Pending {
			continue
		}
		if r.File >= first && r.File < first+uint32(c) {
			out = append(out, h)
		}
	}
	sort.Slice(out, func(i, j int) bool { return bytes.Compare(out[i][:], out[j][:]) < 0 })
	return out
}

// ApplyPrune removes the blocks of the c oldest files from the transaction's
// view and schedules the files for deletion at commit.
func (tx *Tx) ApplyPrune(c int) {
	for _, h := range tx.PruneSet(c) {
		delete(tx.S.Blocks, h)
	}
	tx.delFiles += c
}

// ApplyPruneSet is the layout-agnostic form of PruneBlocks: it accepts any set of
// committed blocks that is "oldest first" (no committed block that stays is
// older than one that goes) and removes it.  It returns "" or why the set is not
// acceptable.  The file layout of the model is meaningless afterwards.
func (tx *Tx) ApplyPruneSet(hs []Hash) string {
	maxSeq := -1
	set := map[Hash]bool{}
	for _, h := range hs {
		r, ok := tx.S.Blocks[h]
		if !ok || r.Pending {
			return "a returned hash is not a committed block of this transaction's view"
		}
		if set[h] {
			return "a hash is returned twice"
		}
		set[h] = true
		if r.Seq > maxSeq {
			maxSeq = r.Seq
		}
	}
	for h, r := range tx.S.Blocks {
		if !r.Pending && !set[h] && r.Seq < maxSeq {
			return "a block older than a pruned one is kept"
		}
	}
	for h := range set {
		delete(tx.S.Blocks, h)
	}
	if len(hs) > 0 {
		tx.prunedAny = true
	}
	return ""
}

// PrunedInTx reports whether this transaction scheduled files for deletion.
func (tx *Tx) PrunedInTx() bool { return tx.delFiles > 0 || tx.prunedAny }

// BeenPruned reports whether committed pruning ever happened.
func (tx *Tx) BeenPruned() bool { return tx.S.Pruned }
