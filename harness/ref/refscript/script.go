// Package refscript is an independent reference implementation of Bitcoin's script
// verification semantics (Bitcoin Core's script/interpreter.cpp: VerifyScript, EvalScript,
// VerifyWitnessProgram, ExecuteWitnessScript, the signature/pubkey encoding checks, the three
// signature-hash algorithms and the sigop counters). It shares no code with btcd's txscript;
// elliptic-curve arithmetic comes from the unmodified third-party secp256k1 field/group
// primitives (not from /repo/btcec), hashing from the Go standard library and x/crypto.
package refscript

// Opcode values.
const (
	OP_0         = 0x00
	OP_PUSHDATA1 = 0x4c
	OP_PUSHDATA2 = 0x4d
	OP_PUSHDATA4 = 0x4e
	OP_1NEGATE   = 0x4f
	OP_RESERVED  = 0x50
	OP_1         = 0x51
	OP_16        = 0x60

	OP_NOP      = 0x61
	OP_VER      = 0x62
	OP_IF       = 0x63
	OP_NOTIF    = 0x64
	OP_VERIF    = 0x65
	OP_VERNOTIF = 0x66
	OP_ELSE     = 0x67
	OP_ENDIF    = 0x68
	OP_VERIFY   = 0x69
	OP_RETURN   = 0x6a

	OP_TOALTSTACK   = 0x6b
	OP_FROMALTSTACK = 0x6c
	OP_2DROP        = 0x6d
	OP_2DUP         = 0x6e
	OP_3DUP         = 0x6f
	OP_2OVER        = 0x70
	OP_2ROT         = 0x71
	OP_2SWAP        = 0x72
	OP_IFDUP        = 0x73
	OP_DEPTH        = 0x74
	OP_DROP         = 0x75
	OP_DUP          = 0x76
	OP_NIP          = 0x77
	OP_OVER         = 0x78
	OP_PICK         = 0x79
	OP_ROLL         = 0x7a
	OP_ROT          = 0x7b
	OP_SWAP         = 0x7c
	OP_TUCK         = 0x7d

	OP_CAT    = 0x7e
	OP_SUBSTR = 0x7f
	OP_LEFT   = 0x80
	OP_RIGHT  = 0x81
	OP_SIZE   = 0x82

	OP_INVERT      = 0x83
	OP_AND         = 0x84
	OP_OR          = 0x85
	OP_XOR         = 0x86
	OP_EQUAL       = 0x87
	OP_EQUALVERIFY = 0x88
	OP_RESERVED1   = 0x89
	OP_RESERVED2   = 0x8a

	OP_1ADD      = 0x8b
	OP_1SUB      = 0x8c
	OP_2MUL      = 0x8d
	OP_2DIV      = 0x8e
	OP_NEGATE    = 0x8f
	OP_ABS       = 0x90
	OP_NOT       = 0x91
	OP_0NOTEQUAL = 0x92

	OP_ADD    = 0x93
	OP_SUB    = 0x94
	OP_MUL    = 0x95
	OP_DIV    = 0x96
	OP_MOD    = 0x97
	OP_LSHIFT = 0x98
	OP_RSHIFT = 0x99

	OP_BOOLAND            = 0x9a
	OP_BOOLOR             = 0x9b
	OP_NUMEQUAL           = 0x9c
	OP_NUMEQUALVERIFY     = 0x9d
	OP_NUMNOTEQUAL        = 0x9e
	OP_LESSTHAN           = 0x9f
	OP_GREATERTHAN        = 0xa0
	OP_LESSTHANOREQUAL    = 0xa1
	OP_GREATERTHANOREQUAL = 0xa2
	OP_MIN                = 0xa3
	OP_MAX                = 0xa4
	OP_WITHIN             = 0xa5

	OP_RIPEMD160           = 0xa6
	OP_SHA1                = 0xa7
	OP_SHA256              = 0xa8
	OP_HASH160             = 0xa9
	OP_HASH256             = 0xaa
	OP_CODESEPARATOR       = 0xab
	OP_CHECKSIG            = 0xac
	OP_CHECKSIGVERIFY      = 0xad
	OP_CHECKMULTISIG       = 0xae
	OP_CHECKMULTISIGVERIFY = 0xaf

	OP_NOP1                = 0xb0
	OP_CHECKLOCKTIMEVERIFY = 0xb1
	OP_CHECKSEQUENCEVERIFY = 0xb2
	OP_NOP4                = 0xb3
	OP_NOP10               = 0xb9
	OP_CHECKSIGADD         = 0xba
	OP_INVALIDOPCODE       = 0xff
)

// Consensus limits.
const (
	MaxScriptElementSize = 520
	MaxOpsPerScript      = 201
	MaxPubKeysPerMulti   = 20
	MaxScriptSize        = 10000
	MaxStackSize         = 1000
	LockTimeThreshold    = 500000000

	SequenceFinal           = 0xffffffff
	SequenceLockDisableFlag = 1 << 31
	SequenceLockTypeFlag    = 1 << 22
	SequenceLockMask        = 0x0000ffff

	AnnexTag              = 0x50
	TaprootLeafMask       = 0xfe
	TaprootLeafTapscript  = 0xc0
	TaprootControlBase    = 33
	TaprootControlNode    = 32
	TaprootControlMaxNode = 128
	TaprootControlMaxSize = TaprootControlBase + TaprootControlNode*TaprootControlMaxNode

	ValidationWeightPerSigop = 50
	ValidationWeightOffset   = 50
)

// GetOp decodes one opcode at script[pc:]. It returns the opcode, its push payload (nil for
// non-push opcodes), the position after the opcode and ok=false on a truncated push.
func GetOp(script []byte, pc int) (op byte, data []byte, next int, ok bool) {
	if pc >= len(script) {
		return OP_INVALIDOPCODE, nil, pc, false
	}
	op = script[pc]
	pc++
	if op <= OP_PUSHDATA4 {
		var n uint64
		switch {
		case op < OP_PUSHDATA1:
			n = uint64(op)
		case op == OP_PUSHDATA1:
			if len(script)-pc < 1 {
				return op, nil, len(script), false
			}
			n = uint64(script[pc])
			pc++
		case op == OP_PUSHDATA2:
			if len(script)-pc < 2 {
				return op, nil, len(script), false
			}
			n = uint64(script[pc]) | uint64(script[pc+1])<<8
			pc += 2
		default:
			if len(script)-pc < 4 {
				return op, nil, len(script), false
			}
			n = uint64(script[pc]) | uint64(script[pc+1])<<8 | uint64(script[pc+2])<<16 | uint64(script[pc+3])<<24
			pc += 4
		}
		if uint64(len(script)-pc) < n {
			return op, nil, len(script), false
		}
		data = script[pc : pc+int(n)]
		if data == nil {
			data = []byte{}
		}
		pc += int(n)
	}
	return op, data, pc, true
}

// PushData encodes data the way Core's `CScript() << vector` does (by length only).
func PushData(data []byte) []byte {
	n := len(data)
	var out []byte
	switch {
	case n < OP_PUSHDATA1:
		out = append(out, byte(n))
	case n <= 0xff:
		out = append(out, OP_PUSHDATA1, byte(n))
	case n <= 0xffff:
		out = append(out, OP_PUSHDATA2, byte(n), byte(n>>8))
	default:
		out = append(out, OP_PUSHDATA4, byte(n), byte(n>>8), byte(n>>16), byte(n>>24))
	}
	return append(out, data...)
}

// PushInt encodes an integer push the way Core's `CScript() << int64` does.
func PushInt(v int64) []byte {
	if v == -1 || (v >= 1 && v <= 16) {
		return []byte{byte(v + (OP_1 - 1))}
	}
	if v == 0 {
		return []byte{OP_0}
	}
	return PushData(NumSerialize(v))
}

// IsPushOnly reports whether every opcode of the script is <= OP_16 and parses.
func IsPushOnly(script []byte) bool {
	for pc := 0; pc < len(script); {
		op, _, next, ok := GetOp(script, pc)
		if !ok {
			return false
		}
		if op > OP_16 {
			return false
		}
		pc = next
	}
	return true
}

// IsPayToScriptHash: HASH160 <20> EQUAL exactly.
func IsPayToScriptHash(s []byte) bool {
	return len(s) == 23 && s[0] == OP_HASH160 && s[1] == 0x14 && s[22] == OP_EQUAL
}

// IsWitnessProgram: a version opcode followed by a single direct push of 2..40 bytes.
func IsWitnessProgram(s []byte) (version int, program []byte, ok bool) {
	if len(s) < 4 || len(s) > 42 {
		return 0, nil, false
	}
	if s[0] != OP_0 && (s[0] < OP_1 || s[0] > OP_16) {
		return 0, nil, false
	}
	if int(s[1])+2 != len(s) {
		return 0, nil, false
	}
	v := 0
	if s[0] != OP_0 {
		v = int(s[0]) - (OP_1 - 1)
	}
	return v, s[2:], true
}

// IsPayToAnchor: witness v1 program 0x4e73.
func IsPayToAnchor(version int, program []byte) bool {
	return version == 1 && len(program) == 2 && program[0] == 0x4e && program[1] == 0x73
}

// IsOpSuccess is BIP342's OP_SUCCESSx set.
func IsOpSuccess(op byte) bool {
	return op == 80 || op == 98 || (op >= 126 && op <= 129) ||
		(op >= 131 && op <= 134) || (op >= 137 && op <= 138) ||
		(op >= 141 && op <= 142) || (op >= 149 && op <= 153) ||
		(op >= 187 && op <= 254)
}

// IsDisabled is the set of opcodes that fail the script when merely encountered.
func IsDisabled(op byte) bool {
	switch op {
	case OP_CAT, OP_SUBSTR, OP_LEFT, OP_RIGHT, OP_INVERT, OP_AND, OP_OR, OP_XOR,
		OP_2MUL, OP_2DIV, OP_MUL, OP_DIV, OP_MOD, OP_LSHIFT, OP_RSHIFT:
		return true
	}
	return false
}

// CastToBool: any non-zero byte makes it true, except a lone sign bit in the last byte.
func CastToBool(v []byte) bool {
	for i, b := range v {
		if b != 0 {
			if i == len(v)-1 && b == 0x80 {
				return false
			}
			return true
		}
	}
	return false
}

// NumSerialize is CScriptNum::serialize.
func NumSerialize(v int64) []byte {
	if v == 0 {
		return []byte{}
	}
	neg := v < 0
	var abs uint64
	if neg {
		abs = uint64(-v) // -MinInt64 wraps to itself as uint64, which is the right magnitude
	} else {
		abs = uint64(v)
	}
	var out []byte
	for abs != 0 {
		out = append(out, byte(abs))
		abs >>= 8
	}
	if out[len(out)-1]&0x80 != 0 {
		if neg {
			out = append(out, 0x80)
		} else {
			out = append(out, 0)
		}
	} else if neg {
		out[len(out)-1] |= 0x80
	}
	return out
}

// NumDecode is the CScriptNum constructor: ok=false on overflow (> maxLen bytes) or, when
// requireMinimal, a non-minimal encoding.
func NumDecode(v []byte, requireMinimal bool, maxLen int) (int64, bool) {
	if len(v) > maxLen {
		return 0, false
	}
	if requireMinimal && len(v) > 0 {
		if v[len(v)-1]&0x7f == 0 {
			if len(v) <= 1 || v[len(v)-2]&0x80 == 0 {
				return 0, false
			}
		}
	}
	if len(v) == 0 {
		return 0, true
	}
	var r uint64
	for i, b := range v {
		r |= uint64(b) << (8 * uint(i))
	}
	if v[len(v)-1]&0x80 != 0 {
		r &^= uint64(0x80) << (8 * uint(len(v)-1))
		return -int64(r), true
	}
	return int64(r), true
}

// clampInt is CScriptNum::getint.
func clampInt(v int64) int {
	if v > 0x7fffffff {
		return 0x7fffffff
	}
	if v < -0x80000000 {
		return -0x80000000
	}
	return int(v)
}

// CheckMinimalPush is Core's CheckMinimalPush.
func CheckMinimalPush(data []byte, op byte) bool {
	switch {
	case len(data) == 0:
		return op == OP_0
	case len(data) == 1 && data[0] >= 1 && data[0] <= 16:
		return false // should have used OP_1..OP_16
	case len(data) == 1 && data[0] == 0x81:
		return false // should have used OP_1NEGATE
	case len(data) <= 75:
		return int(op) == len(data)
	case len(data) <= 255:
		return op == OP_PUSHDATA1
	case len(data) <= 65535:
		return op == OP_PUSHDATA2
	}
	return true
}

// FindAndDelete removes every occurrence of pat that starts at an opcode boundary.
func FindAndDelete(script, pat []byte) ([]byte, int) {
	if len(pat) == 0 {
		return script, 0
	}
	found := 0
	var result []byte
	pc, pc2 := 0, 0
	for {
		result = append(result, script[pc2:pc]...)
		for len(script)-pc >= len(pat) && string(script[pc:pc+len(pat)]) == string(pat) {
			pc += len(pat)
			found++
		}
		pc2 = pc
		if pc >= len(script) {
			break
		}
		_, _, next, ok := GetOp(script, pc)
		pc = next
		if !ok {
			break
		}
	}
	if found == 0 {
		return script, 0
	}
	result = append(result, script[pc2:]...)
	return result, found
}
