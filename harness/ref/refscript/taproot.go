package refscript

import "bytes"

// TapLeafHash is BIP341's leaf hash.
func TapLeafHash(leafVersion byte, script []byte) [32]byte {
	return TaggedHash("TapLeaf", []byte{leafVersion}, putVarBytes(nil, script))
}

// TapBranchHash combines two nodes in lexicographic order.
func TapBranchHash(a, b [32]byte) [32]byte {
	if bytes.Compare(a[:], b[:]) > 0 {
		a, b = b, a
	}
	return TaggedHash("TapBranch", a[:], b[:])
}

// TapMerkleRoot folds the control block's path over the leaf hash.
func TapMerkleRoot(control []byte, leaf [32]byte) [32]byte {
	k := leaf
	for i := TaprootControlBase; i+TaprootControlNode <= len(control); i += TaprootControlNode {
		var n [32]byte
		copy(n[:], control[i:i+TaprootControlNode])
		k = TapBranchHash(k, n)
	}
	return k
}

// VerifyTaprootCommitment checks that program commits to leaf through control.
func VerifyTaprootCommitment(control, program []byte, leaf [32]byte) bool {
	if len(control) < TaprootControlBase || len(program) != 32 {
		return false
	}
	p := control[1:TaprootControlBase]
	root := TapMerkleRoot(control, leaf)
	return checkTapTweak(program, p, root[:], control[0]&1 == 1)
}
