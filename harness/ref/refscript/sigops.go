package refscript

// SigOpCount is CScript::GetSigOpCount(fAccurate).
func SigOpCount(script []byte, accurate bool) int {
	n := 0
	last := byte(OP_INVALIDOPCODE)
	for pc := 0; pc < len(script); {
		op, _, next, ok := GetOp(script, pc)
		if !ok {
			break
		}
		pc = next
		switch op {
		case OP_CHECKSIG, OP_CHECKSIGVERIFY:
			n++
		case OP_CHECKMULTISIG, OP_CHECKMULTISIGVERIFY:
			if accurate && last >= OP_1 && last <= OP_16 {
				n += int(last) - (OP_1 - 1)
			} else {
				n += MaxPubKeysPerMulti
			}
		}
		last = op
	}
	return n
}

// P2SHSigOpCount is CScript::GetSigOpCount(scriptSig) called on the scriptPubKey.
func P2SHSigOpCount(scriptPubKey, scriptSig []byte) int {
	if !IsPayToScriptHash(scriptPubKey) {
		return SigOpCount(scriptPubKey, true)
	}
	var data []byte
	for pc := 0; pc < len(scriptSig); {
		op, d, next, ok := GetOp(scriptSig, pc)
		if !ok {
			return 0
		}
		if op > OP_16 {
			return 0
		}
		pc = next
		data = d
	}
	return SigOpCount(data, true)
}

func witnessSigOps(ver int, prog []byte, witness [][]byte) int {
	if ver == 0 {
		if len(prog) == 20 {
			return 1
		}
		if len(prog) == 32 && len(witness) > 0 {
			return SigOpCount(witness[len(witness)-1], true)
		}
	}
	return 0
}

// WitnessSigOpCount is CountWitnessSigOps.
func WitnessSigOpCount(scriptSig, scriptPubKey []byte, witness [][]byte, flags Flags) int {
	if flags&WITNESS == 0 {
		return 0
	}
	if ver, prog, ok := IsWitnessProgram(scriptPubKey); ok {
		return witnessSigOps(ver, prog, witness)
	}
	if IsPayToScriptHash(scriptPubKey) && IsPushOnly(scriptSig) {
		var data []byte
		for pc := 0; pc < len(scriptSig); {
			_, d, next, _ := GetOp(scriptSig, pc)
			pc = next
			data = d
		}
		if ver, prog, ok := IsWitnessProgram(data); ok {
			return witnessSigOps(ver, prog, witness)
		}
	}
	return 0
}

// TxSigOpCost is GetTransactionSigOpCost for a non-coinbase transaction whose previous outputs
// are spent[i] (coinbase: pass spent == nil, only the legacy count is taken).
func TxSigOpCost(tx *Tx, spent []TxOut, flags Flags) int {
	n := 0
	for i := range tx.In {
		n += SigOpCount(tx.In[i].ScriptSig, false)
	}
	for i := range tx.Out {
		n += SigOpCount(tx.Out[i].PkScript, false)
	}
	n *= 4
	if spent == nil {
		return n
	}
	if flags&P2SH != 0 {
		for i := range tx.In {
			if IsPayToScriptHash(spent[i].PkScript) {
				n += 4 * P2SHSigOpCount(spent[i].PkScript, tx.In[i].ScriptSig)
			}
		}
	}
	for i := range tx.In {
		n += WitnessSigOpCount(tx.In[i].ScriptSig, spent[i].PkScript, tx.In[i].Witness, flags)
	}
	return n
}
