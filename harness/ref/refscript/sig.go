package refscript

import (
	"math/big"

	secp "github.com/decred/dcrd/dcrec/secp256k1/v4"
)

// --- signature / public-key ENCODING rules (own code) ---

// IsValidSignatureEncoding is BIP66's strict DER check; sig includes the hash-type byte.
func IsValidSignatureEncoding(sig []byte) bool {
	if len(sig) < 9 || len(sig) > 73 {
		return false
	}
	if sig[0] != 0x30 {
		return false
	}
	if int(sig[1]) != len(sig)-3 {
		return false
	}
	lenR := int(sig[3])
	if 5+lenR >= len(sig) {
		return false
	}
	lenS := int(sig[5+lenR])
	if lenR+lenS+7 != len(sig) {
		return false
	}
	if sig[2] != 0x02 {
		return false
	}
	if lenR == 0 {
		return false
	}
	if sig[4]&0x80 != 0 {
		return false
	}
	if lenR > 1 && sig[4] == 0 && sig[5]&0x80 == 0 {
		return false
	}
	if sig[lenR+4] != 0x02 {
		return false
	}
	if lenS == 0 {
		return false
	}
	if sig[lenR+6]&0x80 != 0 {
		return false
	}
	if lenS > 1 && sig[lenR+6] == 0 && sig[lenR+7]&0x80 == 0 {
		return false
	}
	return true
}

var (
	curveN, _     = new(big.Int).SetString("fffffffffffffffffffffffffffffffebaaedce6af48a03bbfd25e8cd0364141", 16)
	curveHalfN    = new(big.Int).Rsh(curveN, 1)
	curveP, _     = new(big.Int).SetString("fffffffffffffffffffffffffffffffffffffffffffffffffffffffefffffc2f", 16)
	curvePPlus1d4 = new(big.Int).Rsh(new(big.Int).Add(curveP, big.NewInt(1)), 2)
)

// parseDERLax is libsecp256k1's contrib ecdsa_signature_parse_der_lax as used by
// CPubKey::Verify / CheckLowS. ok=false: unparseable. Overflowing / oversized integers make
// the whole signature (0,0) like the original (which then never verifies and is never "high S").
func parseDERLax(in []byte) (r, s *big.Int, ok bool) {
	pos := 0
	n := len(in)
	if pos == n || in[pos] != 0x30 {
		return nil, nil, false
	}
	pos++
	// sequence length bytes
	if pos == n {
		return nil, nil, false
	}
	lenbyte := int(in[pos])
	pos++
	if lenbyte&0x80 != 0 {
		lenbyte -= 0x80
		if lenbyte > n-pos {
			return nil, nil, false
		}
		pos += lenbyte
	}
	readInt := func() (start, ln int, good bool) {
		if pos == n || in[pos] != 0x02 {
			return 0, 0, false
		}
		pos++
		if pos == n {
			return 0, 0, false
		}
		lb := int(in[pos])
		pos++
		l := 0
		if lb&0x80 != 0 {
			lb -= 0x80
			if lb > n-pos {
				return 0, 0, false
			}
			for lb > 0 && in[pos] == 0 {
				pos++
				lb--
			}
			if lb >= 4 {
				return 0, 0, false
			}
			for lb > 0 {
				l = l<<8 + int(in[pos])
				pos++
				lb--
			}
		} else {
			l = lb
		}
		if l > n-pos {
			return 0, 0, false
		}
		start = pos
		pos += l
		return start, l, true
	}
	rpos, rlen, good := readInt()
	if !good {
		return nil, nil, false
	}
	spos, slen, good := readInt()
	if !good {
		return nil, nil, false
	}
	overflow := false
	strip := func(p, l int) []byte {
		for l > 0 && in[p] == 0 {
			l--
			p++
		}
		if l > 32 {
			overflow = true
			return nil
		}
		return in[p : p+l]
	}
	rb := strip(rpos, rlen)
	sb := strip(spos, slen)
	r, s = new(big.Int), new(big.Int)
	if !overflow {
		r.SetBytes(rb)
		s.SetBytes(sb)
		if r.Cmp(curveN) >= 0 || s.Cmp(curveN) >= 0 {
			overflow = true
		}
	}
	if overflow {
		r.SetInt64(0)
		s.SetInt64(0)
	}
	return r, s, true
}

// isLowS is CPubKey::CheckLowS on a DER signature without the hash-type byte.
func isLowS(der []byte) bool {
	_, s, ok := parseDERLax(der)
	if !ok {
		return false
	}
	return s.Cmp(curveHalfN) <= 0
}

func isDefinedHashType(sig []byte) bool {
	if len(sig) == 0 {
		return false
	}
	ht := sig[len(sig)-1] &^ SigHashAnyOneCanPay
	return ht >= SigHashAll && ht <= SigHashSingle
}

func isCompressedOrUncompressedPubKey(pk []byte) bool {
	if len(pk) < 33 {
		return false
	}
	switch pk[0] {
	case 0x04:
		return len(pk) == 65
	case 0x02, 0x03:
		return len(pk) == 33
	}
	return false
}

func isCompressedPubKey(pk []byte) bool {
	return len(pk) == 33 && (pk[0] == 0x02 || pk[0] == 0x03)
}

// checkSignatureEncoding returns "" or the script error name.
func checkSignatureEncoding(sig []byte, flags Flags) string {
	if len(sig) == 0 {
		return ""
	}
	if flags&(DERSIG|LOW_S|STRICTENC) != 0 && !IsValidSignatureEncoding(sig) {
		return "SIG_DER"
	}
	if flags&LOW_S != 0 {
		if !IsValidSignatureEncoding(sig) {
			return "SIG_DER"
		}
		if !isLowS(sig[:len(sig)-1]) {
			return "SIG_HIGH_S"
		}
	}
	if flags&STRICTENC != 0 && !isDefinedHashType(sig) {
		return "SIG_HASHTYPE"
	}
	return ""
}

func checkPubKeyEncoding(pk []byte, flags Flags, sv sigVersion) string {
	if flags&STRICTENC != 0 && !isCompressedOrUncompressedPubKey(pk) {
		return "PUBKEYTYPE"
	}
	if flags&WITNESS_PUBKEYTYPE != 0 && sv == sigWitnessV0 && !isCompressedPubKey(pk) {
		return "WITNESS_PUBKEYTYPE"
	}
	return ""
}

// --- public key parsing (own code, math/big) ---

func onCurve(x, y *big.Int) bool {
	l := new(big.Int).Mul(y, y)
	l.Mod(l, curveP)
	r := new(big.Int).Mul(x, x)
	r.Mul(r, x)
	r.Add(r, big.NewInt(7))
	r.Mod(r, curveP)
	return l.Cmp(r) == 0
}

// liftX returns the even-or-odd y for x, ok=false when x >= p or x is not on the curve.
func liftX(x *big.Int, odd bool) (*big.Int, bool) {
	if x.Cmp(curveP) >= 0 {
		return nil, false
	}
	c := new(big.Int).Mul(x, x)
	c.Mul(c, x)
	c.Add(c, big.NewInt(7))
	c.Mod(c, curveP)
	y := new(big.Int).Exp(c, curvePPlus1d4, curveP)
	if new(big.Int).Exp(y, big.NewInt(2), curveP).Cmp(c) != 0 {
		return nil, false
	}
	if (y.Bit(0) == 1) != odd {
		y.Sub(curveP, y)
	}
	return y, true
}

// parsePubKey is CPubKey(vch) + secp256k1_ec_pubkey_parse: 33-byte 02/03, 65-byte 04/06/07.
func parsePubKey(pk []byte) (x, y *big.Int, ok bool) {
	if len(pk) == 0 {
		return nil, nil, false
	}
	want := 0
	switch pk[0] {
	case 2, 3:
		want = 33
	case 4, 6, 7:
		want = 65
	}
	if want == 0 || len(pk) != want {
		return nil, nil, false
	}
	x = new(big.Int).SetBytes(pk[1:33])
	if want == 33 {
		y, ok = liftX(x, pk[0] == 3)
		return x, y, ok
	}
	y = new(big.Int).SetBytes(pk[33:65])
	if x.Cmp(curveP) >= 0 || y.Cmp(curveP) >= 0 || !onCurve(x, y) {
		return nil, nil, false
	}
	if pk[0] == 6 && y.Bit(0) != 0 || pk[0] == 7 && y.Bit(0) != 1 {
		return nil, nil, false
	}
	return x, y, true
}

// --- signature EQUATIONS over third-party group arithmetic ---

func toPoint(x, y *big.Int) secp.JacobianPoint {
	var fx, fy, fz secp.FieldVal
	var b [32]byte
	x.FillBytes(b[:])
	fx.SetBytes(&b)
	y.FillBytes(b[:])
	fy.SetBytes(&b)
	fz.SetInt(1)
	return secp.MakeJacobianPoint(&fx, &fy, &fz)
}

func scalar(v *big.Int) secp.ModNScalar {
	var s secp.ModNScalar
	var b [32]byte
	new(big.Int).Mod(v, curveN).FillBytes(b[:])
	s.SetBytes(&b)
	return s
}

func isInfinity(p *secp.JacobianPoint) bool {
	return (p.X.IsZero() && p.Y.IsZero()) || p.Z.IsZero()
}

// ecdsaVerify: r,s in [1,n-1], Q a curve point, hash a 32-byte digest.
func ecdsaVerify(r, s *big.Int, qx, qy *big.Int, hash [32]byte) bool {
	if r.Sign() <= 0 || s.Sign() <= 0 || r.Cmp(curveN) >= 0 || s.Cmp(curveN) >= 0 {
		return false
	}
	w := new(big.Int).ModInverse(s, curveN)
	e := new(big.Int).SetBytes(hash[:])
	u1 := scalar(new(big.Int).Mul(e, w))
	u2 := scalar(new(big.Int).Mul(r, w))
	q := toPoint(qx, qy)
	var p1, p2, sum secp.JacobianPoint
	secp.ScalarBaseMultNonConst(&u1, &p1)
	secp.ScalarMultNonConst(&u2, &q, &p2)
	secp.AddNonConst(&p1, &p2, &sum)
	if isInfinity(&sum) {
		return false
	}
	sum.ToAffine()
	xb := sum.X.Bytes()
	xr := new(big.Int).SetBytes(xb[:])
	xr.Mod(xr, curveN)
	return xr.Cmp(r) == 0
}

// verifyECDSA is CPubKey::Verify: lax DER parse, (S normalisation is a no-op for the equation).
func verifyECDSA(der, pk []byte, hash [32]byte) bool {
	x, y, ok := parsePubKey(pk)
	if !ok {
		return false
	}
	r, s, ok := parseDERLax(der)
	if !ok {
		return false
	}
	return ecdsaVerify(r, s, x, y, hash)
}

// verifySchnorr is BIP340 verification.
func verifySchnorr(sig64, pk32 []byte, msg [32]byte) bool {
	if len(sig64) != 64 || len(pk32) != 32 {
		return false
	}
	px := new(big.Int).SetBytes(pk32)
	py, ok := liftX(px, false)
	if !ok {
		return false
	}
	r := new(big.Int).SetBytes(sig64[:32])
	s := new(big.Int).SetBytes(sig64[32:])
	if r.Cmp(curveP) >= 0 || s.Cmp(curveN) >= 0 {
		return false
	}
	eh := TaggedHash("BIP0340/challenge", sig64[:32], pk32, msg[:])
	e := new(big.Int).SetBytes(eh[:])
	e.Mod(e, curveN)
	negE := scalar(new(big.Int).Sub(curveN, e))
	ss := scalar(s)
	p := toPoint(px, py)
	var p1, p2, sum secp.JacobianPoint
	secp.ScalarBaseMultNonConst(&ss, &p1)
	secp.ScalarMultNonConst(&negE, &p, &p2)
	secp.AddNonConst(&p1, &p2, &sum)
	if isInfinity(&sum) {
		return false
	}
	sum.ToAffine()
	if sum.Y.IsOdd() {
		return false
	}
	xb := sum.X.Bytes()
	return new(big.Int).SetBytes(xb[:]).Cmp(r) == 0
}

// checkTapTweak is XOnlyPubKey::CheckTapTweak: Q == P + H_TapTweak(P||root)*G with parity.
func checkTapTweak(q32, p32 []byte, root []byte, parity bool) bool {
	px := new(big.Int).SetBytes(p32)
	py, ok := liftX(px, false)
	if !ok {
		return false
	}
	th := TaggedHash("TapTweak", p32, root)
	t := new(big.Int).SetBytes(th[:])
	if t.Cmp(curveN) >= 0 {
		return false
	}
	ts := scalar(t)
	p := toPoint(px, py)
	var tg, sum secp.JacobianPoint
	secp.ScalarBaseMultNonConst(&ts, &tg)
	secp.AddNonConst(&p, &tg, &sum)
	if isInfinity(&sum) {
		return false
	}
	sum.ToAffine()
	xb := sum.X.Bytes()
	if string(xb[:]) != string(q32) {
		return false
	}
	return sum.Y.IsOdd() == parity
}

// TapTweakOutput computes the taproot output key for (internal key, merkle root) and its parity;
// used by the workload generator to build commitments through the reference's own code.
func TapTweakOutput(p32 []byte, root []byte) (q [32]byte, odd bool, ok bool) {
	px := new(big.Int).SetBytes(p32)
	py, good := liftX(px, false)
	if !good {
		return q, false, false
	}
	th := TaggedHash("TapTweak", p32, root)
	t := new(big.Int).SetBytes(th[:])
	if t.Cmp(curveN) >= 0 {
		return q, false, false
	}
	ts := scalar(t)
	p := toPoint(px, py)
	var tg, sum secp.JacobianPoint
	secp.ScalarBaseMultNonConst(&ts, &tg)
	secp.AddNonConst(&p, &tg, &sum)
	if isInfinity(&sum) {
		return q, false, false
	}
	sum.ToAffine()
	q = *sum.X.Bytes()
	return q, sum.Y.IsOdd(), true
}
