package refscript

import "strings"

// Flags are Bitcoin Core's SCRIPT_VERIFY_* flags (named as in Core's test vectors).
type Flags uint32

const (
	P2SH Flags = 1 << iota
	STRICTENC
	DERSIG
	LOW_S
	NULLDUMMY
	SIGPUSHONLY
	MINIMALDATA
	DISCOURAGE_UPGRADABLE_NOPS
	CLEANSTACK
	CHECKLOCKTIMEVERIFY
	CHECKSEQUENCEVERIFY
	WITNESS
	DISCOURAGE_UPGRADABLE_WITNESS_PROGRAM
	MINIMALIF
	NULLFAIL
	WITNESS_PUBKEYTYPE
	CONST_SCRIPTCODE
	TAPROOT
	DISCOURAGE_UPGRADABLE_TAPROOT_VERSION
	DISCOURAGE_OP_SUCCESS
	DISCOURAGE_UPGRADABLE_PUBKEYTYPE
	flagEnd
)

// AllFlags is every defined flag.
const AllFlags = flagEnd - 1

var flagNames = []string{"P2SH", "STRICTENC", "DERSIG", "LOW_S", "NULLDUMMY", "SIGPUSHONLY", "MINIMALDATA",
	"DISCOURAGE_UPGRADABLE_NOPS", "CLEANSTACK", "CHECKLOCKTIMEVERIFY", "CHECKSEQUENCEVERIFY", "WITNESS",
	"DISCOURAGE_UPGRADABLE_WITNESS_PROGRAM", "MINIMALIF", "NULLFAIL", "WITNESS_PUBKEYTYPE", "CONST_SCRIPTCODE",
	"TAPROOT", "DISCOURAGE_UPGRADABLE_TAPROOT_VERSION", "DISCOURAGE_OP_SUCCESS", "DISCOURAGE_UPGRADABLE_PUBKEYTYPE"}

// ParseFlags parses a comma separated flag list as used by Core's JSON vectors.
func ParseFlags(s string) (Flags, bool) {
	var f Flags
	for _, n := range strings.Split(s, ",") {
		n = strings.TrimSpace(n)
		if n == "" || n == "NONE" {
			continue
		}
		found := false
		for i, fn := range flagNames {
			if fn == n {
				f |= 1 << uint(i)
				found = true
			}
		}
		if !found {
			return 0, false
		}
	}
	return f, true
}

func (f Flags) String() string {
	if f == 0 {
		return "NONE"
	}
	var parts []string
	for i, fn := range flagNames {
		if f&(1<<uint(i)) != 0 {
			parts = append(parts, fn)
		}
	}
	return strings.Join(parts, ",")
}

// ValidCombination: Core's VerifyScript asserts CLEANSTACK => P2SH (and WITNESS) and
// WITNESS => P2SH. CLEANSTACK with P2SH but without WITNESS is well defined by the same code
// (Core's own script_tests use it), so only the P2SH implications are demanded here.
func (f Flags) ValidCombination() bool {
	if f&CLEANSTACK != 0 && f&P2SH == 0 {
		return false
	}
	if f&WITNESS != 0 && f&P2SH == 0 {
		return false
	}
	return true
}
