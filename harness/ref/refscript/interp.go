package refscript

import (
	"bytes"
	"crypto/sha1"
	"crypto/sha256"

	"golang.org/x/crypto/ripemd160"
)

type sigVersion int

const (
	sigBase sigVersion = iota
	sigWitnessV0
	sigTaproot
	sigTapscript
)

// Trace collects what the reference observed during one verification (evidence counters).
type Trace struct {
	Executed    [256]uint32 // opcode executed (in an executing branch, or a conditional opcode)
	Skipped     [256]uint32 // opcode passed over in a non-executing branch
	Seen        [256]uint32 // opcode decoded by the evaluation loop (includes disabled ones that abort)
	MaxStack    int         // maximum combined stack+altstack depth seen after an opcode
	MaxOps      int         // maximum op count seen in a script
	MaxElem     int         // maximum pushed element size seen
	MaxScript   int         // largest script handed to EvalScript
	SigChecks   int         // number of signature equation evaluations
	SigChecksOK int
	Path        string // which top-level path decided: "bare", "p2sh", "p2wpkh", "p2wsh", "p2sh-p2wpkh", ...
	Scripts     int    // number of EvalScript invocations
	LastOp      int    // last opcode decoded by the evaluation loop (-1: none); on failure, the failing one
	// oracle-side observations about signatures that satisfied the equation
	ValidNonDER bool // an ECDSA signature verified although it is not strict DER (lax parsing mattered)
	ValidHighS  bool // an ECDSA signature verified with S > n/2
	// when a signature opcode made the script fail: properties of the operands it was looking at
	FailSigEmpty   bool // the signature operand was empty
	FailUnparsable bool // the (non-empty) ECDSA signature or the public key does not parse at all
}

// noteSigFailure records what the failing signature opcode was looking at (evidence / violation keys).
func (v *vm) noteSigFailure(sig, pk []byte, ecdsa bool) {
	v.tr.FailSigEmpty = len(sig) == 0
	v.tr.FailUnparsable = false
	if ecdsa && len(sig) > 0 {
		r, s, ok := parseDERLax(sig[:len(sig)-1])
		if !ok || r.Sign() == 0 || s.Sign() == 0 {
			v.tr.FailUnparsable = true
		}
		if _, _, ok := parsePubKey(pk); !ok {
			v.tr.FailUnparsable = true
		}
	}
}

// Input bundles what VerifyScript's checker needs.
type Input struct {
	Tx    *Tx
	Idx   int
	Spent []TxOut // previous outputs of ALL inputs (needed by BIP341); Spent[Idx] is the one being spent
}

type vm struct {
	in    *Input
	flags Flags
	tr    *Trace
}

// Verify runs VerifyScript for input in.Idx against in.Spent[in.Idx]. It returns "" on success or
// the Core script error name.
func Verify(in *Input, flags Flags, tr *Trace) string {
	if tr == nil {
		tr = &Trace{}
	}
	tr.LastOp = -1
	v := &vm{in: in, flags: flags, tr: tr}
	txin := &in.Tx.In[in.Idx]
	return v.verifyScript(txin.ScriptSig, in.Spent[in.Idx].PkScript, txin.Witness)
}

func (v *vm) path(p string) {
	if v.tr.Path == "" {
		v.tr.Path = p
	} else {
		v.tr.Path += "-" + p
	}
}

func (v *vm) verifyScript(scriptSig, scriptPubKey []byte, witness [][]byte) string {
	flags := v.flags
	hadWitness := false
	switch {
	case flags&P2SH != 0 && IsPayToScriptHash(scriptPubKey):
		v.path("p2sh")
	case flags&WITNESS != 0 && func() bool { _, _, ok := IsWitnessProgram(scriptPubKey); return ok }():
		// named by verifyWitnessProgram if it is reached
		v.path("native")
	default:
		v.path("bare")
	}
	if flags&SIGPUSHONLY != 0 && !IsPushOnly(scriptSig) {
		return "SIG_PUSHONLY"
	}
	var stack [][]byte
	var ed execData
	if e := v.evalScript(&stack, scriptSig, sigBase, &ed); e != "" {
		return e
	}
	var stackCopy [][]byte
	if flags&P2SH != 0 {
		stackCopy = append([][]byte{}, stack...)
	}
	if e := v.evalScript(&stack, scriptPubKey, sigBase, &ed); e != "" {
		return e
	}
	if len(stack) == 0 || !CastToBool(stack[len(stack)-1]) {
		return "EVAL_FALSE"
	}
	if flags&WITNESS != 0 {
		if ver, prog, ok := IsWitnessProgram(scriptPubKey); ok {
			hadWitness = true
			if len(scriptSig) != 0 {
				return "WITNESS_MALLEATED"
			}
			if e := v.verifyWitnessProgram(witness, ver, prog, false); e != "" {
				return e
			}
			stack = stack[:1]
		}
	}
	if flags&P2SH != 0 && IsPayToScriptHash(scriptPubKey) {
		if !IsPushOnly(scriptSig) {
			return "SIG_PUSHONLY"
		}
		stack = stackCopy
		if len(stack) == 0 {
			// unreachable in Core (asserted); defensive
			return "EVAL_FALSE"
		}
		redeem := stack[len(stack)-1]
		stack = stack[:len(stack)-1]
		if e := v.evalScript(&stack, redeem, sigBase, &ed); e != "" {
			return e
		}
		if len(stack) == 0 || !CastToBool(stack[len(stack)-1]) {
			return "EVAL_FALSE"
		}
		if flags&WITNESS != 0 {
			if ver, prog, ok := IsWitnessProgram(redeem); ok {
				hadWitness = true
				if !bytes.Equal(scriptSig, PushData(redeem)) {
					return "WITNESS_MALLEATED_P2SH"
				}
				if e := v.verifyWitnessProgram(witness, ver, prog, true); e != "" {
					return e
				}
				stack = stack[:1]
			}
		}
	}
	if flags&CLEANSTACK != 0 {
		if len(stack) != 1 {
			return "CLEANSTACK"
		}
	}
	if flags&WITNESS != 0 {
		if !hadWitness && len(witness) != 0 {
			return "WITNESS_UNEXPECTED"
		}
	}
	return ""
}

func (v *vm) verifyWitnessProgram(witness [][]byte, ver int, prog []byte, isP2SH bool) string {
	flags := v.flags
	stack := witness
	var ed execData
	switch {
	case ver == 0:
		switch len(prog) {
		case 32:
			v.path("p2wsh")
			if len(stack) == 0 {
				return "WITNESS_PROGRAM_WITNESS_EMPTY"
			}
			script := stack[len(stack)-1]
			stack = stack[:len(stack)-1]
			h := sha256.Sum256(script)
			if !bytes.Equal(h[:], prog) {
				return "WITNESS_PROGRAM_MISMATCH"
			}
			return v.executeWitnessScript(stack, script, sigWitnessV0, &ed)
		case 20:
			v.path("p2wpkh")
			if len(stack) != 2 {
				return "WITNESS_PROGRAM_MISMATCH"
			}
			script := []byte{OP_DUP, OP_HASH160, 20}
			script = append(script, prog...)
			script = append(script, OP_EQUALVERIFY, OP_CHECKSIG)
			return v.executeWitnessScript(stack, script, sigWitnessV0, &ed)
		default:
			v.path("v0-wronglen")
			return "WITNESS_PROGRAM_WRONG_LENGTH"
		}
	case ver == 1 && len(prog) == 32 && !isP2SH:
		if flags&TAPROOT == 0 {
			v.path("p2tr-inactive")
			return ""
		}
		if len(stack) == 0 {
			v.path("p2tr")
			return "WITNESS_PROGRAM_WITNESS_EMPTY"
		}
		if len(stack) >= 2 && len(stack[len(stack)-1]) > 0 && stack[len(stack)-1][0] == AnnexTag {
			annex := stack[len(stack)-1]
			stack = stack[:len(stack)-1]
			ed.annexHash = sha(putVarBytes(nil, annex))
			ed.annexPresent = true
		}
		if len(stack) == 1 {
			v.path("p2tr-key")
			return v.checkSchnorrSignature(stack[0], prog, sigTaproot, &ed)
		}
		v.path("p2tr-script")
		control := stack[len(stack)-1]
		script := stack[len(stack)-2]
		stack = stack[:len(stack)-2]
		if len(control) < TaprootControlBase || len(control) > TaprootControlMaxSize ||
			(len(control)-TaprootControlBase)%TaprootControlNode != 0 {
			return "TAPROOT_WRONG_CONTROL_SIZE"
		}
		ed.tapleafHash = TapLeafHash(control[0]&TaprootLeafMask, script)
		if !VerifyTaprootCommitment(control, prog, ed.tapleafHash) {
			return "WITNESS_PROGRAM_MISMATCH"
		}
		if control[0]&TaprootLeafMask == TaprootLeafTapscript {
			ed.validationWeight = WitnessSerializeSize(witness) + ValidationWeightOffset
			return v.executeWitnessScript(stack, script, sigTapscript, &ed)
		}
		v.path("unknown-leaf")
		if flags&DISCOURAGE_UPGRADABLE_TAPROOT_VERSION != 0 {
			return "DISCOURAGE_UPGRADABLE_TAPROOT_VERSION"
		}
		return ""
	case !isP2SH && IsPayToAnchor(ver, prog):
		v.path("p2a")
		return ""
	default:
		v.path("future-witness")
		if flags&DISCOURAGE_UPGRADABLE_WITNESS_PROGRAM != 0 {
			return "DISCOURAGE_UPGRADABLE_WITNESS_PROGRAM"
		}
		return ""
	}
}

func (v *vm) executeWitnessScript(stackIn [][]byte, script []byte, sv sigVersion, ed *execData) string {
	stack := append([][]byte{}, stackIn...)
	if sv == sigTapscript {
		for pc := 0; pc < len(script); {
			op, _, next, ok := GetOp(script, pc)
			if !ok {
				return "BAD_OPCODE"
			}
			pc = next
			if IsOpSuccess(op) {
				v.path("opsuccess")
				if v.flags&DISCOURAGE_OP_SUCCESS != 0 {
					return "DISCOURAGE_OP_SUCCESS"
				}
				return ""
			}
		}
		if len(stack) > MaxStackSize {
			return "STACK_SIZE"
		}
	}
	for _, e := range stack {
		if len(e) > MaxScriptElementSize {
			return "PUSH_SIZE"
		}
	}
	if e := v.evalScript(&stack, script, sv, ed); e != "" {
		return e
	}
	if len(stack) != 1 {
		return "CLEANSTACK"
	}
	if !CastToBool(stack[0]) {
		return "EVAL_FALSE"
	}
	return ""
}

var (
	vTrue  = []byte{1}
	vFalse = []byte{}
)

func boolVal(b bool) []byte {
	if b {
		return vTrue
	}
	return vFalse
}

func (v *vm) evalScript(stackp *[][]byte, script []byte, sv sigVersion, ed *execData) string {
	flags := v.flags
	tr := v.tr
	tr.Scripts++
	if len(script) > tr.MaxScript {
		tr.MaxScript = len(script)
	}
	if (sv == sigBase || sv == sigWitnessV0) && len(script) > MaxScriptSize {
		return "SCRIPT_SIZE"
	}
	stack := *stackp
	defer func() { *stackp = stack }()
	var alt [][]byte
	var vfExec []bool
	allTrue := func() bool {
		for _, b := range vfExec {
			if !b {
				return false
			}
		}
		return true
	}
	top := func(i int) []byte { return stack[len(stack)+i] } // i negative
	pop := func() { stack = stack[:len(stack)-1] }
	push := func(b []byte) { stack = append(stack, b) }
	nOpCount := 0
	requireMinimal := flags&MINIMALDATA != 0
	codeHashBegin := 0
	ed.codesepPos = 0xffffffff
	num := func(b []byte) (int64, bool) { return NumDecode(b, requireMinimal, 4) }

	opcodePos := uint32(0)
	for pc := 0; pc < len(script); opcodePos++ {
		fExec := allTrue()
		op, data, next, ok := GetOp(script, pc)
		if !ok {
			return "BAD_OPCODE"
		}
		pc = next
		tr.Seen[op]++
		tr.LastOp = int(op)
		if len(data) > tr.MaxElem {
			tr.MaxElem = len(data)
		}
		if len(data) > MaxScriptElementSize {
			return "PUSH_SIZE"
		}
		if sv == sigBase || sv == sigWitnessV0 {
			if op > OP_16 {
				nOpCount++
				if nOpCount > tr.MaxOps {
					tr.MaxOps = nOpCount
				}
				if nOpCount > MaxOpsPerScript {
					return "OP_COUNT"
				}
			}
		}
		if IsDisabled(op) {
			return "DISABLED_OPCODE"
		}
		if op == OP_CODESEPARATOR && sv == sigBase && flags&CONST_SCRIPTCODE != 0 {
			return "OP_CODESEPARATOR"
		}
		if fExec || (op >= OP_IF && op <= OP_ENDIF) {
			tr.Executed[op]++
		} else {
			tr.Skipped[op]++
		}

		if fExec && op <= OP_PUSHDATA4 {
			if requireMinimal && !CheckMinimalPush(data, op) {
				return "MINIMALDATA"
			}
			push(data)
		} else if fExec || (op >= OP_IF && op <= OP_ENDIF) {
			switch {
			case op == OP_1NEGATE || (op >= OP_1 && op <= OP_16):
				push(NumSerialize(int64(op) - (OP_1 - 1)))

			case op == OP_NOP:

			case op == OP_CHECKLOCKTIMEVERIFY:
				if flags&CHECKLOCKTIMEVERIFY == 0 {
					break
				}
				if len(stack) < 1 {
					return "INVALID_STACK_OPERATION"
				}
				n, ok := NumDecode(top(-1), requireMinimal, 5)
				if !ok {
					return "SCRIPTNUM"
				}
				if n < 0 {
					return "NEGATIVE_LOCKTIME"
				}
				if !v.checkLockTime(n) {
					return "UNSATISFIED_LOCKTIME"
				}

			case op == OP_CHECKSEQUENCEVERIFY:
				if flags&CHECKSEQUENCEVERIFY == 0 {
					break
				}
				if len(stack) < 1 {
					return "INVALID_STACK_OPERATION"
				}
				n, ok := NumDecode(top(-1), requireMinimal, 5)
				if !ok {
					return "SCRIPTNUM"
				}
				if n < 0 {
					return "NEGATIVE_LOCKTIME"
				}
				if n&SequenceLockDisableFlag != 0 {
					break
				}
				if !v.checkSequence(n) {
					return "UNSATISFIED_LOCKTIME"
				}

			case op == OP_NOP1 || (op >= OP_NOP4 && op <= OP_NOP10):
				if flags&DISCOURAGE_UPGRADABLE_NOPS != 0 {
					return "DISCOURAGE_UPGRADABLE_NOPS"
				}

			case op == OP_IF || op == OP_NOTIF:
				fValue := false
				if fExec {
					if len(stack) < 1 {
						return "UNBALANCED_CONDITIONAL"
					}
					vch := top(-1)
					if sv == sigTapscript {
						if len(vch) > 1 || (len(vch) == 1 && vch[0] != 1) {
							return "TAPSCRIPT_MINIMALIF"
						}
					}
					if sv == sigWitnessV0 && flags&MINIMALIF != 0 {
						if len(vch) > 1 || (len(vch) == 1 && vch[0] != 1) {
							return "MINIMALIF"
						}
					}
					fValue = CastToBool(vch)
					if op == OP_NOTIF {
						fValue = !fValue
					}
					pop()
				}
				vfExec = append(vfExec, fValue)

			case op == OP_ELSE:
				if len(vfExec) == 0 {
					return "UNBALANCED_CONDITIONAL"
				}
				vfExec[len(vfExec)-1] = !vfExec[len(vfExec)-1]

			case op == OP_ENDIF:
				if len(vfExec) == 0 {
					return "UNBALANCED_CONDITIONAL"
				}
				vfExec = vfExec[:len(vfExec)-1]

			case op == OP_VERIFY:
				if len(stack) < 1 {
					return "INVALID_STACK_OPERATION"
				}
				if !CastToBool(top(-1)) {
					return "VERIFY"
				}
				pop()

			case op == OP_RETURN:
				return "OP_RETURN"

			case op == OP_TOALTSTACK:
				if len(stack) < 1 {
					return "INVALID_STACK_OPERATION"
				}
				alt = append(alt, top(-1))
				pop()

			case op == OP_FROMALTSTACK:
				if len(alt) < 1 {
					return "INVALID_ALTSTACK_OPERATION"
				}
				push(alt[len(alt)-1])
				alt = alt[:len(alt)-1]

			case op == OP_2DROP:
				if len(stack) < 2 {
					return "INVALID_STACK_OPERATION"
				}
				pop()
				pop()

			case op == OP_2DUP:
				if len(stack) < 2 {
					return "INVALID_STACK_OPERATION"
				}
				a, b := top(-2), top(-1)
				push(a)
				push(b)

			case op == OP_3DUP:
				if len(stack) < 3 {
					return "INVALID_STACK_OPERATION"
				}
				a, b, c := top(-3), top(-2), top(-1)
				push(a)
				push(b)
				push(c)

			case op == OP_2OVER:
				if len(stack) < 4 {
					return "INVALID_STACK_OPERATION"
				}
				a, b := top(-4), top(-3)
				push(a)
				push(b)

			case op == OP_2ROT:
				if len(stack) < 6 {
					return "INVALID_STACK_OPERATION"
				}
				a, b := top(-6), top(-5)
				n := len(stack)
				stack = append(append([][]byte{}, stack[:n-6]...), stack[n-4:]...)
				push(a)
				push(b)

			case op == OP_2SWAP:
				if len(stack) < 4 {
					return "INVALID_STACK_OPERATION"
				}
				n := len(stack)
				ns := append([][]byte{}, stack...)
				ns[n-4], ns[n-2] = ns[n-2], ns[n-4]
				ns[n-3], ns[n-1] = ns[n-1], ns[n-3]
				stack = ns

			case op == OP_IFDUP:
				if len(stack) < 1 {
					return "INVALID_STACK_OPERATION"
				}
				if CastToBool(top(-1)) {
					push(top(-1))
				}

			case op == OP_DEPTH:
				push(NumSerialize(int64(len(stack))))

			case op == OP_DROP:
				if len(stack) < 1 {
					return "INVALID_STACK_OPERATION"
				}
				pop()

			case op == OP_DUP:
				if len(stack) < 1 {
					return "INVALID_STACK_OPERATION"
				}
				push(top(-1))

			case op == OP_NIP:
				if len(stack) < 2 {
					return "INVALID_STACK_OPERATION"
				}
				t := top(-1)
				pop()
				pop()
				push(t)

			case op == OP_OVER:
				if len(stack) < 2 {
					return "INVALID_STACK_OPERATION"
				}
				push(top(-2))

			case op == OP_PICK || op == OP_ROLL:
				if len(stack) < 2 {
					return "INVALID_STACK_OPERATION"
				}
				n64, ok := num(top(-1))
				if !ok {
					return "SCRIPTNUM"
				}
				n := clampInt(n64)
				pop()
				if n < 0 || n >= len(stack) {
					return "INVALID_STACK_OPERATION"
				}
				val := top(-n - 1)
				if op == OP_ROLL {
					i := len(stack) - n - 1
					stack = append(append([][]byte{}, stack[:i]...), stack[i+1:]...)
				}
				push(val)

			case op == OP_ROT:
				if len(stack) < 3 {
					return "INVALID_STACK_OPERATION"
				}
				a, b, c := top(-3), top(-2), top(-1)
				pop()
				pop()
				pop()
				push(b)
				push(c)
				push(a)

			case op == OP_SWAP:
				if len(stack) < 2 {
					return "INVALID_STACK_OPERATION"
				}
				a, b := top(-2), top(-1)
				pop()
				pop()
				push(b)
				push(a)

			case op == OP_TUCK:
				if len(stack) < 2 {
					return "INVALID_STACK_OPERATION"
				}
				a, b := top(-2), top(-1)
				pop()
				pop()
				push(b)
				push(a)
				push(b)

			case op == OP_SIZE:
				if len(stack) < 1 {
					return "INVALID_STACK_OPERATION"
				}
				push(NumSerialize(int64(len(top(-1)))))

			case op == OP_EQUAL || op == OP_EQUALVERIFY:
				if len(stack) < 2 {
					return "INVALID_STACK_OPERATION"
				}
				eq := bytes.Equal(top(-2), top(-1))
				pop()
				pop()
				push(boolVal(eq))
				if op == OP_EQUALVERIFY {
					if !eq {
						return "EQUALVERIFY"
					}
					pop()
				}

			case op == OP_1ADD || op == OP_1SUB || op == OP_NEGATE || op == OP_ABS || op == OP_NOT || op == OP_0NOTEQUAL:
				if len(stack) < 1 {
					return "INVALID_STACK_OPERATION"
				}
				n, ok := num(top(-1))
				if !ok {
					return "SCRIPTNUM"
				}
				switch op {
				case OP_1ADD:
					n++
				case OP_1SUB:
					n--
				case OP_NEGATE:
					n = -n
				case OP_ABS:
					if n < 0 {
						n = -n
					}
				case OP_NOT:
					if n == 0 {
						n = 1
					} else {
						n = 0
					}
				case OP_0NOTEQUAL:
					if n != 0 {
						n = 1
					}
				}
				pop()
				push(NumSerialize(n))

			case op == OP_ADD || op == OP_SUB || (op >= OP_BOOLAND && op <= OP_MAX):
				if len(stack) < 2 {
					return "INVALID_STACK_OPERATION"
				}
				a, ok1 := num(top(-2))
				if !ok1 {
					return "SCRIPTNUM"
				}
				b, ok2 := num(top(-1))
				if !ok2 {
					return "SCRIPTNUM"
				}
				b2i := func(x bool) int64 {
					if x {
						return 1
					}
					return 0
				}
				var r int64
				switch op {
				case OP_ADD:
					r = a + b
				case OP_SUB:
					r = a - b
				case OP_BOOLAND:
					r = b2i(a != 0 && b != 0)
				case OP_BOOLOR:
					r = b2i(a != 0 || b != 0)
				case OP_NUMEQUAL, OP_NUMEQUALVERIFY:
					r = b2i(a == b)
				case OP_NUMNOTEQUAL:
					r = b2i(a != b)
				case OP_LESSTHAN:
					r = b2i(a < b)
				case OP_GREATERTHAN:
					r = b2i(a > b)
				case OP_LESSTHANOREQUAL:
					r = b2i(a <= b)
				case OP_GREATERTHANOREQUAL:
					r = b2i(a >= b)
				case OP_MIN:
					r = min(a, b)
				case OP_MAX:
					r = max(a, b)
				}
				pop()
				pop()
				push(NumSerialize(r))
				if op == OP_NUMEQUALVERIFY {
					if !CastToBool(top(-1)) {
						return "NUMEQUALVERIFY"
					}
					pop()
				}

			case op == OP_WITHIN:
				if len(stack) < 3 {
					return "INVALID_STACK_OPERATION"
				}
				x, ok1 := num(top(-3))
				if !ok1 {
					return "SCRIPTNUM"
				}
				lo, ok2 := num(top(-2))
				if !ok2 {
					return "SCRIPTNUM"
				}
				hi, ok3 := num(top(-1))
				if !ok3 {
					return "SCRIPTNUM"
				}
				pop()
				pop()
				pop()
				push(boolVal(lo <= x && x < hi))

			case op >= OP_RIPEMD160 && op <= OP_HASH256:
				if len(stack) < 1 {
					return "INVALID_STACK_OPERATION"
				}
				in := top(-1)
				var out []byte
				switch op {
				case OP_RIPEMD160:
					h := ripemd160.New()
					h.Write(in)
					out = h.Sum(nil)
				case OP_SHA1:
					h := sha1.Sum(in)
					out = h[:]
				case OP_SHA256:
					h := sha256.Sum256(in)
					out = h[:]
				case OP_HASH160:
					out = Hash160(in)
				case OP_HASH256:
					h := dsha(in)
					out = h[:]
				}
				pop()
				push(out)

			case op == OP_CODESEPARATOR:
				codeHashBegin = pc
				ed.codesepPos = opcodePos

			case op == OP_CHECKSIG || op == OP_CHECKSIGVERIFY:
				if len(stack) < 2 {
					return "INVALID_STACK_OPERATION"
				}
				sig, pk := top(-2), top(-1)
				ok, e := v.evalChecksig(sig, pk, script[codeHashBegin:], ed, sv)
				if e != "" {
					v.noteSigFailure(sig, pk, sv != sigTapscript)
					return e
				}
				pop()
				pop()
				push(boolVal(ok))
				if op == OP_CHECKSIGVERIFY {
					if !ok {
						return "CHECKSIGVERIFY"
					}
					pop()
				}

			case op == OP_CHECKSIGADD:
				if sv == sigBase || sv == sigWitnessV0 {
					return "BAD_OPCODE"
				}
				if len(stack) < 3 {
					return "INVALID_STACK_OPERATION"
				}
				sig := top(-3)
				n, ok := num(top(-2))
				if !ok {
					return "SCRIPTNUM"
				}
				pk := top(-1)
				success, e := v.evalChecksig(sig, pk, script[codeHashBegin:], ed, sv)
				if e != "" {
					v.noteSigFailure(sig, pk, false)
					return e
				}
				pop()
				pop()
				pop()
				if success {
					n++
				}
				push(NumSerialize(n))

			case op == OP_CHECKMULTISIG || op == OP_CHECKMULTISIGVERIFY:
				if sv == sigTapscript {
					return "TAPSCRIPT_CHECKMULTISIG"
				}
				i := 1
				if len(stack) < i {
					return "INVALID_STACK_OPERATION"
				}
				nk64, ok := num(top(-i))
				if !ok {
					return "SCRIPTNUM"
				}
				nKeys := clampInt(nk64)
				if nKeys < 0 || nKeys > MaxPubKeysPerMulti {
					return "PUBKEY_COUNT"
				}
				nOpCount += nKeys
				if nOpCount > tr.MaxOps {
					tr.MaxOps = nOpCount
				}
				if nOpCount > MaxOpsPerScript {
					return "OP_COUNT"
				}
				i++
				ikey := i
				ikey2 := nKeys + 2
				i += nKeys
				if len(stack) < i {
					return "INVALID_STACK_OPERATION"
				}
				ns64, ok := num(top(-i))
				if !ok {
					return "SCRIPTNUM"
				}
				nSigs := clampInt(ns64)
				if nSigs < 0 || nSigs > nKeys {
					return "SIG_COUNT"
				}
				i++
				isig := i
				i += nSigs
				if len(stack) < i {
					return "INVALID_STACK_OPERATION"
				}
				scriptCode := script[codeHashBegin:]
				for k := 0; k < nSigs; k++ {
					sig := top(-isig - k)
					if sv == sigBase {
						var found int
						scriptCode, found = FindAndDelete(scriptCode, PushData(sig))
						if found > 0 && flags&CONST_SCRIPTCODE != 0 {
							v.noteSigFailure(sig, top(-ikey), true)
							return "SIG_FINDANDDELETE"
						}
					}
				}
				success := true
				for success && nSigs > 0 {
					sig := top(-isig)
					pk := top(-ikey)
					if e := checkSignatureEncoding(sig, flags); e != "" {
						v.noteSigFailure(sig, pk, true)
						return e
					}
					if e := checkPubKeyEncoding(pk, flags, sv); e != "" {
						v.noteSigFailure(sig, pk, true)
						return e
					}
					if v.checkECDSASignature(sig, pk, scriptCode, sv) {
						isig++
						nSigs--
					}
					ikey++
					nKeys--
					if nSigs > nKeys {
						success = false
					}
				}
				for ; i > 1; i-- {
					if !success && flags&NULLFAIL != 0 && ikey2 == 0 && len(top(-1)) != 0 {
						return "NULLFAIL"
					}
					if ikey2 > 0 {
						ikey2--
					}
					pop()
				}
				if len(stack) < 1 {
					return "INVALID_STACK_OPERATION"
				}
				if flags&NULLDUMMY != 0 && len(top(-1)) != 0 {
					return "SIG_NULLDUMMY"
				}
				pop()
				push(boolVal(success))
				if op == OP_CHECKMULTISIGVERIFY {
					if !success {
						return "CHECKMULTISIGVERIFY"
					}
					pop()
				}

			default:
				return "BAD_OPCODE"
			}
		}
		if d := len(stack) + len(alt); d > tr.MaxStack {
			tr.MaxStack = d
		}
		if len(stack)+len(alt) > MaxStackSize {
			return "STACK_SIZE"
		}
	}
	if len(vfExec) != 0 {
		return "UNBALANCED_CONDITIONAL"
	}
	tr.LastOp = -1 // this script ran to completion; a later failure is not tied to an opcode
	return ""
}

// Hash160 is RIPEMD160(SHA256(x)).
func Hash160(b []byte) []byte {
	s := sha256.Sum256(b)
	h := ripemd160.New()
	h.Write(s[:])
	return h.Sum(nil)
}

func (v *vm) evalChecksig(sig, pk, scriptCodeIn []byte, ed *execData, sv sigVersion) (bool, string) {
	flags := v.flags
	switch sv {
	case sigBase, sigWitnessV0:
		scriptCode := scriptCodeIn
		if sv == sigBase {
			var found int
			scriptCode, found = FindAndDelete(scriptCode, PushData(sig))
			if found > 0 && flags&CONST_SCRIPTCODE != 0 {
				return false, "SIG_FINDANDDELETE"
			}
		}
		if e := checkSignatureEncoding(sig, flags); e != "" {
			return false, e
		}
		if e := checkPubKeyEncoding(pk, flags, sv); e != "" {
			return false, e
		}
		ok := v.checkECDSASignature(sig, pk, scriptCode, sv)
		if !ok && flags&NULLFAIL != 0 && len(sig) != 0 {
			return false, "NULLFAIL"
		}
		return ok, ""
	case sigTapscript:
		success := len(sig) != 0
		if success {
			ed.validationWeight -= ValidationWeightPerSigop
			if ed.validationWeight < 0 {
				return false, "TAPSCRIPT_VALIDATION_WEIGHT"
			}
		}
		switch {
		case len(pk) == 0:
			return false, "TAPSCRIPT_EMPTY_PUBKEY"
		case len(pk) == 32:
			if success {
				if e := v.checkSchnorrSignature(sig, pk, sv, ed); e != "" {
					return false, e
				}
			}
		default:
			if flags&DISCOURAGE_UPGRADABLE_PUBKEYTYPE != 0 {
				return false, "DISCOURAGE_UPGRADABLE_PUBKEYTYPE"
			}
		}
		return success, ""
	}
	return false, "UNKNOWN_ERROR"
}

func (v *vm) checkECDSASignature(sigIn, pk, scriptCode []byte, sv sigVersion) bool {
	// CPubKey validity by header/length only happens before anything else
	want := 0
	if len(pk) > 0 {
		switch pk[0] {
		case 2, 3:
			want = 33
		case 4, 6, 7:
			want = 65
		}
	}
	if want == 0 || len(pk) != want {
		return false
	}
	if len(sigIn) == 0 {
		return false
	}
	hashType := uint32(sigIn[len(sigIn)-1])
	der := sigIn[:len(sigIn)-1]
	var h [32]byte
	if sv == sigWitnessV0 {
		h = witnessV0SigHash(scriptCode, v.in.Tx, v.in.Idx, hashType, v.in.Spent[v.in.Idx].Value)
	} else {
		h = legacySigHash(scriptCode, v.in.Tx, v.in.Idx, hashType)
	}
	v.tr.SigChecks++
	ok := verifyECDSA(der, pk, h)
	if ok {
		v.tr.SigChecksOK++
		if !IsValidSignatureEncoding(sigIn) {
			v.tr.ValidNonDER = true
		} else if !isLowS(der) {
			v.tr.ValidHighS = true
		}
	}
	return ok
}

func (v *vm) checkSchnorrSignature(sig, pk []byte, sv sigVersion, ed *execData) string {
	if len(sig) != 64 && len(sig) != 65 {
		return "SCHNORR_SIG_SIZE"
	}
	hashType := byte(SigHashDefault)
	if len(sig) == 65 {
		hashType = sig[64]
		sig = sig[:64]
		if hashType == SigHashDefault {
			return "SCHNORR_SIG_HASHTYPE"
		}
	}
	h, ok := taprootSigHash(v.in.Tx, v.in.Idx, hashType, sv == sigTapscript, ed, v.in.Spent)
	if !ok {
		return "SCHNORR_SIG_HASHTYPE"
	}
	v.tr.SigChecks++
	if !verifySchnorr(sig, pk, h) {
		return "SCHNORR_SIG"
	}
	v.tr.SigChecksOK++
	return ""
}

func (v *vm) checkLockTime(n int64) bool {
	tx := v.in.Tx
	lt := int64(tx.LockTime)
	if !((lt < LockTimeThreshold && n < LockTimeThreshold) || (lt >= LockTimeThreshold && n >= LockTimeThreshold)) {
		return false
	}
	if n > lt {
		return false
	}
	if tx.In[v.in.Idx].Sequence == SequenceFinal {
		return false
	}
	return true
}

func (v *vm) checkSequence(n int64) bool {
	tx := v.in.Tx
	txSeq := int64(tx.In[v.in.Idx].Sequence)
	if uint32(tx.Version) < 2 {
		return false
	}
	if txSeq&SequenceLockDisableFlag != 0 {
		return false
	}
	const mask = SequenceLockTypeFlag | SequenceLockMask
	a := txSeq & mask
	b := n & mask
	if !((a < SequenceLockTypeFlag && b < SequenceLockTypeFlag) || (a >= SequenceLockTypeFlag && b >= SequenceLockTypeFlag)) {
		return false
	}
	return b <= a
}
