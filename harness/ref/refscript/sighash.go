package refscript

import (
	"crypto/sha256"
	"encoding/binary"
)

// TxIn, TxOut and Tx are a plain-data transaction, independent of btcd's wire types.
type TxIn struct {
	PrevHash  [32]byte
	PrevIndex uint32
	ScriptSig []byte
	Sequence  uint32
	Witness   [][]byte
}

type TxOut struct {
	Value    int64
	PkScript []byte
}

type Tx struct {
	Version  int32
	In       []TxIn
	Out      []TxOut
	LockTime uint32
}

// Sighash type constants.
const (
	SigHashDefault      = 0
	SigHashAll          = 1
	SigHashNone         = 2
	SigHashSingle       = 3
	SigHashAnyOneCanPay = 0x80
)

func sha(b []byte) [32]byte { return sha256.Sum256(b) }

func dsha(b []byte) [32]byte {
	a := sha256.Sum256(b)
	return sha256.Sum256(a[:])
}

func putCompact(b []byte, n uint64) []byte {
	switch {
	case n < 0xfd:
		return append(b, byte(n))
	case n <= 0xffff:
		return append(b, 0xfd, byte(n), byte(n>>8))
	case n <= 0xffffffff:
		return append(b, 0xfe, byte(n), byte(n>>8), byte(n>>16), byte(n>>24))
	}
	b = append(b, 0xff)
	return binary.LittleEndian.AppendUint64(b, n)
}

func compactSize(n uint64) int {
	switch {
	case n < 0xfd:
		return 1
	case n <= 0xffff:
		return 3
	case n <= 0xffffffff:
		return 5
	}
	return 9
}

func putU32(b []byte, v uint32) []byte { return binary.LittleEndian.AppendUint32(b, v) }
func putU64(b []byte, v uint64) []byte { return binary.LittleEndian.AppendUint64(b, v) }

func putVarBytes(b, v []byte) []byte {
	b = putCompact(b, uint64(len(v)))
	return append(b, v...)
}

func putOutpoint(b []byte, in *TxIn) []byte {
	b = append(b, in.PrevHash[:]...)
	return putU32(b, in.PrevIndex)
}

func putTxOut(b []byte, o *TxOut) []byte {
	b = putU64(b, uint64(o.Value))
	return putVarBytes(b, o.PkScript)
}

// legacySigHash is SignatureHash for SigVersion::BASE.
func legacySigHash(scriptCode []byte, tx *Tx, idx int, hashType uint32) [32]byte {
	base := hashType & 0x1f
	acp := hashType&SigHashAnyOneCanPay != 0
	single := base == SigHashSingle
	none := base == SigHashNone
	if single && idx >= len(tx.Out) {
		var one [32]byte
		one[0] = 1
		return one
	}
	// script code with OP_CODESEPARATORs removed
	var code []byte
	{
		begin := 0
		pc := 0
		for pc < len(scriptCode) {
			op, _, next, ok := GetOp(scriptCode, pc)
			if !ok {
				break
			}
			pc = next
			if op == OP_CODESEPARATOR {
				code = append(code, scriptCode[begin:pc-1]...)
				begin = pc
			}
		}
		code = append(code, scriptCode[begin:]...)
	}
	var b []byte
	b = putU32(b, uint32(tx.Version))
	if acp {
		b = putCompact(b, 1)
		in := &tx.In[idx]
		b = putOutpoint(b, in)
		b = putVarBytes(b, code)
		b = putU32(b, in.Sequence)
	} else {
		b = putCompact(b, uint64(len(tx.In)))
		for i := range tx.In {
			in := &tx.In[i]
			b = putOutpoint(b, in)
			if i == idx {
				b = putVarBytes(b, code)
				b = putU32(b, in.Sequence)
			} else {
				b = putCompact(b, 0)
				if single || none {
					b = putU32(b, 0)
				} else {
					b = putU32(b, in.Sequence)
				}
			}
		}
	}
	switch {
	case none:
		b = putCompact(b, 0)
	case single:
		b = putCompact(b, uint64(idx+1))
		for i := 0; i <= idx; i++ {
			if i == idx {
				b = putTxOut(b, &tx.Out[i])
			} else {
				b = putU64(b, ^uint64(0))
				b = putCompact(b, 0)
			}
		}
	default:
		b = putCompact(b, uint64(len(tx.Out)))
		for i := range tx.Out {
			b = putTxOut(b, &tx.Out[i])
		}
	}
	b = putU32(b, tx.LockTime)
	b = putU32(b, hashType)
	return dsha(b)
}

// witnessV0SigHash is BIP143.
func witnessV0SigHash(scriptCode []byte, tx *Tx, idx int, hashType uint32, amount int64) [32]byte {
	base := hashType & 0x1f
	acp := hashType&SigHashAnyOneCanPay != 0
	var hashPrevouts, hashSequence, hashOutputs [32]byte
	if !acp {
		var b []byte
		for i := range tx.In {
			b = putOutpoint(b, &tx.In[i])
		}
		hashPrevouts = dsha(b)
	}
	if !acp && base != SigHashSingle && base != SigHashNone {
		var b []byte
		for i := range tx.In {
			b = putU32(b, tx.In[i].Sequence)
		}
		hashSequence = dsha(b)
	}
	if base != SigHashSingle && base != SigHashNone {
		var b []byte
		for i := range tx.Out {
			b = putTxOut(b, &tx.Out[i])
		}
		hashOutputs = dsha(b)
	} else if base == SigHashSingle && idx < len(tx.Out) {
		hashOutputs = dsha(putTxOut(nil, &tx.Out[idx]))
	}
	var b []byte
	b = putU32(b, uint32(tx.Version))
	b = append(b, hashPrevouts[:]...)
	b = append(b, hashSequence[:]...)
	b = putOutpoint(b, &tx.In[idx])
	b = putVarBytes(b, scriptCode)
	b = putU64(b, uint64(amount))
	b = putU32(b, tx.In[idx].Sequence)
	b = append(b, hashOutputs[:]...)
	b = putU32(b, tx.LockTime)
	b = putU32(b, hashType)
	return dsha(b)
}

// TaggedHash is BIP340's tagged hash.
func TaggedHash(tag string, parts ...[]byte) [32]byte {
	t := sha256.Sum256([]byte(tag))
	h := sha256.New()
	h.Write(t[:])
	h.Write(t[:])
	for _, p := range parts {
		h.Write(p)
	}
	var out [32]byte
	copy(out[:], h.Sum(nil))
	return out
}

// execData is Core's ScriptExecutionData.
type execData struct {
	tapleafHash      [32]byte
	codesepPos       uint32
	annexPresent     bool
	annexHash        [32]byte // SHA256(compact_size(len) || annex)
	validationWeight int64
}

// taprootSigHash is BIP341's SigMsg hash; ok=false for an invalid hash type or a
// SIGHASH_SINGLE without a matching output. spent must hold every input's previous output.
func taprootSigHash(tx *Tx, idx int, hashType byte, tapscript bool, ed *execData, spent []TxOut) ([32]byte, bool) {
	var zero [32]byte
	if !(hashType <= 0x03 || (hashType >= 0x81 && hashType <= 0x83)) {
		return zero, false
	}
	if len(spent) != len(tx.In) {
		return zero, false
	}
	outType := hashType & 3
	if hashType == SigHashDefault {
		outType = SigHashAll
	}
	acp := hashType&SigHashAnyOneCanPay != 0
	b := []byte{0} // epoch
	b = append(b, hashType)
	b = putU32(b, uint32(tx.Version))
	b = putU32(b, tx.LockTime)
	if !acp {
		var p, a, s, q []byte
		for i := range tx.In {
			p = putOutpoint(p, &tx.In[i])
			a = putU64(a, uint64(spent[i].Value))
			s = putVarBytes(s, spent[i].PkScript)
			q = putU32(q, tx.In[i].Sequence)
		}
		for _, x := range [][]byte{p, a, s, q} {
			h := sha(x)
			b = append(b, h[:]...)
		}
	}
	if outType == SigHashAll {
		var o []byte
		for i := range tx.Out {
			o = putTxOut(o, &tx.Out[i])
		}
		h := sha(o)
		b = append(b, h[:]...)
	}
	spendType := byte(0)
	if tapscript {
		spendType = 2
	}
	if ed.annexPresent {
		spendType |= 1
	}
	b = append(b, spendType)
	if acp {
		b = putOutpoint(b, &tx.In[idx])
		b = putTxOut(b, &spent[idx])
		b = putU32(b, tx.In[idx].Sequence)
	} else {
		b = putU32(b, uint32(idx))
	}
	if ed.annexPresent {
		b = append(b, ed.annexHash[:]...)
	}
	if outType == SigHashSingle {
		if idx >= len(tx.Out) {
			return zero, false
		}
		h := sha(putTxOut(nil, &tx.Out[idx]))
		b = append(b, h[:]...)
	}
	if tapscript {
		b = append(b, ed.tapleafHash[:]...)
		b = append(b, 0) // key version
		b = putU32(b, ed.codesepPos)
	}
	return TaggedHash("TapSighash", b), true
}

// LegacySigHash, WitnessV0SigHash and TaprootSigHash expose the digests to the worker's
// signers (so that generated spends are signed through the reference's own digest code).
func LegacySigHash(scriptCode []byte, tx *Tx, idx int, hashType uint32) [32]byte {
	return legacySigHash(scriptCode, tx, idx, hashType)
}

func WitnessV0SigHash(scriptCode []byte, tx *Tx, idx int, hashType uint32, amount int64) [32]byte {
	return witnessV0SigHash(scriptCode, tx, idx, hashType, amount)
}

// TaprootSigHash: leafHash == nil means key path; annex == nil means no annex.
func TaprootSigHash(tx *Tx, idx int, hashType byte, spent []TxOut, annex []byte, leafHash *[32]byte, codesepPos uint32) ([32]byte, bool) {
	ed := &execData{codesepPos: codesepPos}
	if annex != nil {
		ed.annexPresent = true
		ed.annexHash = sha(putVarBytes(nil, annex))
	}
	if leafHash != nil {
		ed.tapleafHash = *leafHash
	}
	return taprootSigHash(tx, idx, hashType, leafHash != nil, ed, spent)
}

// WitnessSerializeSize is GetSerializeSize(witness.stack).
func WitnessSerializeSize(w [][]byte) int64 {
	n := int64(compactSize(uint64(len(w))))
	for _, e := range w {
		n += int64(compactSize(uint64(len(e)))) + int64(len(e))
	}
	return n
}
