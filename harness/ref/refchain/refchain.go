// Package refchain is the definitional block-tree model used as the oracle of the integrated checks:
// every block knows its parent; the UTXO set, spend journal, median time past, cumulative work and
// total transaction count of a block are defined by folding from genesis along parent links; the
// active chain is defined declaratively (most cumulative work among fully delivered, fully valid
// chains). Nothing here calls into btcd's blockchain package; wire.MsgBlock is used as a plain
// container and chainhash only for double-SHA256.
package refchain

import (
	"math/big"
	"sort"

	"github.com/btcsuite/btcd/chainhash/v2"
	"github.com/btcsuite/btcd/wire/v2"
)

// Coin is an unspent output.
type Coin struct {
	Amount   int64
	PkScript []byte
	Height   int32
	Coinbase bool
}

// Validity is the generator's label of a block (own validity, independent of ancestors).
type Validity int

const (
	Valid          Validity = iota
	InvalidEarly            // violates a rule checked before storage: ProcessBlock must reject it, it never enters the index
	InvalidConnect          // violates a rule only checked when the block would join the active chain
)

// Block is a node of the model tree.
type Block struct {
	Name     string
	Hash     chainhash.Hash
	Parent   *Block
	Children []*Block
	Height   int32
	Msg      *wire.MsgBlock
	OwnWork  *big.Int
	CumWork  *big.Int
	Label    Validity
	Rule     string // for invalid blocks: the rule broken
	TotalTx  uint64 // cumulative number of transactions from genesis

	utxo map[wire.OutPoint]Coin
	Ext  any // generator-private data
}

// Tree is the set of all blocks the generator has produced.
type Tree struct {
	Genesis *Block
	ByHash  map[chainhash.Hash]*Block
	All     []*Block
}

// CompactToTarget decodes the compact form (definition: mantissa * 256^(exponent-3), sign bit 0x00800000).
func CompactToTarget(bits uint32) (target *big.Int, negative bool) {
	mant := int64(bits & 0x007fffff)
	exp := uint(bits >> 24)
	t := big.NewInt(mant)
	if exp <= 3 {
		t.Rsh(t, 8*(3-exp))
	} else {
		t.Lsh(t, 8*(exp-3))
	}
	return t, bits&0x00800000 != 0 && mant != 0
}

// Work is floor(2^256 / (target+1)); zero for non-positive targets.
func Work(bits uint32) *big.Int {
	t, neg := CompactToTarget(bits)
	if neg || t.Sign() <= 0 {
		return big.NewInt(0)
	}
	d := new(big.Int).Add(t, big.NewInt(1))
	return new(big.Int).Div(new(big.Int).Lsh(big.NewInt(1), 256), d)
}

// NewTree starts a tree at the given genesis block.
func NewTree(genesis *wire.MsgBlock) *Tree {
	g := &Block{Name: "G", Hash: genesis.BlockHash(), Msg: genesis, Height: 0, Label: Valid}
	g.OwnWork = Work(genesis.Header.Bits)
	g.CumWork = new(big.Int).Set(g.OwnWork)
	g.TotalTx = uint64(len(genesis.Transactions))
	return &Tree{Genesis: g, ByHash: map[chainhash.Hash]*Block{g.Hash: g}, All: []*Block{g}}
}

// Add inserts a block under parent.
func (t *Tree) Add(name string, msg *wire.MsgBlock, parent *Block, label Validity, rule string) *Block {
	b := &Block{Name: name, Hash: msg.BlockHash(), Parent: parent, Height: parent.Height + 1, Msg: msg, Label: label, Rule: rule}
	b.OwnWork = Work(msg.Header.Bits)
	b.CumWork = new(big.Int).Add(parent.CumWork, b.OwnWork)
	b.TotalTx = parent.TotalTx + uint64(len(msg.Transactions))
	parent.Children = append(parent.Children, b)
	t.ByHash[b.Hash] = b
	t.All = append(t.All, b)
	return b
}

// Detached builds a block node under parent without inserting it into the tree (probe blocks).
func (t *Tree) Detached(name string, msg *wire.MsgBlock, parent *Block, label Validity, rule string) *Block {
	b := &Block{Name: name, Hash: msg.BlockHash(), Parent: parent, Height: parent.Height + 1, Msg: msg, Label: label, Rule: rule}
	b.OwnWork = Work(msg.Header.Bits)
	b.CumWork = new(big.Int).Add(parent.CumWork, b.OwnWork)
	b.TotalTx = parent.TotalTx + uint64(len(msg.Transactions))
	return b
}

// ChainValid reports whether the block and all its ancestors are labelled valid.
func (b *Block) ChainValid() bool {
	for n := b; n != nil; n = n.Parent {
		if n.Label != Valid {
			return false
		}
	}
	return true
}

// Ancestor returns the ancestor at the given height (nil if out of range), by walking parent links.
func (b *Block) Ancestor(h int32) *Block {
	if h < 0 || h > b.Height {
		return nil
	}
	n := b
	for n != nil && n.Height > h {
		n = n.Parent
	}
	return n
}

// IsAncestorOf reports whether b is an ancestor of (or equal to) d.
func (b *Block) IsAncestorOf(d *Block) bool { return d.Ancestor(b.Height) == b }

// Fork returns the last common ancestor of a and b.
func Fork(a, b *Block) *Block {
	for a != nil && b != nil && a != b {
		if a.Height > b.Height {
			a = a.Parent
		} else if b.Height > a.Height {
			b = b.Parent
		} else {
			a, b = a.Parent, b.Parent
		}
	}
	if a == b {
		return a
	}
	return nil
}

// MTP is the median of the timestamps of the block and its (up to) 10 predecessors.
func (b *Block) MTP() int64 {
	var ts []int64
	for n, i := b, 0; n != nil && i < 11; n, i = n.Parent, i+1 {
		ts = append(ts, n.Msg.Header.Timestamp.Unix())
	}
	sort.Slice(ts, func(i, j int) bool { return ts[i] < ts[j] })
	return ts[len(ts)/2]
}

// IsCoinbaseTx: exactly one input whose previous outpoint is null.
func IsCoinbaseTx(tx *wire.MsgTx) bool {
	if len(tx.TxIn) != 1 {
		return false
	}
	p := tx.TxIn[0].PreviousOutPoint
	return p.Index == 0xffffffff && p.Hash == chainhash.Hash{}
}

// Unspendable outputs never enter the set: OP_RETURN-first, larger than 10 000 bytes, or not parseable as a
// sequence of opcodes (a push that runs past the end of the script): none of them can ever be spent.
func Unspendable(pk []byte) bool {
	return (len(pk) > 0 && pk[0] == 0x6a) || len(pk) > 10000 || !Parses(pk)
}

// Parses reports whether the script is a well-formed sequence of opcodes: every push opcode is followed by the
// length bytes and the data it announces.
func Parses(pk []byte) bool {
	for i := 0; i < len(pk); {
		op := pk[i]
		i++
		var n, lenBytes int
		switch {
		case op >= 0x01 && op <= 0x4b:
			n = int(op)
		case op == 0x4c:
			lenBytes = 1
		case op == 0x4d:
			lenBytes = 2
		case op == 0x4e:
			lenBytes = 4
		default:
			continue
		}
		if lenBytes > 0 {
			if i+lenBytes > len(pk) {
				return false
			}
			for j := lenBytes - 1; j >= 0; j-- {
				n = n<<8 | int(pk[i+j])
			}
			i += lenBytes
			if n < 0 {
				return false
			}
		}
		if n > len(pk)-i {
			return false
		}
		i += n
	}
	return true
}

// Utxo is the unspent-output set after this block, by definition the parent's set with this block's
// transactions applied in order. Only meaningful for blocks whose whole ancestry is valid (it panics
// on a missing input).
func (b *Block) Utxo() map[wire.OutPoint]Coin {
	if b.utxo != nil {
		return b.utxo
	}
	// iterative to avoid deep recursion on long chains
	var path []*Block
	for n := b; n != nil && n.utxo == nil; n = n.Parent {
		path = append(path, n)
	}
	for i := len(path) - 1; i >= 0; i-- {
		n := path[i]
		set := map[wire.OutPoint]Coin{}
		if n.Parent != nil {
			for k, v := range n.Parent.utxo {
				set[k] = v
			}
		}
		applyBlock(set, n)
		n.utxo = set
	}
	return b.utxo
}

// DropUtxoCache forgets memoized sets (memory control on long chains).
func (b *Block) DropUtxoCache() { b.utxo = nil }

func applyBlock(set map[wire.OutPoint]Coin, n *Block) {
	if n.Parent == nil {
		return // the genesis coinbase is unspendable by rule: it never enters the set
	}
	for _, tx := range n.Msg.Transactions {
		cb := IsCoinbaseTx(tx)
		if !cb {
			for _, in := range tx.TxIn {
				if _, ok := set[in.PreviousOutPoint]; !ok {
					panic("refchain: model block " + n.Name + " spends a missing output")
				}
				delete(set, in.PreviousOutPoint)
			}
		}
		h := tx.TxHash()
		for i, o := range tx.TxOut {
			if Unspendable(o.PkScript) {
				continue
			}
			set[wire.OutPoint{Hash: h, Index: uint32(i)}] = Coin{Amount: o.Value, PkScript: o.PkScript, Height: n.Height, Coinbase: cb}
		}
	}
}

// Stxos lists the outputs this block spends, in input order (coinbase excluded), as they were just
// before being spent.
func (b *Block) Stxos() []Coin {
	set := map[wire.OutPoint]Coin{}
	if b.Parent != nil {
		for k, v := range b.Parent.Utxo() {
			set[k] = v
		}
	}
	var out []Coin
	for _, tx := range b.Msg.Transactions {
		cb := IsCoinbaseTx(tx)
		if !cb {
			for _, in := range tx.TxIn {
				c, ok := set[in.PreviousOutPoint]
				if !ok {
					panic("refchain: Stxos of a block that spends a missing output")
				}
				out = append(out, c)
				delete(set, in.PreviousOutPoint)
			}
		}
		h := tx.TxHash()
		for i, o := range tx.TxOut {
			if Unspendable(o.PkScript) {
				continue
			}
			set[wire.OutPoint{Hash: h, Index: uint32(i)}] = Coin{Amount: o.Value, PkScript: o.PkScript, Height: b.Height, Coinbase: cb}
		}
	}
	return out
}

// Path returns genesis..b.
func (b *Block) Path() []*Block {
	p := make([]*Block, b.Height+1)
	for n := b; n != nil; n = n.Parent {
		p[n.Height] = n
	}
	return p
}

// Subsidy is 50 BTC halved every interval blocks (0 after 64 halvings).
func Subsidy(height int32, interval int32) int64 {
	if interval == 0 {
		return 50e8
	}
	h := height / interval
	if h >= 64 {
		return 0
	}
	return int64(50e8) >> uint(h)
}
