// Package reftx is an independent, deliberately naive reference model of Bitcoin
// transaction / block-header / block serialization, written from the protocol
// documentation (Bitcoin developer reference "Transactions", "Block headers",
// "CompactSize unsigned integers"; BIP141 / BIP144 for the witness form and
// weight). It shares no code with btcd: the only dependency of this file is
// crypto/sha256. (conv.go, in the same package, converts to and from btcd's wire
// structs by reading / writing exported fields only.)
//
// API summary (keep it small — other workers import this package):
//
//	types      Tx, TxIn, TxOut, OutPoint, Header, Block
//	encode     (*Tx).Bytes(witness bool), (*Header).Bytes(), (*Block).Bytes(witness bool)
//	decode     ParseTx(b, allowWitness), ParseHeader(b), ParseBlock(b, allowWitness)
//	           (each returns the value and the number of bytes consumed; strict:
//	           non-minimal CompactSize, bad segwit flag, superfluous witness are errors)
//	ids        (*Tx).TxID(), (*Tx).WTxID(), (*Header).Hash(), (*Block).Hash()
//	sizes      (*Tx).BaseSize/TotalSize/Weight/VSize, (*Block).BaseSize/TotalSize/Weight
//	merkle     MerkleRoot(leaves), (*Block).MerkleRoot(), (*Block).WitnessMerkleRoot()
//	varint     AppendVarInt, ReadVarInt, VarIntSize
//	hash       DoubleSHA256
//
// Hashes are in internal byte order (the order they are serialized in); the usual
// displayed hex string is the byte-reversed form (see HashString).
package reftx

import (
	"crypto/sha256"
	"errors"
)

// Errors returned by the parsers. They are classes, not messages: callers compare with errors.Is.
var (
	ErrTruncated          = errors.New("reftx: input ends before the structure is complete")
	ErrNonCanonicalVarInt = errors.New("reftx: CompactSize integer is not minimally encoded")
	ErrBadWitnessFlag     = errors.New("reftx: segwit marker present but flag byte is not 0x01")
	ErrSuperfluousWitness = errors.New("reftx: segwit flag set but every witness stack is empty")
)

// OutPoint identifies a previous transaction output.
type OutPoint struct {
	Hash  [32]byte
	Index uint32
}

// TxIn is one transaction input. Witness is the input's witness stack (nil or empty = no witness).
type TxIn struct {
	Prev     OutPoint
	Script   []byte
	Sequence uint32
	Witness  [][]byte
}

// TxOut is one transaction output.
type TxOut struct {
	Value  int64
	Script []byte
}

// Tx is a transaction.
type Tx struct {
	Version  int32
	In       []TxIn
	Out      []TxOut
	LockTime uint32
}

// Header is an 80-byte block header. Time is the raw 32-bit unix time.
type Header struct {
	Version int32
	Prev    [32]byte
	Merkle  [32]byte
	Time    uint32
	Bits    uint32
	Nonce   uint32
}

// Block is a header plus transactions.
type Block struct {
	Header Header
	Txs    []*Tx
}

// DoubleSHA256 is SHA256(SHA256(b)).
func DoubleSHA256(b []byte) [32]byte {
	a := sha256.Sum256(b)
	return sha256.Sum256(a[:])
}

// HashString renders a hash the way block explorers do (byte-reversed hex).
func HashString(h [32]byte) string {
	const hexd = "0123456789abcdef"
	out := make([]byte, 64)
	for i := 0; i < 32; i++ {
		c := h[31-i]
		out[2*i] = hexd[c>>4]
		out[2*i+1] = hexd[c&15]
	}
	return string(out)
}

// ---------------------------------------------------------------------------------------------
// CompactSize

// VarIntSize is the length of the CompactSize encoding of v.
func VarIntSize(v uint64) int {
	switch {
	case v <= 0xfc:
		return 1
	case v <= 0xffff:
		return 3
	case v <= 0xffffffff:
		return 5
	}
	return 9
}

// AppendVarInt appends the (minimal) CompactSize encoding of v.
func AppendVarInt(b []byte, v uint64) []byte {
	switch VarIntSize(v) {
	case 1:
		return append(b, byte(v))
	case 3:
		return append(b, 0xfd, byte(v), byte(v>>8))
	case 5:
		return append(b, 0xfe, byte(v), byte(v>>8), byte(v>>16), byte(v>>24))
	}
	b = append(b, 0xff)
	for i := 0; i < 8; i++ {
		b = append(b, byte(v>>(8*uint(i))))
	}
	return b
}

// ReadVarInt decodes a CompactSize at the start of b; n is the number of bytes it occupies.
func ReadVarInt(b []byte) (v uint64, n int, err error) {
	if len(b) < 1 {
		return 0, 0, ErrTruncated
	}
	width := 0
	switch b[0] {
	case 0xfd:
		width = 2
	case 0xfe:
		width = 4
	case 0xff:
		width = 8
	default:
		return uint64(b[0]), 1, nil
	}
	if len(b) < 1+width {
		return 0, 0, ErrTruncated
	}
	for i := width - 1; i >= 0; i-- {
		v = v<<8 | uint64(b[1+i])
	}
	if VarIntSize(v) != 1+width {
		return 0, 0, ErrNonCanonicalVarInt
	}
	return v, 1 + width, nil
}

func appendU32(b []byte, v uint32) []byte {
	return append(b, byte(v), byte(v>>8), byte(v>>16), byte(v>>24))
}

func appendU64(b []byte, v uint64) []byte {
	b = appendU32(b, uint32(v))
	return appendU32(b, uint32(v>>32))
}

func appendVarBytes(b, s []byte) []byte {
	b = AppendVarInt(b, uint64(len(s)))
	return append(b, s...)
}

// ---------------------------------------------------------------------------------------------
// encoding

// HasWitness reports whether any input carries a non-empty witness stack.
func (t *Tx) HasWitness() bool {
	for i := range t.In {
		if len(t.In[i].Witness) > 0 {
			return true
		}
	}
	return false
}

// Bytes serializes the transaction. With witness=true the BIP144 form (marker 0x00, flag 0x01,
// witness stacks before the lock time) is used if and only if the transaction has a witness;
// otherwise, and always with witness=false, the original form is produced.
func (t *Tx) Bytes(witness bool) []byte {
	ext := witness && t.HasWitness()
	b := appendU32(nil, uint32(t.Version))
	if ext {
		b = append(b, 0x00, 0x01)
	}
	b = AppendVarInt(b, uint64(len(t.In)))
	for i := range t.In {
		in := &t.In[i]
		b = append(b, in.Prev.Hash[:]...)
		b = appendU32(b, in.Prev.Index)
		b = appendVarBytes(b, in.Script)
		b = appendU32(b, in.Sequence)
	}
	b = AppendVarInt(b, uint64(len(t.Out)))
	for i := range t.Out {
		b = appendU64(b, uint64(t.Out[i].Value))
		b = appendVarBytes(b, t.Out[i].Script)
	}
	if ext {
		for i := range t.In {
			b = AppendVarInt(b, uint64(len(t.In[i].Witness)))
			for _, item := range t.In[i].Witness {
				b = appendVarBytes(b, item)
			}
		}
	}
	return appendU32(b, t.LockTime)
}

// TxID is the double-SHA256 of the original (witness-less) serialization.
func (t *Tx) TxID() [32]byte { return DoubleSHA256(t.Bytes(false)) }

// WTxID is the double-SHA256 of the BIP144 serialization (equal to TxID without a witness).
func (t *Tx) WTxID() [32]byte { return DoubleSHA256(t.Bytes(true)) }

// BaseSize is the length of the witness-less serialization.
func (t *Tx) BaseSize() int { return len(t.Bytes(false)) }

// TotalSize is the length of the BIP144 serialization.
func (t *Tx) TotalSize() int { return len(t.Bytes(true)) }

// Weight is BIP141 weight: 3*base + total.
func (t *Tx) Weight() int { return 3*t.BaseSize() + t.TotalSize() }

// VSize is ceil(weight/4).
func (t *Tx) VSize() int { return (t.Weight() + 3) / 4 }

// Bytes serializes the 80-byte header.
func (h *Header) Bytes() []byte {
	b := appendU32(nil, uint32(h.Version))
	b = append(b, h.Prev[:]...)
	b = append(b, h.Merkle[:]...)
	b = appendU32(b, h.Time)
	b = appendU32(b, h.Bits)
	return appendU32(b, h.Nonce)
}

// Hash is the block hash (double-SHA256 of the 80 header bytes).
func (h *Header) Hash() [32]byte { return DoubleSHA256(h.Bytes()) }

// Bytes serializes the block: header, CompactSize tx count, transactions.
func (bl *Block) Bytes(witness bool) []byte {
	b := bl.Header.Bytes()
	b = AppendVarInt(b, uint64(len(bl.Txs)))
	for _, t := range bl.Txs {
		b = append(b, t.Bytes(witness)...)
	}
	return b
}

// Hash is the header hash.
func (bl *Block) Hash() [32]byte { return bl.Header.Hash() }

// BaseSize / TotalSize / Weight as for transactions.
func (bl *Block) BaseSize() int  { return len(bl.Bytes(false)) }
func (bl *Block) TotalSize() int { return len(bl.Bytes(true)) }
func (bl *Block) Weight() int    { return 3*bl.BaseSize() + bl.TotalSize() }

// TxOffsets returns, for the serialization selected by witness, the start offset and length
// of every transaction inside Bytes(witness).
func (bl *Block) TxOffsets(witness bool) (start, length []int) {
	off := 80 + VarIntSize(uint64(len(bl.Txs)))
	for _, t := range bl.Txs {
		n := len(t.Bytes(witness))
		start = append(start, off)
		length = append(length, n)
		off += n
	}
	return
}

// MerkleRoot folds the leaves pairwise with double-SHA256, duplicating the last node of odd
// levels. The root of zero leaves is the zero hash.
func MerkleRoot(leaves [][32]byte) [32]byte {
	if len(leaves) == 0 {
		return [32]byte{}
	}
	cur := append([][32]byte(nil), leaves...)
	for len(cur) > 1 {
		if len(cur)%2 == 1 {
			cur = append(cur, cur[len(cur)-1])
		}
		next := make([][32]byte, 0, len(cur)/2)
		for i := 0; i < len(cur); i += 2 {
			var cat [64]byte
			copy(cat[:32], cur[i][:])
			copy(cat[32:], cur[i+1][:])
			next = append(next, DoubleSHA256(cat[:]))
		}
		cur = next
	}
	return cur[0]
}

// MerkleRoot is the merkle root over the txids.
func (bl *Block) MerkleRoot() [32]byte {
	l := make([][32]byte, len(bl.Txs))
	for i, t := range bl.Txs {
		l[i] = t.TxID()
	}
	return MerkleRoot(l)
}

// WitnessMerkleRoot is the BIP141 witness root: wtxids with the coinbase's replaced by zero.
func (bl *Block) WitnessMerkleRoot() [32]byte {
	l := make([][32]byte, len(bl.Txs))
	for i, t := range bl.Txs {
		if i > 0 {
			l[i] = t.WTxID()
		}
	}
	return MerkleRoot(l)
}

// ---------------------------------------------------------------------------------------------
// decoding

type reader struct {
	b   []byte
	pos int
}

func (r *reader) left() int { return len(r.b) - r.pos }

func (r *reader) take(n int) ([]byte, error) {
	if n < 0 || r.left() < n {
		return nil, ErrTruncated
	}
	s := r.b[r.pos : r.pos+n]
	r.pos += n
	return s, nil
}

func (r *reader) u32() (uint32, error) {
	s, err := r.take(4)
	if err != nil {
		return 0, err
	}
	return uint32(s[0]) | uint32(s[1])<<8 | uint32(s[2])<<16 | uint32(s[3])<<24, nil
}

func (r *reader) u64() (uint64, error) {
	lo, err := r.u32()
	if err != nil {
		return 0, err
	}
	hi, err := r.u32()
	if err != nil {
		return 0, err
	}
	return uint64(lo) | uint64(hi)<<32, nil
}

func (r *reader) varint() (uint64, error) {
	v, n, err := ReadVarInt(r.b[r.pos:])
	if err != nil {
		return 0, err
	}
	r.pos += n
	return v, nil
}

// count reads a CompactSize element count whose elements occupy at least minElem bytes each;
// a count that cannot fit in the remaining input is a truncation (nothing is allocated for it).
func (r *reader) count(minElem int) (int, error) {
	v, err := r.varint()
	if err != nil {
		return 0, err
	}
	if v > uint64(r.left()/minElem) {
		return 0, ErrTruncated
	}
	return int(v), nil
}

func (r *reader) varbytes() ([]byte, error) {
	n, err := r.count(1)
	if err != nil {
		return nil, err
	}
	s, err := r.take(n)
	if err != nil {
		return nil, err
	}
	return append([]byte{}, s...), nil
}

func (r *reader) tx(allowWitness bool) (*Tx, error) {
	t := &Tx{}
	v, err := r.u32()
	if err != nil {
		return nil, err
	}
	t.Version = int32(v)
	ext := false
	if allowWitness && r.left() >= 1 && r.b[r.pos] == 0x00 {
		// BIP144: an input count of zero is the segwit marker; the flag must be 0x01.
		r.pos++
		f, err := r.take(1)
		if err != nil {
			return nil, err
		}
		if f[0] != 0x01 {
			return nil, ErrBadWitnessFlag
		}
		ext = true
	}
	nin, err := r.count(41)
	if err != nil {
		return nil, err
	}
	t.In = make([]TxIn, nin)
	for i := range t.In {
		h, err := r.take(32)
		if err != nil {
			return nil, err
		}
		copy(t.In[i].Prev.Hash[:], h)
		if t.In[i].Prev.Index, err = r.u32(); err != nil {
			return nil, err
		}
		if t.In[i].Script, err = r.varbytes(); err != nil {
			return nil, err
		}
		if t.In[i].Sequence, err = r.u32(); err != nil {
			return nil, err
		}
	}
	nout, err := r.count(9)
	if err != nil {
		return nil, err
	}
	t.Out = make([]TxOut, nout)
	for i := range t.Out {
		val, err := r.u64()
		if err != nil {
			return nil, err
		}
		t.Out[i].Value = int64(val)
		if t.Out[i].Script, err = r.varbytes(); err != nil {
			return nil, err
		}
	}
	if ext {
		for i := range t.In {
			n, err := r.count(1)
			if err != nil {
				return nil, err
			}
			t.In[i].Witness = make([][]byte, n)
			for j := range t.In[i].Witness {
				if t.In[i].Witness[j], err = r.varbytes(); err != nil {
					return nil, err
				}
			}
		}
		if !t.HasWitness() {
			return nil, ErrSuperfluousWitness
		}
	}
	if t.LockTime, err = r.u32(); err != nil {
		return nil, err
	}
	return t, nil
}

func (r *reader) header() (Header, error) {
	var h Header
	v, err := r.u32()
	if err != nil {
		return h, err
	}
	h.Version = int32(v)
	p, err := r.take(32)
	if err != nil {
		return h, err
	}
	copy(h.Prev[:], p)
	m, err := r.take(32)
	if err != nil {
		return h, err
	}
	copy(h.Merkle[:], m)
	if h.Time, err = r.u32(); err != nil {
		return h, err
	}
	if h.Bits, err = r.u32(); err != nil {
		return h, err
	}
	if h.Nonce, err = r.u32(); err != nil {
		return h, err
	}
	return h, nil
}

// ParseTx decodes one transaction from the start of b and returns the number of bytes consumed.
// With allowWitness=false the input is read as the original format (an input count of zero is
// just an empty input list). With allowWitness=true a zero byte after the version is the BIP144
// marker (so a transaction without inputs cannot be expressed in that mode).
func ParseTx(b []byte, allowWitness bool) (*Tx, int, error) {
	r := &reader{b: b}
	t, err := r.tx(allowWitness)
	if err != nil {
		return nil, r.pos, err
	}
	return t, r.pos, nil
}

// ParseHeader decodes an 80-byte header from the start of b.
func ParseHeader(b []byte) (Header, int, error) {
	r := &reader{b: b}
	h, err := r.header()
	return h, r.pos, err
}

// ParseBlock decodes a block from the start of b and returns the number of bytes consumed.
func ParseBlock(b []byte, allowWitness bool) (*Block, int, error) {
	r := &reader{b: b}
	h, err := r.header()
	if err != nil {
		return nil, r.pos, err
	}
	n, err := r.count(10)
	if err != nil {
		return nil, r.pos, err
	}
	bl := &Block{Header: h, Txs: make([]*Tx, 0, n)}
	for i := 0; i < n; i++ {
		t, err := r.tx(allowWitness)
		if err != nil {
			return nil, r.pos, err
		}
		bl.Txs = append(bl.Txs, t)
	}
	return bl, r.pos, nil
}
