package reftx

import (
	"time"

	"github.com/btcsuite/btcd/wire/v2"
)

// This file only moves data between the reference structs and btcd's wire structs through
// exported fields; it calls no btcd encode / decode / hash / size function.

// FromMsgTx copies a wire.MsgTx into a reference Tx (deep copy).
func FromMsgTx(m *wire.MsgTx) *Tx {
	t := &Tx{Version: m.Version, LockTime: m.LockTime}
	t.In = make([]TxIn, len(m.TxIn))
	for i, in := range m.TxIn {
		t.In[i].Prev.Hash = [32]byte(in.PreviousOutPoint.Hash)
		t.In[i].Prev.Index = in.PreviousOutPoint.Index
		t.In[i].Script = append([]byte{}, in.SignatureScript...)
		t.In[i].Sequence = in.Sequence
		if len(in.Witness) > 0 {
			t.In[i].Witness = make([][]byte, len(in.Witness))
			for j, it := range in.Witness {
				t.In[i].Witness[j] = append([]byte{}, it...)
			}
		}
	}
	t.Out = make([]TxOut, len(m.TxOut))
	for i, o := range m.TxOut {
		t.Out[i].Value = o.Value
		t.Out[i].Script = append([]byte{}, o.PkScript...)
	}
	return t
}

// ToMsgTx builds a wire.MsgTx from a reference Tx (deep copy).
func ToMsgTx(t *Tx) *wire.MsgTx {
	m := &wire.MsgTx{Version: t.Version, LockTime: t.LockTime}
	for i := range t.In {
		in := &wire.TxIn{Sequence: t.In[i].Sequence}
		in.PreviousOutPoint.Hash = t.In[i].Prev.Hash
		in.PreviousOutPoint.Index = t.In[i].Prev.Index
		in.SignatureScript = append([]byte(nil), t.In[i].Script...)
		if len(t.In[i].Witness) > 0 {
			in.Witness = make(wire.TxWitness, len(t.In[i].Witness))
			for j, it := range t.In[i].Witness {
				in.Witness[j] = append([]byte{}, it...)
			}
		}
		m.TxIn = append(m.TxIn, in)
	}
	for i := range t.Out {
		m.TxOut = append(m.TxOut, &wire.TxOut{Value: t.Out[i].Value, PkScript: append([]byte(nil), t.Out[i].Script...)})
	}
	return m
}

// FromHeader copies a wire.BlockHeader. The timestamp is truncated to its low 32 bits, which is
// what the 4-byte header field can carry.
func FromHeader(h *wire.BlockHeader) Header {
	return Header{Version: h.Version, Prev: [32]byte(h.PrevBlock), Merkle: [32]byte(h.MerkleRoot),
		Time: uint32(h.Timestamp.Unix()), Bits: h.Bits, Nonce: h.Nonce}
}

// ToHeader builds a wire.BlockHeader.
func ToHeader(h Header) wire.BlockHeader {
	return wire.BlockHeader{Version: h.Version, PrevBlock: h.Prev, MerkleRoot: h.Merkle,
		Timestamp: time.Unix(int64(h.Time), 0), Bits: h.Bits, Nonce: h.Nonce}
}

// FromMsgBlock copies a wire.MsgBlock.
func FromMsgBlock(m *wire.MsgBlock) *Block {
	b := &Block{Header: FromHeader(&m.Header)}
	for _, t := range m.Transactions {
		b.Txs = append(b.Txs, FromMsgTx(t))
	}
	return b
}

// ToMsgBlock builds a wire.MsgBlock.
func ToMsgBlock(b *Block) *wire.MsgBlock {
	m := &wire.MsgBlock{Header: ToHeader(b.Header)}
	for _, t := range b.Txs {
		m.Transactions = append(m.Transactions, ToMsgTx(t))
	}
	return m
}
