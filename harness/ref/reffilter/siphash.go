// Package reffilter holds the reference models for property C20 (light-client filters):
// SipHash-2-4, the BIP158 Golomb-Rice coder and basic-filter contents, the BIP157 filter-header
// chain, MurmurHash3 (x86_32), the BIP37 bloom filter with its transaction-relevance rule and an
// independent BIP37 partial-merkle-tree verifier.
//
// Everything here is written from the specifications (SipHash paper, BIP158, BIP157, BIP37 and the
// behaviour of Bitcoin Core they document), deliberately naive, and shares nothing with btcd beyond
// crypto/sha256 and math/bits of the standard library.
package reffilter

import "math/bits"

// SipHash24 computes SipHash-2-4 of msg under the 128-bit key (k0, k1), as defined in
// "SipHash: a fast short-input PRF" (Aumasson, Bernstein), section 2.
func SipHash24(k0, k1 uint64, msg []byte) uint64 {
	v0 := k0 ^ 0x736f6d6570736575
	v1 := k1 ^ 0x646f72616e646f6d
	v2 := k0 ^ 0x6c7967656e657261
	v3 := k1 ^ 0x7465646279746573

	round := func() {
		v0 += v1
		v1 = bits.RotateLeft64(v1, 13)
		v1 ^= v0
		v0 = bits.RotateLeft64(v0, 32)
		v2 += v3
		v3 = bits.RotateLeft64(v3, 16)
		v3 ^= v2
		v0 += v3
		v3 = bits.RotateLeft64(v3, 21)
		v3 ^= v0
		v2 += v1
		v1 = bits.RotateLeft64(v1, 17)
		v1 ^= v2
		v2 = bits.RotateLeft64(v2, 32)
	}

	n := len(msg)
	full := n / 8
	for i := 0; i < full; i++ {
		var m uint64
		for j := 0; j < 8; j++ {
			m |= uint64(msg[i*8+j]) << (8 * uint(j))
		}
		v3 ^= m
		round()
		round()
		v0 ^= m
	}
	// last word: remaining bytes little-endian, top byte = len mod 256
	var m uint64
	for j := 0; j < n%8; j++ {
		m |= uint64(msg[full*8+j]) << (8 * uint(j))
	}
	m |= uint64(n&0xff) << 56
	v3 ^= m
	round()
	round()
	v0 ^= m

	v2 ^= 0xff
	round()
	round()
	round()
	round()
	return v0 ^ v1 ^ v2 ^ v3
}

// KeyFromBytes splits a 16-byte key into the two little-endian 64-bit halves (k0 first).
func KeyFromBytes(key [16]byte) (k0, k1 uint64) {
	for j := 0; j < 8; j++ {
		k0 |= uint64(key[j]) << (8 * uint(j))
		k1 |= uint64(key[8+j]) << (8 * uint(j))
	}
	return
}
