package reffilter

import "errors"

// A tiny independent parser for serialized transactions and blocks (legacy and BIP144 forms): just
// enough to obtain txids, scripts and outpoints for calibrating the filter models on published blocks.

type rawReader struct {
	b   []byte
	pos int
	err error
}

func (r *rawReader) take(n int) []byte {
	if r.err != nil || n < 0 || r.pos+n > len(r.b) {
		r.err = errors.New("rawtx: truncated")
		return make([]byte, max(n, 0))
	}
	out := r.b[r.pos : r.pos+n]
	r.pos += n
	return out
}

func (r *rawReader) u32() uint32 {
	b := r.take(4)
	return uint32(b[0]) | uint32(b[1])<<8 | uint32(b[2])<<16 | uint32(b[3])<<24
}

func (r *rawReader) varint() uint64 {
	b := r.take(1)[0]
	n := 0
	switch b {
	case 0xfd:
		n = 2
	case 0xfe:
		n = 4
	case 0xff:
		n = 8
	default:
		return uint64(b)
	}
	var v uint64
	for i, x := range r.take(n) {
		v |= uint64(x) << (8 * uint(i))
	}
	return v
}

func (r *rawReader) tx() *TxView {
	start := r.pos
	r.take(4) // version
	segwit := false
	if r.pos+2 <= len(r.b) && r.b[r.pos] == 0 && r.b[r.pos+1] == 1 {
		segwit = true
		r.take(2)
	}
	bodyStart := r.pos
	tv := &TxView{}
	nin := r.varint()
	for i := uint64(0); i < nin && r.err == nil; i++ {
		var in TxInView
		copy(in.PrevHash[:], r.take(32))
		in.PrevIndex = r.u32()
		in.SigScript = append([]byte(nil), r.take(int(r.varint()))...)
		r.take(4)
		tv.Inputs = append(tv.Inputs, in)
	}
	nout := r.varint()
	for i := uint64(0); i < nout && r.err == nil; i++ {
		r.take(8)
		tv.Outputs = append(tv.Outputs, append([]byte(nil), r.take(int(r.varint()))...))
	}
	bodyEnd := r.pos
	if segwit {
		for i := uint64(0); i < nin && r.err == nil; i++ {
			for j := r.varint(); j > 0 && r.err == nil; j-- {
				r.take(int(r.varint()))
			}
		}
	}
	lock := r.take(4)
	if r.err != nil {
		return nil
	}
	ser := append([]byte{}, r.b[start:start+4]...)
	ser = append(ser, r.b[bodyStart:bodyEnd]...)
	ser = append(ser, lock...)
	tv.TxID = DSHA(ser)
	return tv
}

// ParseTx parses one serialized transaction.
func ParseTx(b []byte) (*TxView, error) {
	r := &rawReader{b: b}
	t := r.tx()
	if r.err != nil {
		return nil, r.err
	}
	if r.pos != len(b) {
		return nil, errors.New("rawtx: trailing bytes")
	}
	return t, nil
}

// RawBlock is a parsed block: the 80 header bytes, its hash, the merkle root field and the transactions.
type RawBlock struct {
	Header     []byte
	Hash       [32]byte
	MerkleRoot [32]byte
	Txs        []*TxView
}

// ParseBlock parses a serialized block.
func ParseBlock(b []byte) (*RawBlock, error) {
	r := &rawReader{b: b}
	blk := &RawBlock{Header: append([]byte(nil), r.take(80)...)}
	if r.err != nil {
		return nil, r.err
	}
	blk.Hash = DSHA(blk.Header)
	copy(blk.MerkleRoot[:], blk.Header[36:68])
	n := r.varint()
	for i := uint64(0); i < n && r.err == nil; i++ {
		blk.Txs = append(blk.Txs, r.tx())
	}
	if r.err != nil {
		return nil, r.err
	}
	if r.pos != len(b) {
		return nil, errors.New("rawtx: trailing bytes")
	}
	return blk, nil
}
