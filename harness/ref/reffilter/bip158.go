package reffilter

import (
	"crypto/sha256"
	"sort"
)

const (
	// BasicP and BasicM are the BIP158 parameters of the basic filter type.
	BasicP = 19
	BasicM = 784931
)

// DSHA is double SHA-256.
func DSHA(b []byte) [32]byte {
	a := sha256.Sum256(b)
	return sha256.Sum256(a[:])
}

// BasicElements returns the de-duplicated element set of a BIP158 basic filter, sorted bytewise:
// every output script of every transaction except empty ones and those beginning with OP_RETURN (0x6a),
// plus every spent previous-output script except empty ones.
func BasicElements(outputScripts, prevScripts [][]byte) [][]byte {
	set := map[string]struct{}{}
	for _, s := range outputScripts {
		if len(s) == 0 || s[0] == 0x6a {
			continue
		}
		set[string(s)] = struct{}{}
	}
	for _, s := range prevScripts {
		if len(s) == 0 {
			continue
		}
		set[string(s)] = struct{}{}
	}
	keys := make([]string, 0, len(set))
	for k := range set {
		keys = append(keys, k)
	}
	sort.Strings(keys)
	out := make([][]byte, len(keys))
	for i, k := range keys {
		out[i] = []byte(k)
	}
	return out
}

// BasicKey is the SipHash key of a block's basic filter: the first 16 bytes of the block hash
// (in its serialized, i.e. internal little-endian, byte order).
func BasicKey(blockHash [32]byte) (key [16]byte) {
	copy(key[:], blockHash[:16])
	return
}

// BasicFilter returns the serialized basic filter (CompactSize(N) || Golomb-coded set) of a block.
func BasicFilter(blockHash [32]byte, outputScripts, prevScripts [][]byte) (nbytes []byte, n int) {
	el := BasicElements(outputScripts, prevScripts)
	out := CompactSize(uint64(len(el)))
	out = append(out, BuildGCS(el, BasicP, BasicM, BasicKey(blockHash))...)
	return out, len(el)
}

// FilterHash is the BIP157 filter hash: double-SHA256 of the serialized filter.
func FilterHash(nbytes []byte) [32]byte { return DSHA(nbytes) }

// FilterHeader is the BIP157 filter header: double-SHA256(filter_hash || previous_filter_header).
func FilterHeader(filterHash, prevHeader [32]byte) [32]byte {
	return DSHA(append(append([]byte{}, filterHash[:]...), prevHeader[:]...))
}
