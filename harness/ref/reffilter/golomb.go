package reffilter

import (
	"errors"
	"math/bits"
	"sort"
)

// BitWriter writes bits most-significant-bit first into bytes (BIP158 bit order); the last byte
// is padded with zero bits.
type BitWriter struct {
	buf  []byte
	nbit int // bits used in total
}

func (w *BitWriter) WriteBit(b bool) {
	if w.nbit%8 == 0 {
		w.buf = append(w.buf, 0)
	}
	if b {
		w.buf[len(w.buf)-1] |= 0x80 >> uint(w.nbit%8)
	}
	w.nbit++
}

// WriteBitsBE writes the low n bits of v, most significant first.
func (w *BitWriter) WriteBitsBE(v uint64, n int) {
	for i := n - 1; i >= 0; i-- {
		w.WriteBit((v>>uint(i))&1 == 1)
	}
}

func (w *BitWriter) Bytes() []byte { return append([]byte(nil), w.buf...) }
func (w *BitWriter) Len() int      { return w.nbit }

// BitReader reads bits MSB-first.
type BitReader struct {
	buf []byte
	pos int
}

var ErrEOS = errors.New("reffilter: end of bit stream")

func NewBitReader(b []byte) *BitReader { return &BitReader{buf: b} }

func (r *BitReader) ReadBit() (bool, error) {
	if r.pos >= 8*len(r.buf) {
		return false, ErrEOS
	}
	b := r.buf[r.pos/8]&(0x80>>uint(r.pos%8)) != 0
	r.pos++
	return b, nil
}

func (r *BitReader) ReadBitsBE(n int) (uint64, error) {
	var v uint64
	for i := 0; i < n; i++ {
		b, err := r.ReadBit()
		if err != nil {
			return 0, err
		}
		v <<= 1
		if b {
			v |= 1
		}
	}
	return v, nil
}

// Pos returns the number of bits consumed.
func (r *BitReader) Pos() int { return r.pos }

// GolombEncode appends x with Rice parameter p: quotient x>>p in unary (ones, then a zero),
// followed by the low p bits big-endian (BIP158 "golomb_encode").
func GolombEncode(w *BitWriter, x uint64, p uint) {
	q := x >> p
	for ; q > 0; q-- {
		w.WriteBit(true)
	}
	w.WriteBit(false)
	w.WriteBitsBE(x, int(p))
}

// GolombDecode is the inverse of GolombEncode.
func GolombDecode(r *BitReader, p uint) (uint64, error) {
	var q uint64
	for {
		b, err := r.ReadBit()
		if err != nil {
			return 0, err
		}
		if !b {
			break
		}
		q++
	}
	rem, err := r.ReadBitsBE(int(p))
	if err != nil {
		return 0, err
	}
	return q<<p + rem, nil
}

// HashToRange maps an item uniformly to [0, f): (siphash(item) * f) >> 64 (BIP158 "hash_to_range").
func HashToRange(item []byte, f uint64, k0, k1 uint64) uint64 {
	hi, _ := bits.Mul64(SipHash24(k0, k1, item), f)
	return hi
}

// HashedSet returns the sorted list (duplicates kept) of the hashed items for a set of n = len(items)
// elements and multiplier m (BIP158 "hashed_set_construct": F = N * M).
func HashedSet(items [][]byte, m uint64, key [16]byte) []uint64 {
	k0, k1 := KeyFromBytes(key)
	f := uint64(len(items)) * m
	out := make([]uint64, 0, len(items))
	for _, it := range items {
		out = append(out, HashToRange(it, f, k0, k1))
	}
	sort.Slice(out, func(i, j int) bool { return out[i] < out[j] })
	return out
}

// EncodeSorted Golomb-Rice encodes the successive differences of a sorted list (BIP158 "gcs_construct"
// without the leading N).
func EncodeSorted(sorted []uint64, p uint) []byte {
	var w BitWriter
	var last uint64
	for _, v := range sorted {
		GolombEncode(&w, v-last, p)
		last = v
	}
	return w.Bytes()
}

// BuildGCS returns the filter bytes (without N) for the items.
func BuildGCS(items [][]byte, p uint, m uint64, key [16]byte) []byte {
	if len(items) == 0 {
		return nil
	}
	return EncodeSorted(HashedSet(items, m, key), p)
}

// DecodeGCS decodes exactly n values from the filter bytes and returns the reconstructed set values.
// It fails when the stream ends early or when a non-zero bit follows the last value (only zero padding
// up to the byte boundary is legal).
func DecodeGCS(data []byte, n uint64, p uint) ([]uint64, error) {
	r := NewBitReader(data)
	out := make([]uint64, 0, n)
	var last uint64
	for i := uint64(0); i < n; i++ {
		d, err := GolombDecode(r, p)
		if err != nil {
			return nil, err
		}
		last += d
		out = append(out, last)
	}
	if (r.Pos()+7)/8 != len(data) {
		return nil, errors.New("reffilter: trailing bytes after the last element")
	}
	for {
		b, err := r.ReadBit()
		if err != nil {
			break
		}
		if b {
			return nil, errors.New("reffilter: non-zero padding")
		}
	}
	return out, nil
}

// CompactSize is Bitcoin's variable-length integer.
func CompactSize(n uint64) []byte {
	switch {
	case n < 0xfd:
		return []byte{byte(n)}
	case n <= 0xffff:
		return []byte{0xfd, byte(n), byte(n >> 8)}
	case n <= 0xffffffff:
		return []byte{0xfe, byte(n), byte(n >> 8), byte(n >> 16), byte(n >> 24)}
	default:
		return []byte{0xff, byte(n), byte(n >> 8), byte(n >> 16), byte(n >> 24), byte(n >> 32), byte(n >> 40), byte(n >> 48), byte(n >> 56)}
	}
}

// Contains reports whether the sorted value list contains v.
func Contains(sorted []uint64, v uint64) bool {
	i := sort.Search(len(sorted), func(i int) bool { return sorted[i] >= v })
	return i < len(sorted) && sorted[i] == v
}
