package reffilter

import "math"

// Murmur3 is MurmurHash3_x86_32 (Austin Appleby's public-domain definition) of data with the seed.
func Murmur3(seed uint32, data []byte) uint32 {
	rotl := func(x uint32, r uint) uint32 { return x<<r | x>>(32-r) }
	h := seed
	n := len(data)
	for i := 0; i+4 <= n; i += 4 {
		k := uint32(data[i]) | uint32(data[i+1])<<8 | uint32(data[i+2])<<16 | uint32(data[i+3])<<24
		k *= 0xcc9e2d51
		k = rotl(k, 15)
		k *= 0x1b873593
		h ^= k
		h = rotl(h, 13)
		h = h*5 + 0xe6546b64
	}
	tail := data[n-n%4:]
	var k uint32
	for i := len(tail) - 1; i >= 0; i-- {
		k = k<<8 | uint32(tail[i])
	}
	if len(tail) > 0 {
		k *= 0xcc9e2d51
		k = rotl(k, 15)
		k *= 0x1b873593
		h ^= k
	}
	h ^= uint32(n)
	h ^= h >> 16
	h *= 0x85ebca6b
	h ^= h >> 13
	h *= 0xc2b2ae35
	h ^= h >> 16
	return h
}

// BIP37 limits and update flags.
const (
	MaxBloomFilterSize = 36000
	MaxHashFuncs       = 50

	UpdateNone         = 0
	UpdateAll          = 1
	UpdateP2PubkeyOnly = 2
)

// Bloom is the BIP37 bloom filter: a bit field, a hash-function count, a tweak and the update flags.
type Bloom struct {
	Data  []byte
	K     uint32
	Tweak uint32
	Flags byte
}

// BloomParams evaluates the BIP37 sizing formulas: the filter size in bytes
// min(-1/ln(2)^2 * N * ln(P), 36000*8) / 8 and the hash function count min(S*8/N*ln(2), 50).
// exact is false when one of the two real values lies so close to an integer that a differently
// ordered floating-point evaluation could truncate to the neighbouring integer.
func BloomParams(elements uint32, fprate float64) (size uint32, k uint32, exact bool) {
	exact = true
	near := func(x float64) bool {
		f := x - math.Floor(x)
		eps := 1e-9 * math.Max(1, math.Abs(x))
		return f < eps || 1-f < eps
	}
	bitsF := -1.0 / (math.Ln2 * math.Ln2) * float64(elements) * math.Log(fprate)
	if near(bitsF) {
		exact = false
	}
	var bits uint32
	if bitsF >= MaxBloomFilterSize*8 {
		bits = MaxBloomFilterSize * 8
	} else if bitsF > 0 {
		bits = uint32(bitsF)
	}
	size = bits / 8
	if elements == 0 {
		return size, 0, false
	}
	kF := float64(size*8) / float64(elements) * math.Ln2
	if near(kF) && kF >= 0.5 {
		exact = false
	}
	if kF >= MaxHashFuncs {
		k = MaxHashFuncs
	} else {
		k = uint32(kF)
	}
	return
}

func (b *Bloom) bit(i uint32, data []byte) uint32 {
	return Murmur3(i*0xFBA4C795+b.Tweak, data) % (uint32(len(b.Data)) * 8)
}

// Insert sets the K bits of data.
func (b *Bloom) Insert(data []byte) {
	if len(b.Data) == 0 {
		return
	}
	for i := uint32(0); i < b.K; i++ {
		idx := b.bit(i, data)
		b.Data[idx>>3] |= 1 << (7 & idx)
	}
}

// Contains is true when all K bits of data are set (vacuously true for K = 0; an empty bit field
// matches everything, as in Bitcoin Core).
func (b *Bloom) Contains(data []byte) bool {
	if len(b.Data) == 0 {
		return true
	}
	for i := uint32(0); i < b.K; i++ {
		idx := b.bit(i, data)
		if b.Data[idx>>3]&(1<<(7&idx)) == 0 {
			return false
		}
	}
	return true
}

// OutPointBytes serializes an outpoint the way it is inserted into filters: 32-byte txid (internal
// order) followed by the little-endian 32-bit index.
func OutPointBytes(txid [32]byte, index uint32) []byte {
	return append(append([]byte{}, txid[:]...), byte(index), byte(index>>8), byte(index>>16), byte(index>>24))
}

// ScriptPushes returns the data of every push operation of a script, in order, stopping at the first
// malformed (truncated) operation. ok is false when the script was malformed. Empty pushes are
// reported as empty slices.
func ScriptPushes(script []byte) (pushes [][]byte, ok bool) {
	i := 0
	for i < len(script) {
		op := script[i]
		i++
		if op > 0x4e {
			continue
		}
		var n int
		switch {
		case op <= 0x4b:
			n = int(op)
		case op == 0x4c:
			if i+1 > len(script) {
				return pushes, false
			}
			n = int(script[i])
			i++
		case op == 0x4d:
			if i+2 > len(script) {
				return pushes, false
			}
			n = int(script[i]) | int(script[i+1])<<8
			i += 2
		default:
			if i+4 > len(script) {
				return pushes, false
			}
			n = int(script[i]) | int(script[i+1])<<8 | int(script[i+2])<<16 | int(script[i+3])<<24
			i += 4
		}
		if n < 0 || i+n > len(script) {
			return pushes, false
		}
		pushes = append(pushes, script[i:i+n])
		i += n
	}
	return pushes, true
}

func validPubKeySize(k []byte) bool {
	if len(k) == 33 && (k[0] == 2 || k[0] == 3) {
		return true
	}
	return len(k) == 65 && (k[0] == 4 || k[0] == 6 || k[0] == 7)
}

// IsPayToPubKeyOrBareMultisig recognises the canonical templates
// <33|65-byte key> OP_CHECKSIG and OP_m <key>... OP_n OP_CHECKMULTISIG (direct pushes, 1 <= m <= n <= 16).
func IsPayToPubKeyOrBareMultisig(script []byte) bool {
	n := len(script)
	if (n == 35 && script[0] == 33 || n == 67 && script[0] == 65) && script[n-1] == 0xac {
		return validPubKeySize(script[1 : n-1])
	}
	if n < 4 || script[n-1] != 0xae {
		return false
	}
	small := func(op byte) int {
		if op >= 0x51 && op <= 0x60 {
			return int(op - 0x50)
		}
		return -1
	}
	m, cnt := small(script[0]), small(script[n-2])
	if m < 1 || cnt < 1 || m > cnt {
		return false
	}
	i, keys := 1, 0
	for i < n-2 {
		l := int(script[i])
		if l != 33 && l != 65 || i+1+l > n-2 || !validPubKeySize(script[i+1:i+1+l]) {
			return false
		}
		i += 1 + l
		keys++
	}
	return keys == cnt
}

// TxView is the part of a transaction that BIP37 filtering looks at.
type TxView struct {
	TxID    [32]byte
	Outputs [][]byte // output scripts
	Inputs  []TxInView
}

type TxInView struct {
	PrevHash  [32]byte
	PrevIndex uint32
	SigScript []byte
}

// RelevantAndUpdate is the BIP37 matching rule ("Filter matching algorithm"): the txid, every data
// element of every output script (on a match the outpoint is inserted according to the update flags),
// then every spent outpoint and every data element of every signature script. Empty data elements are
// not tested. A filter with an empty bit field matches everything.
func (b *Bloom) RelevantAndUpdate(tx *TxView) bool {
	if len(b.Data) == 0 {
		return true
	}
	found := b.Contains(tx.TxID[:])
	for i, s := range tx.Outputs {
		pushes, _ := ScriptPushes(s)
		for _, d := range pushes {
			if len(d) == 0 || !b.Contains(d) {
				continue
			}
			found = true
			switch b.Flags & 3 {
			case UpdateAll:
				b.Insert(OutPointBytes(tx.TxID, uint32(i)))
			case UpdateP2PubkeyOnly:
				if IsPayToPubKeyOrBareMultisig(s) {
					b.Insert(OutPointBytes(tx.TxID, uint32(i)))
				}
			}
			break
		}
	}
	if found {
		return true
	}
	for _, in := range tx.Inputs {
		if b.Contains(OutPointBytes(in.PrevHash, in.PrevIndex)) {
			return true
		}
		pushes, _ := ScriptPushes(in.SigScript)
		for _, d := range pushes {
			if len(d) != 0 && b.Contains(d) {
				return true
			}
		}
	}
	return false
}
