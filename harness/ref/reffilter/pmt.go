package reffilter

import "errors"

// MerkleRoot is the Bitcoin merkle root of a txid list (last node duplicated on odd levels).
func MerkleRoot(leaves [][32]byte) [32]byte {
	if len(leaves) == 0 {
		return [32]byte{}
	}
	cur := append([][32]byte(nil), leaves...)
	for len(cur) > 1 {
		var next [][32]byte
		for i := 0; i < len(cur); i += 2 {
			l, r := cur[i], cur[i]
			if i+1 < len(cur) {
				r = cur[i+1]
			}
			next = append(next, DSHA(append(append([]byte{}, l[:]...), r[:]...)))
		}
		cur = next
	}
	return cur[0]
}

// PMTResult is what a BIP37 partial merkle tree proves.
type PMTResult struct {
	Root    [32]byte
	Matched [][32]byte // matched txids in block order
	Index   []uint32   // their positions in the block
}

// treeWidth is the number of nodes at the given height (0 = leaves) of a tree with n leaves.
func treeWidth(n uint32, height uint) uint32 { return (n + (1 << height) - 1) >> height }

// VerifyPartialMerkleTree parses a BIP37 partial merkle tree ("Partial Merkle branch format" /
// "Parsing a partial merkle tree object"): total transaction count, the hash list and the flag bytes
// (flag bits are consumed least-significant bit first within each byte). It walks the tree depth-first,
// consuming a flag per node and a hash per leaf / per unexpanded node, and fails when
//   - the transaction count is zero, or there are more hashes than transactions, or fewer flag bits than hashes,
//   - flags or hashes run out, or are left over (other than zero..seven padding bits in the last flag byte),
//   - an inner node has identical left and right children where the right child really exists
//     (the CVE-2012-2459 duplicate-subtree malleation).
func VerifyPartialMerkleTree(numTx uint32, hashes [][32]byte, flags []byte) (*PMTResult, error) {
	if numTx == 0 {
		return nil, errors.New("pmt: no transactions")
	}
	if uint64(len(hashes)) > uint64(numTx) {
		return nil, errors.New("pmt: more hashes than transactions")
	}
	nbits := len(flags) * 8
	if nbits < len(hashes) {
		return nil, errors.New("pmt: fewer flag bits than hashes")
	}
	var height uint
	for treeWidth(numTx, height) > 1 {
		height++
	}
	res := &PMTResult{}
	bitPos, hashPos := 0, 0
	var bad error
	var walk func(h uint, pos uint32) [32]byte
	walk = func(h uint, pos uint32) [32]byte {
		if bad != nil {
			return [32]byte{}
		}
		if bitPos >= nbits {
			bad = errors.New("pmt: flag bits exhausted")
			return [32]byte{}
		}
		parent := flags[bitPos/8]>>(uint(bitPos)%8)&1 == 1
		bitPos++
		if h == 0 || !parent {
			if hashPos >= len(hashes) {
				bad = errors.New("pmt: hashes exhausted")
				return [32]byte{}
			}
			hv := hashes[hashPos]
			hashPos++
			if h == 0 && parent {
				res.Matched = append(res.Matched, hv)
				res.Index = append(res.Index, pos)
			}
			return hv
		}
		left := walk(h-1, pos*2)
		right := left
		if pos*2+1 < treeWidth(numTx, h-1) {
			right = walk(h-1, pos*2+1)
			if bad == nil && right == left {
				bad = errors.New("pmt: identical left and right subtrees")
			}
		}
		return DSHA(append(append([]byte{}, left[:]...), right[:]...))
	}
	res.Root = walk(height, 0)
	if bad != nil {
		return nil, bad
	}
	if (bitPos+7)/8 != len(flags) {
		return nil, errors.New("pmt: unconsumed flag bytes")
	}
	for i := bitPos; i < nbits; i++ {
		if flags[i/8]>>(uint(i)%8)&1 == 1 {
			return nil, errors.New("pmt: non-zero padding flag bits")
		}
	}
	if hashPos != len(hashes) {
		return nil, errors.New("pmt: unconsumed hashes")
	}
	return res, nil
}

// BuildPartialMerkleTree is the naive BIP37 constructor ("Constructing a partial merkle tree object"),
// used to calibrate the verifier and to predict the exact encoding.
func BuildPartialMerkleTree(txids [][32]byte, match []bool) (hashes [][32]byte, flags []byte) {
	n := uint32(len(txids))
	var height uint
	for treeWidth(n, height) > 1 {
		height++
	}
	var nodeHash func(h uint, pos uint32) [32]byte
	nodeHash = func(h uint, pos uint32) [32]byte {
		if h == 0 {
			return txids[pos]
		}
		l := nodeHash(h-1, pos*2)
		r := l
		if pos*2+1 < treeWidth(n, h-1) {
			r = nodeHash(h-1, pos*2+1)
		}
		return DSHA(append(append([]byte{}, l[:]...), r[:]...))
	}
	var bitsOut []bool
	var walk func(h uint, pos uint32)
	walk = func(h uint, pos uint32) {
		parent := false
		for i := uint64(pos) << h; i < uint64(pos+1)<<h && i < uint64(n); i++ {
			parent = parent || match[i]
		}
		bitsOut = append(bitsOut, parent)
		if h == 0 || !parent {
			hashes = append(hashes, nodeHash(h, pos))
			return
		}
		walk(h-1, pos*2)
		if pos*2+1 < treeWidth(n, h-1) {
			walk(h-1, pos*2+1)
		}
	}
	walk(height, 0)
	flags = make([]byte, (len(bitsOut)+7)/8)
	for i, b := range bitsOut {
		if b {
			flags[i/8] |= 1 << (uint(i) % 8)
		}
	}
	return
}
