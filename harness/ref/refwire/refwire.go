// Package refwire is an independent reference for the byte layout of every Bitcoin P2P
// message, per protocol version, written from the protocol documentation (Bitcoin developer
// reference "P2P network", BIP31/35/37/61/130/133/144/152-style framing, BIP155 addrv2,
// BIP157 cf* messages, BIP324 short message ids). It reads the *exported fields* of btcd's
// wire message structs (and, for the opaque addrv2 address, the net.Addr methods) and never
// calls a btcd encode / decode / size / hash function.
//
//	Encode(msg, pver, witness)  payload bytes + positions of every CompactSize field
//	CheckDomain(msg, pver)      is the value inside the domain on which the protocol defines a layout
//	Frame / FrameV2             v1 header (magic, command, length, checksum) / BIP324 contents
//	Command(msg)                the command string of a message type
package refwire

import (
	"encoding/base32"
	"errors"
	"fmt"
	"net"
	"strings"

	"verif/ref/reftx"

	"github.com/btcsuite/btcd/wire/v2"
)

// Protocol version breakpoints (from the BIPs / release notes, not from btcd).
const (
	VerMultipleAddress = 209   // addr may carry more than one address
	VerAddrTime        = 31402 // addr entries carry a timestamp
	VerBIP31           = 60000 // ping nonce / pong exist for versions strictly greater
	VerBIP35           = 60002 // mempool
	VerBIP37           = 70001 // filter*, merkleblock, version.relay
	VerReject          = 70002 // reject
	VerSendHeaders     = 70012
	VerFeeFilter       = 70013
	VerAddrV2          = 70016 // sendaddrv2, wtxidrelay
)

// Per-message limits of the protocol.
const (
	MaxInv           = 50000
	MaxHeaders       = 2000
	MaxAddr          = 1000
	MaxLocator       = 500
	MaxFilterAdd     = 520
	MaxFilterLoad    = 36000
	MaxFilterHashFns = 50
	MaxCFilterData   = 256 * 1024
	MaxCFHeaders     = 2000
	MaxCFCheckpt     = 100000
	MaxUserAgent     = 256
	MaxBlockPayload  = 4000000
	MaxProtocolMsg   = 4000000
)

var (
	// ErrNotAtVersion: the message does not exist at the protocol version.
	ErrNotAtVersion = errors.New("refwire: message not defined at this protocol version")
	// ErrDomain: a field value or count is outside what the layout can carry.
	ErrDomain = errors.New("refwire: value outside the protocol domain")
	// ErrUnknownType: not a P2P message type known to the reference.
	ErrUnknownType = errors.New("refwire: unknown message type")
)

// Field is the position of one CompactSize integer inside an encoding.
type Field struct {
	Off, Len int
	Val      uint64
	Kind     string // "count" (number of elements) or "len" (number of bytes that follow)
}

// Encoded is a reference payload.
type Encoded struct {
	Bytes   []byte
	VarInts []Field
}

type emitter struct {
	b []byte
	f []Field
}

func (e *emitter) u8(v byte)      { e.b = append(e.b, v) }
func (e *emitter) u16be(v uint16) { e.b = append(e.b, byte(v>>8), byte(v)) }
func (e *emitter) u32(v uint32) {
	e.b = append(e.b, byte(v), byte(v>>8), byte(v>>16), byte(v>>24))
}
func (e *emitter) u64(v uint64) { e.u32(uint32(v)); e.u32(uint32(v >> 32)) }
func (e *emitter) raw(s []byte) { e.b = append(e.b, s...) }
func (e *emitter) varint(kind string, v uint64) {
	off := len(e.b)
	e.b = reftx.AppendVarInt(e.b, v)
	e.f = append(e.f, Field{Off: off, Len: len(e.b) - off, Val: v, Kind: kind})
}
func (e *emitter) varbytes(s []byte) { e.varint("len", uint64(len(s))); e.raw(s) }
func (e *emitter) varstr(s string)   { e.varint("len", uint64(len(s))); e.raw([]byte(s)) }
func (e *emitter) boolean(v bool) {
	if v {
		e.u8(1)
	} else {
		e.u8(0)
	}
}

// ip16 is the 16-byte form of a legacy address: IPv4 is carried IPv4-mapped, no address is zeros.
func ip16(ip net.IP) ([16]byte, bool) {
	var out [16]byte
	switch len(ip) {
	case 0:
		return out, true
	case 4:
		out[10], out[11] = 0xff, 0xff
		copy(out[12:], ip)
		return out, true
	case 16:
		copy(out[:], ip)
		return out, true
	}
	return out, false
}

// netAddr is the legacy network address: [time u32] services u64, 16-byte IP, port big-endian.
func (e *emitter) netAddr(na *wire.NetAddress, withTime bool) error {
	if withTime {
		ts := na.Timestamp.Unix()
		if ts < 0 || ts > 0xffffffff {
			return ErrDomain
		}
		e.u32(uint32(ts))
	}
	e.u64(uint64(na.Services))
	ip, ok := ip16(na.IP)
	if !ok {
		return ErrDomain
	}
	e.raw(ip[:])
	e.u16be(na.Port)
	return nil
}

// BIP155 network ids and address lengths.
var addrV2Len = map[byte]int{1: 4, 2: 16, 3: 10, 4: 32, 5: 32, 6: 16}

// AddrV2Parts recovers (network id, address bytes) of a wire.NetAddressV2 through the public
// net.Addr interface: Network() is the one-character string of the BIP155 id, String() is the
// textual address (dotted / colon form, or base32 .onion).
func AddrV2Parts(na *wire.NetAddressV2) (byte, []byte, error) {
	if na == nil || na.Addr == nil {
		return 0, nil, ErrDomain
	}
	nw := []rune(na.Addr.Network())
	if len(nw) != 1 || nw[0] > 255 {
		return 0, nil, ErrDomain
	}
	id := byte(nw[0])
	s := na.Addr.String()
	switch id {
	case 1:
		ip := net.ParseIP(s).To4()
		if ip == nil {
			return 0, nil, ErrDomain
		}
		return id, []byte(ip), nil
	case 2:
		ip := net.ParseIP(s)
		if ip == nil {
			return 0, nil, ErrDomain
		}
		return id, []byte(ip.To16()), nil
	case 3, 4:
		if !strings.HasSuffix(s, ".onion") {
			return 0, nil, ErrDomain
		}
		raw, err := base32.StdEncoding.DecodeString(strings.ToUpper(strings.TrimSuffix(s, ".onion")))
		if err != nil {
			return 0, nil, ErrDomain
		}
		if id == 3 && len(raw) == 10 {
			return id, raw, nil
		}
		// v3: 32-byte key, 2-byte checksum, version byte 3
		if id == 4 && len(raw) == 35 && raw[34] == 3 {
			return id, raw[:32], nil
		}
	}
	return 0, nil, ErrDomain
}

func (e *emitter) netAddrV2(na *wire.NetAddressV2) error {
	id, addr, err := AddrV2Parts(na)
	if err != nil {
		return err
	}
	ts := na.Timestamp.Unix()
	if ts < 0 || ts > 0xffffffff {
		return ErrDomain
	}
	e.u32(uint32(ts))
	e.varint("varint", uint64(na.Services))
	e.u8(id)
	e.varbytes(addr)
	e.u16be(na.Port)
	return nil
}

func (e *emitter) header(h *wire.BlockHeader) error {
	ts := h.Timestamp.Unix()
	if ts < 0 || ts > 0xffffffff {
		return ErrDomain
	}
	e.u32(uint32(h.Version))
	e.raw(h.PrevBlock[:])
	e.raw(h.MerkleRoot[:])
	e.u32(uint32(ts))
	e.u32(h.Bits)
	e.u32(h.Nonce)
	return nil
}

// tx writes a transaction (same layout as reftx.Tx.Bytes) while recording CompactSize positions.
func (e *emitter) tx(m *wire.MsgTx, witness bool) {
	t := reftx.FromMsgTx(m)
	ext := witness && t.HasWitness()
	e.u32(uint32(t.Version))
	if ext {
		e.u8(0)
		e.u8(1)
	}
	e.varint("count", uint64(len(t.In)))
	for i := range t.In {
		e.raw(t.In[i].Prev.Hash[:])
		e.u32(t.In[i].Prev.Index)
		e.varbytes(t.In[i].Script)
		e.u32(t.In[i].Sequence)
	}
	e.varint("count", uint64(len(t.Out)))
	for i := range t.Out {
		e.u64(uint64(t.Out[i].Value))
		e.varbytes(t.Out[i].Script)
	}
	if ext {
		for i := range t.In {
			e.varint("count", uint64(len(t.In[i].Witness)))
			for _, it := range t.In[i].Witness {
				e.varbytes(it)
			}
		}
	}
	e.u32(t.LockTime)
}

func (e *emitter) invList(l []*wire.InvVect) error {
	e.varint("count", uint64(len(l)))
	for _, iv := range l {
		if iv == nil {
			return ErrDomain
		}
		e.u32(uint32(iv.Type))
		e.raw(iv.Hash[:])
	}
	return nil
}

var commands = map[string]string{
	"*wire.MsgVersion": "version", "*wire.MsgVerAck": "verack", "*wire.MsgGetAddr": "getaddr",
	"*wire.MsgAddr": "addr", "*wire.MsgAddrV2": "addrv2", "*wire.MsgGetBlocks": "getblocks",
	"*wire.MsgInv": "inv", "*wire.MsgGetData": "getdata", "*wire.MsgNotFound": "notfound",
	"*wire.MsgBlock": "block", "*wire.MsgTx": "tx", "*wire.MsgGetHeaders": "getheaders",
	"*wire.MsgHeaders": "headers", "*wire.MsgPing": "ping", "*wire.MsgPong": "pong",
	"*wire.MsgMemPool": "mempool", "*wire.MsgFilterAdd": "filteradd", "*wire.MsgFilterClear": "filterclear",
	"*wire.MsgFilterLoad": "filterload", "*wire.MsgMerkleBlock": "merkleblock", "*wire.MsgReject": "reject",
	"*wire.MsgSendHeaders": "sendheaders", "*wire.MsgFeeFilter": "feefilter", "*wire.MsgGetCFilters": "getcfilters",
	"*wire.MsgGetCFHeaders": "getcfheaders", "*wire.MsgGetCFCheckpt": "getcfcheckpt", "*wire.MsgCFilter": "cfilter",
	"*wire.MsgCFHeaders": "cfheaders", "*wire.MsgCFCheckpt": "cfcheckpt", "*wire.MsgSendAddrV2": "sendaddrv2",
	"*wire.MsgWTxIdRelay": "wtxidrelay",
}

// Command is the protocol command string of a message value.
func Command(msg wire.Message) (string, bool) {
	c, ok := commands[fmt.Sprintf("%T", msg)]
	return c, ok
}

// Commands lists every command known to the reference.
func Commands() []string {
	var out []string
	for _, c := range commands {
		out = append(out, c)
	}
	return out
}

// DefinedAt reports whether the command exists at the protocol version.
func DefinedAt(cmd string, pver uint32) bool {
	switch cmd {
	case "pong":
		return pver > VerBIP31
	case "mempool":
		return pver >= VerBIP35
	case "filteradd", "filterclear", "filterload", "merkleblock":
		return pver >= VerBIP37
	case "reject":
		return pver >= VerReject
	case "sendheaders":
		return pver >= VerSendHeaders
	case "feefilter":
		return pver >= VerFeeFilter
	case "sendaddrv2", "wtxidrelay":
		return pver >= VerAddrV2
	}
	return true
}

// Encode produces the payload layout of msg at protocol version pver. witness selects the
// BIP144 transaction form for tx and block (ignored by every other message). No limit is
// applied (see CheckDomain); ErrNotAtVersion is returned for messages that do not exist at pver.
func Encode(msg wire.Message, pver uint32, witness bool) (*Encoded, error) {
	cmd, ok := Command(msg)
	if !ok {
		return nil, ErrUnknownType
	}
	if !DefinedAt(cmd, pver) {
		return nil, ErrNotAtVersion
	}
	e := &emitter{}
	var err error
	switch m := msg.(type) {
	case *wire.MsgVersion:
		e.u32(uint32(m.ProtocolVersion))
		e.u64(uint64(m.Services))
		e.u64(uint64(m.Timestamp.Unix()))
		if err = e.netAddr(&m.AddrYou, false); err != nil {
			return nil, err
		}
		if err = e.netAddr(&m.AddrMe, false); err != nil {
			return nil, err
		}
		e.u64(m.Nonce)
		e.varstr(m.UserAgent)
		e.u32(uint32(m.LastBlock))
		if pver >= VerBIP37 {
			e.boolean(!m.DisableRelayTx)
		}
	case *wire.MsgVerAck, *wire.MsgGetAddr, *wire.MsgMemPool, *wire.MsgFilterClear,
		*wire.MsgSendHeaders, *wire.MsgSendAddrV2, *wire.MsgWTxIdRelay:
		// empty payload
	case *wire.MsgAddr:
		e.varint("count", uint64(len(m.AddrList)))
		for _, na := range m.AddrList {
			if na == nil {
				return nil, ErrDomain
			}
			if err = e.netAddr(na, pver >= VerAddrTime); err != nil {
				return nil, err
			}
		}
	case *wire.MsgAddrV2:
		e.varint("count", uint64(len(m.AddrList)))
		for _, na := range m.AddrList {
			if err = e.netAddrV2(na); err != nil {
				return nil, err
			}
		}
	case *wire.MsgGetBlocks:
		e.u32(m.ProtocolVersion)
		e.varint("count", uint64(len(m.BlockLocatorHashes)))
		for _, h := range m.BlockLocatorHashes {
			if h == nil {
				return nil, ErrDomain
			}
			e.raw(h[:])
		}
		e.raw(m.HashStop[:])
	case *wire.MsgGetHeaders:
		e.u32(m.ProtocolVersion)
		e.varint("count", uint64(len(m.BlockLocatorHashes)))
		for _, h := range m.BlockLocatorHashes {
			if h == nil {
				return nil, ErrDomain
			}
			e.raw(h[:])
		}
		e.raw(m.HashStop[:])
	case *wire.MsgInv:
		err = e.invList(m.InvList)
	case *wire.MsgGetData:
		err = e.invList(m.InvList)
	case *wire.MsgNotFound:
		err = e.invList(m.InvList)
	case *wire.MsgTx:
		e.tx(m, witness)
	case *wire.MsgBlock:
		if err = e.header(&m.Header); err != nil {
			return nil, err
		}
		e.varint("count", uint64(len(m.Transactions)))
		for _, t := range m.Transactions {
			if t == nil {
				return nil, ErrDomain
			}
			e.tx(t, witness)
		}
	case *wire.MsgHeaders:
		e.varint("count", uint64(len(m.Headers)))
		for _, h := range m.Headers {
			if h == nil {
				return nil, ErrDomain
			}
			if err = e.header(h); err != nil {
				return nil, err
			}
			e.u8(0) // transaction count, always zero in a headers message
		}
	case *wire.MsgPing:
		if pver > VerBIP31 {
			e.u64(m.Nonce)
		}
	case *wire.MsgPong:
		e.u64(m.Nonce)
	case *wire.MsgFilterAdd:
		e.varbytes(m.Data)
	case *wire.MsgFilterLoad:
		e.varbytes(m.Filter)
		e.u32(m.HashFuncs)
		e.u32(m.Tweak)
		e.u8(byte(m.Flags))
	case *wire.MsgMerkleBlock:
		if err = e.header(&m.Header); err != nil {
			return nil, err
		}
		e.u32(m.Transactions)
		e.varint("count", uint64(len(m.Hashes)))
		for _, h := range m.Hashes {
			if h == nil {
				return nil, ErrDomain
			}
			e.raw(h[:])
		}
		e.varbytes(m.Flags)
	case *wire.MsgReject:
		e.varstr(m.Cmd)
		e.u8(byte(m.Code))
		e.varstr(m.Reason)
		if m.Cmd == "block" || m.Cmd == "tx" {
			e.raw(m.Hash[:])
		}
	case *wire.MsgFeeFilter:
		e.u64(uint64(m.MinFee))
	case *wire.MsgGetCFilters:
		e.u8(byte(m.FilterType))
		e.u32(m.StartHeight)
		e.raw(m.StopHash[:])
	case *wire.MsgGetCFHeaders:
		e.u8(byte(m.FilterType))
		e.u32(m.StartHeight)
		e.raw(m.StopHash[:])
	case *wire.MsgGetCFCheckpt:
		e.u8(byte(m.FilterType))
		e.raw(m.StopHash[:])
	case *wire.MsgCFilter:
		e.u8(byte(m.FilterType))
		e.raw(m.BlockHash[:])
		e.varbytes(m.Data)
	case *wire.MsgCFHeaders:
		e.u8(byte(m.FilterType))
		e.raw(m.StopHash[:])
		e.raw(m.PrevFilterHeader[:])
		e.varint("count", uint64(len(m.FilterHashes)))
		for _, h := range m.FilterHashes {
			if h == nil {
				return nil, ErrDomain
			}
			e.raw(h[:])
		}
	case *wire.MsgCFCheckpt:
		e.u8(byte(m.FilterType))
		e.raw(m.StopHash[:])
		e.varint("count", uint64(len(m.FilterHeaders)))
		for _, h := range m.FilterHeaders {
			if h == nil {
				return nil, ErrDomain
			}
			e.raw(h[:])
		}
	default:
		return nil, ErrUnknownType
	}
	if err != nil {
		return nil, err
	}
	if e.b == nil {
		e.b = []byte{}
	}
	return &Encoded{Bytes: e.b, VarInts: e.f}, nil
}

// CheckDomain reports whether the protocol defines an encoding for msg at pver: the message
// exists at that version, its counts and lengths are within the per-message limits, and its
// payload fits the general message-size limit.
func CheckDomain(msg wire.Message, pver uint32) error {
	cmd, ok := Command(msg)
	if !ok {
		return ErrUnknownType
	}
	if !DefinedAt(cmd, pver) {
		return ErrNotAtVersion
	}
	over := func(n, max int) error {
		if n > max {
			return ErrDomain
		}
		return nil
	}
	var err error
	switch m := msg.(type) {
	case *wire.MsgVersion:
		err = over(len(m.UserAgent), MaxUserAgent)
	case *wire.MsgAddr:
		err = over(len(m.AddrList), MaxAddr)
		if pver < VerMultipleAddress && len(m.AddrList) > 1 {
			err = ErrDomain
		}
	case *wire.MsgAddrV2:
		err = over(len(m.AddrList), MaxAddr)
	case *wire.MsgGetBlocks:
		err = over(len(m.BlockLocatorHashes), MaxLocator)
	case *wire.MsgGetHeaders:
		err = over(len(m.BlockLocatorHashes), MaxLocator)
	case *wire.MsgInv:
		err = over(len(m.InvList), MaxInv)
	case *wire.MsgGetData:
		err = over(len(m.InvList), MaxInv)
	case *wire.MsgNotFound:
		err = over(len(m.InvList), MaxInv)
	case *wire.MsgHeaders:
		err = over(len(m.Headers), MaxHeaders)
	case *wire.MsgFilterAdd:
		err = over(len(m.Data), MaxFilterAdd)
	case *wire.MsgFilterLoad:
		err = over(len(m.Filter), MaxFilterLoad)
		if m.HashFuncs > MaxFilterHashFns {
			err = ErrDomain
		}
	case *wire.MsgCFilter:
		err = over(len(m.Data), MaxCFilterData)
	case *wire.MsgCFHeaders:
		err = over(len(m.FilterHashes), MaxCFHeaders)
	case *wire.MsgCFCheckpt:
		err = over(len(m.FilterHeaders), MaxCFCheckpt)
	}
	if err != nil {
		return err
	}
	e, err := Encode(msg, pver, true)
	if err != nil {
		return err
	}
	if len(e.Bytes) > MaxProtocolMsg {
		return ErrDomain
	}
	return nil
}

// Frame builds a v1 P2P message: magic (little endian), 12-byte NUL-padded command, payload
// length, first four bytes of the double-SHA256 of the payload, payload.
func Frame(magic uint32, command string, payload []byte) []byte {
	e := &emitter{}
	e.u32(magic)
	var c [12]byte
	copy(c[:], command)
	e.raw(c[:])
	e.u32(uint32(len(payload)))
	sum := reftx.DoubleSHA256(payload)
	e.raw(sum[:4])
	e.raw(payload)
	return e.b
}

// BIP324 short message type ids.
var shortIDs = map[string]byte{
	"addr": 1, "block": 2, "blocktxn": 3, "cmpctblock": 4, "feefilter": 5, "filteradd": 6,
	"filterclear": 7, "filterload": 8, "getblocks": 9, "getblocktxn": 10, "getdata": 11,
	"getheaders": 12, "headers": 13, "inv": 14, "mempool": 15, "merkleblock": 16, "notfound": 17,
	"ping": 18, "pong": 19, "sendcmpct": 20, "tx": 21, "getcfilters": 22, "cfilter": 23,
	"getcfheaders": 24, "cfheaders": 25, "getcfcheckpt": 26, "cfcheckpt": 27, "addrv2": 28,
}

// ShortID returns the BIP324 one-byte id of a command (0, false if it has none).
func ShortID(command string) (byte, bool) {
	id, ok := shortIDs[command]
	return id, ok
}

// FrameV2 builds the BIP324 packet *contents*: a one-byte short id, or a zero byte followed by
// the 12-byte NUL-padded command, then the payload.
func FrameV2(command string, payload []byte) []byte {
	var out []byte
	if id, ok := shortIDs[command]; ok {
		out = append(out, id)
	} else {
		var c [12]byte
		copy(c[:], command)
		out = append(out, 0)
		out = append(out, c[:]...)
	}
	return append(out, payload...)
}
