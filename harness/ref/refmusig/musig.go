// Package refmusig is the framework's independent reference model of BIP327 (MuSig2):
// KeySort, KeyAgg (with the second-key coefficient), ApplyTweak (plain and x-only),
// NonceGen, NonceAgg, Sign, PartialSigVerify and PartialSigAgg, written from the BIP's
// pseudocode on top of verif/ref/refec (math/big, affine points). It shares no code with
// btcd. Byte-level interface throughout: public keys are 33-byte "plain" keys, nonces are
// 66 bytes, secret nonces 97 bytes, partial signatures 32 bytes, final signatures 64.
package refmusig

import (
	"bytes"
	"errors"
	"fmt"
	"math/big"
	"sort"

	"verif/ref/refec"
)

var one = big.NewInt(1)

func modN(v *big.Int) *big.Int { return v.Mod(v, refec.N) }

// cpoint decodes a 33-byte compressed point (prefix 02/03); infinity is not encodable.
func cpoint(b []byte) (refec.Point, error) {
	if len(b) != 33 {
		return refec.Point{}, errors.New("refmusig: point encoding is not 33 bytes")
	}
	return refec.ParsePubKey(b)
}

// cpointExt additionally decodes 33 zero bytes as the point at infinity.
func cpointExt(b []byte) (refec.Point, error) {
	if len(b) == 33 && bytes.Equal(b, make([]byte, 33)) {
		return refec.Infinity(), nil
	}
	return cpoint(b)
}

func cbytesExt(p refec.Point) []byte {
	if p.Inf {
		return make([]byte, 33)
	}
	return p.Compressed()
}

// KeySort returns the keys in lexicographic order (a new slice).
func KeySort(pks [][]byte) [][]byte {
	out := make([][]byte, len(pks))
	copy(out, pks)
	sort.SliceStable(out, func(i, j int) bool { return bytes.Compare(out[i], out[j]) < 0 })
	return out
}

// KeyAggCtx is BIP327's keyagg_ctx: the aggregate point Q and the two accumulators.
type KeyAggCtx struct {
	Q    refec.Point
	Gacc *big.Int // 1 or N-1
	Tacc *big.Int // accumulated tweak
}

// hashKeys is HashKeys: hash_KeyAgg list(pk_1 || ... || pk_u).
func hashKeys(pks [][]byte) []byte {
	h := refec.TaggedHash("KeyAgg list", pks...)
	return h[:]
}

// secondKey is GetSecondKey: the first key different from pk_1, or 33 zero bytes.
func secondKey(pks [][]byte) []byte {
	for _, pk := range pks {
		if !bytes.Equal(pk, pks[0]) {
			return pk
		}
	}
	return make([]byte, 33)
}

// KeyAggCoeff is KeyAggCoeff(pk_1..u, pk'): 1 for the second distinct key, otherwise
// int(hash_KeyAgg coefficient(L || pk')) mod N.
func KeyAggCoeff(pks [][]byte, pk []byte) *big.Int {
	if bytes.Equal(pk, secondKey(pks)) {
		return big.NewInt(1)
	}
	h := refec.TaggedHash("KeyAgg coefficient", hashKeys(pks), pk)
	return modN(refec.Int(h[:]))
}

// KeyAgg aggregates 1..u plain public keys in the order given.
func KeyAgg(pks [][]byte) (*KeyAggCtx, error) {
	if len(pks) == 0 {
		return nil, errors.New("refmusig: no keys")
	}
	Q := refec.Infinity()
	for i, pk := range pks {
		Pi, err := cpoint(pk)
		if err != nil {
			return nil, fmt.Errorf("refmusig: invalid public key of signer %d: %w", i, err)
		}
		Q = refec.Add(Q, refec.Mul(KeyAggCoeff(pks, pk), Pi))
	}
	if Q.Inf {
		return nil, errors.New("refmusig: aggregate key is infinity")
	}
	return &KeyAggCtx{Q: Q, Gacc: big.NewInt(1), Tacc: big.NewInt(0)}, nil
}

// Errors of ApplyTweak.
var (
	ErrTweakRange    = errors.New("refmusig: tweak >= N")
	ErrTweakInfinity = errors.New("refmusig: tweaked key is infinity")
)

// ApplyTweak is BIP327 ApplyTweak: g = N-1 if xonly and Q has odd y, else 1;
// Q' = g*Q + t*G; gacc' = g*gacc; tacc' = t + g*tacc.
func (c *KeyAggCtx) ApplyTweak(tweak []byte, xonly bool) (*KeyAggCtx, error) {
	if len(tweak) != 32 {
		return nil, errors.New("refmusig: tweak is not 32 bytes")
	}
	g := big.NewInt(1)
	if xonly && !refec.HasEvenY(c.Q) {
		g = new(big.Int).Sub(refec.N, one)
	}
	t := refec.Int(tweak)
	if t.Cmp(refec.N) >= 0 {
		return nil, ErrTweakRange
	}
	Q := refec.Add(refec.Mul(g, c.Q), refec.MulG(t))
	if Q.Inf {
		return nil, ErrTweakInfinity
	}
	gacc := modN(new(big.Int).Mul(g, c.Gacc))
	tacc := modN(new(big.Int).Add(t, new(big.Int).Mul(g, c.Tacc)))
	return &KeyAggCtx{Q: Q, Gacc: gacc, Tacc: tacc}, nil
}

// KeyAggTweaked is KeyAgg followed by the tweak chain.
func KeyAggTweaked(pks [][]byte, tweaks [][]byte, xonly []bool) (*KeyAggCtx, error) {
	c, err := KeyAgg(pks)
	if err != nil {
		return nil, err
	}
	for i := range tweaks {
		if c, err = c.ApplyTweak(tweaks[i], xonly[i]); err != nil {
			return nil, err
		}
	}
	return c, nil
}

// NonceGen is BIP327 NonceGen with the 32 random bytes supplied by the caller. sk, aggpk
// (32-byte x-only), msg and extra are optional: pass nil to omit (msg == nil means "no
// message", an empty non-nil msg is a present message of length 0).
func NonceGen(rand32, sk, pk, aggpk, msg, extra []byte) (secnonce, pubnonce []byte, err error) {
	if len(rand32) != 32 || len(pk) != 33 {
		return nil, nil, errors.New("refmusig: NonceGen needs 32 random bytes and a 33-byte pk")
	}
	rnd := append([]byte{}, rand32...)
	if sk != nil {
		h := refec.TaggedHash("MuSig/aux", rand32)
		for i := range rnd {
			rnd[i] = sk[i] ^ h[i]
		}
	}
	var mp []byte
	if msg == nil {
		mp = []byte{0}
	} else {
		mp = append([]byte{1}, be(uint64(len(msg)), 8)...)
		mp = append(mp, msg...)
	}
	var ks [2]*big.Int
	for i := 0; i < 2; i++ {
		h := refec.TaggedHash("MuSig/nonce", rnd, []byte{byte(len(pk))}, pk, []byte{byte(len(aggpk))}, aggpk,
			mp, be(uint64(len(extra)), 4), extra, []byte{byte(i)})
		ks[i] = modN(refec.Int(h[:]))
		if ks[i].Sign() == 0 {
			return nil, nil, errors.New("refmusig: zero nonce")
		}
	}
	pubnonce = append(refec.MulG(ks[0]).Compressed(), refec.MulG(ks[1]).Compressed()...)
	secnonce = append(append(refec.Bytes32(ks[0]), refec.Bytes32(ks[1])...), pk...)
	return secnonce, pubnonce, nil
}

func be(v uint64, n int) []byte {
	b := make([]byte, n)
	for i := n - 1; i >= 0; i-- {
		b[i] = byte(v)
		v >>= 8
	}
	return b
}

// NonceAggError names the signer whose public nonce is invalid.
type NonceAggError struct{ Signer int }

func (e *NonceAggError) Error() string {
	return fmt.Sprintf("refmusig: invalid public nonce of signer %d", e.Signer)
}

// NonceAgg is BIP327 NonceAgg: every pubnonce is two cpoint-decodable points (infinity is
// not an admissible contribution); the two sums are encoded with cbytes_ext.
func NonceAgg(pubnonces [][]byte) ([]byte, error) {
	var out []byte
	for j := 0; j < 2; j++ {
		R := refec.Infinity()
		for i, pn := range pubnonces {
			if len(pn) != 66 {
				return nil, &NonceAggError{i}
			}
			Rij, err := cpoint(pn[j*33 : (j+1)*33])
			if err != nil {
				return nil, &NonceAggError{i}
			}
			R = refec.Add(R, Rij)
		}
		out = append(out, cbytesExt(R)...)
	}
	return out, nil
}

// Session is BIP327's session_ctx.
type Session struct {
	AggNonce []byte   // 66 bytes
	PubKeys  [][]byte // plain keys, in aggregation order
	Tweaks   [][]byte // 32 bytes each
	IsXOnly  []bool
	Msg      []byte
}

// Values is what GetSessionValues returns.
type Values struct {
	Q          refec.Point
	Gacc, Tacc *big.Int
	B          *big.Int    // nonce coefficient
	R          refec.Point // final nonce (G if the combination is infinity)
	RInf       bool        // the combination R1 + b*R2 was infinity (some signer is dishonest; the final signature cannot be valid)
	E          *big.Int    // challenge
}

// Values is BIP327 GetSessionValues.
func (s *Session) Values() (*Values, error) {
	kc, err := KeyAggTweaked(s.PubKeys, s.Tweaks, s.IsXOnly)
	if err != nil {
		return nil, err
	}
	return s.ValuesFrom(kc)
}

// ValuesFrom is Values with the (tweaked) key aggregation of s.PubKeys/s.Tweaks already done.
func (s *Session) ValuesFrom(kc *KeyAggCtx) (*Values, error) {
	if len(s.AggNonce) != 66 {
		return nil, errors.New("refmusig: aggnonce is not 66 bytes")
	}
	bh := refec.TaggedHash("MuSig/noncecoef", s.AggNonce, kc.Q.XOnly(), s.Msg)
	b := modN(refec.Int(bh[:]))
	R1, err := cpointExt(s.AggNonce[:33])
	if err != nil {
		return nil, errors.New("refmusig: invalid aggnonce (first point)")
	}
	R2, err := cpointExt(s.AggNonce[33:])
	if err != nil {
		return nil, errors.New("refmusig: invalid aggnonce (second point)")
	}
	R := refec.Add(R1, refec.Mul(b, R2))
	rInf := R.Inf
	if rInf {
		R = refec.G()
	}
	e := refec.SchnorrChallenge(R.XOnly(), kc.Q.XOnly(), s.Msg)
	return &Values{Q: kc.Q, Gacc: kc.Gacc, Tacc: kc.Tacc, B: b, R: R, RInf: rInf, E: e}, nil
}

func (s *Session) hasKey(pk []byte) bool {
	for _, k := range s.PubKeys {
		if bytes.Equal(k, pk) {
			return true
		}
	}
	return false
}

// Sign is BIP327 Sign (without the optional final self-verification): returns the 32-byte
// partial signature of the signer owning secnonce (k1 || k2 || pk) and sk.
func Sign(secnonce, sk []byte, s *Session) ([]byte, error) {
	v, err := s.Values()
	if err != nil {
		return nil, err
	}
	return SignV(secnonce, sk, s, v)
}

// SignV is Sign with the session values already computed by s.Values() (they are expensive
// in this model; s must not have been modified in between).
func SignV(secnonce, sk []byte, s *Session, v *Values) ([]byte, error) {
	if len(secnonce) != 97 || len(sk) != 32 {
		return nil, errors.New("refmusig: bad secnonce or secret key length")
	}
	k1, k2 := refec.Int(secnonce[:32]), refec.Int(secnonce[32:64])
	if k1.Sign() == 0 || k2.Sign() == 0 || k1.Cmp(refec.N) >= 0 || k2.Cmp(refec.N) >= 0 {
		return nil, errors.New("refmusig: secnonce value out of range")
	}
	if !refec.HasEvenY(v.R) {
		k1 = new(big.Int).Sub(refec.N, k1)
		k2 = new(big.Int).Sub(refec.N, k2)
	}
	d0 := refec.Int(sk)
	if d0.Sign() == 0 || d0.Cmp(refec.N) >= 0 {
		return nil, errors.New("refmusig: secret key out of range")
	}
	pk := refec.MulG(d0).Compressed()
	if !bytes.Equal(pk, secnonce[64:]) {
		return nil, errors.New("refmusig: secnonce belongs to another public key")
	}
	if !s.hasKey(pk) {
		return nil, errors.New("refmusig: signer's key is not in the key list")
	}
	a := KeyAggCoeff(s.PubKeys, pk)
	g := big.NewInt(1)
	if !refec.HasEvenY(v.Q) {
		g = new(big.Int).Sub(refec.N, one)
	}
	d := modN(new(big.Int).Mul(new(big.Int).Mul(g, v.Gacc), d0))
	sv := new(big.Int).Mul(v.E, a)
	sv.Mul(sv, d)
	sv.Add(sv, k1)
	sv.Add(sv, new(big.Int).Mul(v.B, k2))
	return refec.Bytes32(modN(sv)), nil
}

// PartialSigVerifyInternal is BIP327 PartialSigVerifyInternal: s < N and
// s*G == Re* + (e*a*g*gacc)*P, with Re* the signer's effective nonce (negated when the
// final nonce R has odd y). Any malformed input yields false.
func PartialSigVerifyInternal(psig, pubnonce, pk []byte, s *Session) bool {
	v, err := s.Values()
	if err != nil {
		return false
	}
	return PartialSigVerifyV(psig, pubnonce, pk, s, v)
}

// PartialSigVerifyV is PartialSigVerifyInternal with precomputed session values.
func PartialSigVerifyV(psig, pubnonce, pk []byte, s *Session, v *Values) bool {
	if len(psig) != 32 || len(pubnonce) != 66 {
		return false
	}
	sv := refec.Int(psig)
	if sv.Cmp(refec.N) >= 0 {
		return false
	}
	R1, err1 := cpoint(pubnonce[:33])
	R2, err2 := cpoint(pubnonce[33:])
	Pt, err3 := cpoint(pk)
	if err1 != nil || err2 != nil || err3 != nil || !s.hasKey(pk) {
		return false
	}
	Re := refec.Add(R1, refec.Mul(v.B, R2))
	if !refec.HasEvenY(v.R) {
		Re = refec.Neg(Re)
	}
	a := KeyAggCoeff(s.PubKeys, pk)
	g := big.NewInt(1)
	if !refec.HasEvenY(v.Q) {
		g = new(big.Int).Sub(refec.N, one)
	}
	c := new(big.Int).Mul(v.E, a)
	c.Mul(c, g)
	c.Mul(c, v.Gacc)
	return refec.Equal(refec.MulG(sv), refec.Add(Re, refec.Mul(modN(c), Pt)))
}

// PartialSigVerify is BIP327 PartialSigVerify for signer i: the aggregate nonce is
// recomputed from all public nonces.
func PartialSigVerify(psig []byte, pubnonces, pks, tweaks [][]byte, xonly []bool, msg []byte, i int) bool {
	agg, err := NonceAgg(pubnonces)
	if err != nil {
		return false
	}
	s := &Session{AggNonce: agg, PubKeys: pks, Tweaks: tweaks, IsXOnly: xonly, Msg: msg}
	return PartialSigVerifyInternal(psig, pubnonces[i], pks[i], s)
}

// PartialSigAgg is BIP327 PartialSigAgg: s = sum(s_i) + e*g*tacc mod N; sig = xbytes(R) || s.
func PartialSigAgg(psigs [][]byte, s *Session) ([]byte, error) {
	v, err := s.Values()
	if err != nil {
		return nil, err
	}
	return PartialSigAggV(psigs, v)
}

// PartialSigAggV is PartialSigAgg with precomputed session values.
func PartialSigAggV(psigs [][]byte, v *Values) ([]byte, error) {
	sum := new(big.Int)
	for i, ps := range psigs {
		si := refec.Int(ps)
		if len(ps) != 32 || si.Cmp(refec.N) >= 0 {
			return nil, fmt.Errorf("refmusig: invalid partial signature of signer %d", i)
		}
		sum.Add(sum, si)
	}
	g := big.NewInt(1)
	if !refec.HasEvenY(v.Q) {
		g = new(big.Int).Sub(refec.N, one)
	}
	t := new(big.Int).Mul(v.E, g)
	t.Mul(t, v.Tacc)
	sum.Add(sum, t)
	return append(v.R.XOnly(), refec.Bytes32(modN(sum))...), nil
}
