package refaddr

import (
	"errors"
	"strings"
)

const bech32Charset = "qpzry9x8gf2tvdw0s3jn54khce6mua7l"

// Spec distinguishes the two checksum constants.
type Spec int

const (
	Bech32  Spec = 1 // BIP173, constant 1
	Bech32m Spec = 2 // BIP350, constant 0x2bc830a3
)

func (s Spec) constant() uint32 {
	if s == Bech32m {
		return 0x2bc830a3
	}
	return 1
}

func bech32Polymod(values []byte) uint32 {
	gen := [5]uint32{0x3b6a57b2, 0x26508e6d, 0x1ea119fa, 0x3d4233dd, 0x2a1462b3}
	chk := uint32(1)
	for _, v := range values {
		b := chk >> 25
		chk = (chk&0x1ffffff)<<5 ^ uint32(v)
		for i := 0; i < 5; i++ {
			if (b>>uint(i))&1 == 1 {
				chk ^= gen[i]
			}
		}
	}
	return chk
}

func hrpExpand(hrp string) []byte {
	out := make([]byte, 0, 2*len(hrp)+1)
	for i := 0; i < len(hrp); i++ {
		out = append(out, hrp[i]>>5)
	}
	out = append(out, 0)
	for i := 0; i < len(hrp); i++ {
		out = append(out, hrp[i]&31)
	}
	return out
}

// Bech32Encode builds hrp || "1" || data || checksum (data are 5-bit values). The HRP is used as given
// (callers pass lower case).
func Bech32Encode(hrp string, data []byte, spec Spec) string {
	values := append(hrpExpand(hrp), data...)
	pm := bech32Polymod(append(values, 0, 0, 0, 0, 0, 0)) ^ spec.constant()
	var sb strings.Builder
	sb.WriteString(hrp)
	sb.WriteByte('1')
	for _, d := range data {
		sb.WriteByte(bech32Charset[d])
	}
	for i := 0; i < 6; i++ {
		sb.WriteByte(bech32Charset[(pm>>uint(5*(5-i)))&31])
	}
	return sb.String()
}

var (
	ErrBech32Char      = errors.New("refaddr: bech32 character out of range 33..126")
	ErrBech32MixedCase = errors.New("refaddr: bech32 mixed case")
	ErrBech32Length    = errors.New("refaddr: bech32 string longer than 90 characters")
	ErrBech32Separator = errors.New("refaddr: bech32 separator missing or misplaced")
	ErrBech32DataChar  = errors.New("refaddr: bech32 data character outside the charset")
	ErrBech32Checksum  = errors.New("refaddr: bech32 checksum invalid")
)

// Bech32Decode validates a Bech32/Bech32m string per BIP173 ("Bech32" section) and BIP350 and returns the
// lower-case HRP, the 5-bit data values without the checksum and which checksum constant verified.
func Bech32Decode(s string) (hrp string, data []byte, spec Spec, err error) {
	lower, upper := false, false
	for i := 0; i < len(s); i++ {
		c := s[i]
		if c < 33 || c > 126 {
			return "", nil, 0, ErrBech32Char
		}
		if c >= 'a' && c <= 'z' {
			lower = true
		}
		if c >= 'A' && c <= 'Z' {
			upper = true
		}
	}
	if lower && upper {
		return "", nil, 0, ErrBech32MixedCase
	}
	if len(s) > 90 {
		return "", nil, 0, ErrBech32Length
	}
	s = strings.ToLower(s)
	pos := strings.LastIndexByte(s, '1')
	if pos < 1 || pos+7 > len(s) {
		return "", nil, 0, ErrBech32Separator
	}
	hrp = s[:pos]
	for i := pos + 1; i < len(s); i++ {
		d := strings.IndexByte(bech32Charset, s[i])
		if d < 0 {
			return "", nil, 0, ErrBech32DataChar
		}
		data = append(data, byte(d))
	}
	switch bech32Polymod(append(hrpExpand(hrp), data...)) {
	case Bech32.constant():
		spec = Bech32
	case Bech32m.constant():
		spec = Bech32m
	default:
		return "", nil, 0, ErrBech32Checksum
	}
	return hrp, data[:len(data)-6], spec, nil
}

// ConvertBits regroups bit groups (BIP173 "convertbits"). With pad false, leftover bits must number fewer than
// frombits and be zero.
func ConvertBits(data []byte, frombits, tobits uint, pad bool) ([]byte, bool) {
	acc, bits := uint32(0), uint(0)
	maxv := uint32(1)<<tobits - 1
	var out []byte
	for _, v := range data {
		if uint32(v)>>frombits != 0 {
			return nil, false
		}
		acc = acc<<frombits | uint32(v)
		bits += frombits
		for bits >= tobits {
			bits -= tobits
			out = append(out, byte(acc>>bits&maxv))
		}
	}
	if pad {
		if bits > 0 {
			out = append(out, byte(acc<<(tobits-bits)&maxv))
		}
	} else if bits >= frombits || acc<<(tobits-bits)&maxv != 0 {
		return nil, false
	}
	return out, true
}

var (
	ErrSegwitEmpty   = errors.New("refaddr: segwit address without witness version")
	ErrSegwitVersion = errors.New("refaddr: witness version above 16")
	ErrSegwitPadding = errors.New("refaddr: invalid 5-to-8 bit regrouping")
	ErrSegwitLength  = errors.New("refaddr: witness program length outside 2..40 (or not 20/32 for version 0)")
	ErrSegwitSpec    = errors.New("refaddr: checksum variant does not match the witness version")
)

// SegwitDecode applies the BIP173 "Segwit address format" decoding rules with the BIP350 amendment to a string:
// it returns the lower-case HRP, witness version and witness program. The caller compares the HRP.
func SegwitDecode(s string) (hrp string, version byte, program []byte, err error) {
	hrp, data, spec, err := Bech32Decode(s)
	if err != nil {
		return "", 0, nil, err
	}
	if len(data) < 1 {
		return "", 0, nil, ErrSegwitEmpty
	}
	if data[0] > 16 {
		return "", 0, nil, ErrSegwitVersion
	}
	prog, ok := ConvertBits(data[1:], 5, 8, false)
	if !ok {
		return "", 0, nil, ErrSegwitPadding
	}
	if len(prog) < 2 || len(prog) > 40 {
		return "", 0, nil, ErrSegwitLength
	}
	if data[0] == 0 && len(prog) != 20 && len(prog) != 32 {
		return "", 0, nil, ErrSegwitLength
	}
	if data[0] == 0 && spec != Bech32 || data[0] != 0 && spec != Bech32m {
		return "", 0, nil, ErrSegwitSpec
	}
	return hrp, data[0], prog, nil
}

// SegwitEncode encodes a witness program: Bech32 for version 0, Bech32m for versions 1..16.
func SegwitEncode(hrp string, version byte, program []byte) string {
	d, _ := ConvertBits(program, 8, 5, true)
	spec := Bech32m
	if version == 0 {
		spec = Bech32
	}
	return Bech32Encode(strings.ToLower(hrp), append([]byte{version}, d...), spec)
}

// SegwitScript is the scriptPubKey of a witness program: OP_n followed by a direct push of the program.
func SegwitScript(version byte, program []byte) []byte {
	op := byte(0)
	if version > 0 {
		op = 0x50 + version
	}
	return append([]byte{op, byte(len(program))}, program...)
}
