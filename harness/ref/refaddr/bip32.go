package refaddr

import (
	"crypto/hmac"
	"crypto/sha512"
	"errors"
	"math/big"

	"verif/ref/refec"
)

// ExtKey is a BIP32 extended key. Priv is nil for public keys.
type ExtKey struct {
	Version   [4]byte
	Depth     byte
	ParentFP  [4]byte
	ChildNum  uint32
	ChainCode [32]byte
	Priv      *big.Int    // 0 < Priv < n, nil for extended public keys
	Pub       refec.Point // always set
}

const Hardened = 0x80000000

var (
	ErrBIP32InvalidKey     = errors.New("refaddr: derived key is invalid (IL >= n, zero key or point at infinity)")
	ErrBIP32HardenedPublic = errors.New("refaddr: hardened child of a public key")
	ErrBIP32Depth          = errors.New("refaddr: depth overflow")
	ErrBIP32Format         = errors.New("refaddr: malformed extended key serialization")
)

func hmac512(key []byte, data ...[]byte) []byte {
	m := hmac.New(sha512.New, key)
	for _, d := range data {
		m.Write(d)
	}
	return m.Sum(nil)
}

func ser32(i uint32) []byte { return []byte{byte(i >> 24), byte(i >> 16), byte(i >> 8), byte(i)} }

// Master is BIP32 "Master key generation": I = HMAC-SHA512("Bitcoin seed", seed).
func Master(seed []byte, privVersion [4]byte) (*ExtKey, error) {
	i := hmac512([]byte("Bitcoin seed"), seed)
	k := new(big.Int).SetBytes(i[:32])
	if k.Sign() == 0 || k.Cmp(refec.N) >= 0 {
		return nil, ErrBIP32InvalidKey
	}
	e := &ExtKey{Version: privVersion, Priv: k, Pub: refec.MulG(k)}
	copy(e.ChainCode[:], i[32:])
	return e, nil
}

// Fingerprint is the first 32 bits of HASH160(serP(K)).
func (e *ExtKey) Fingerprint() (fp [4]byte) {
	copy(fp[:], Hash160(e.Pub.Compressed()))
	return
}

// Child is CKDpriv for private keys and CKDpub for public keys. pubVersion is unused here: the child
// keeps the parent's version bytes.
func (e *ExtKey) Child(i uint32) (*ExtKey, error) {
	if e.Depth == 255 {
		return nil, ErrBIP32Depth
	}
	var I []byte
	switch {
	case i >= Hardened && e.Priv == nil:
		return nil, ErrBIP32HardenedPublic
	case i >= Hardened:
		I = hmac512(e.ChainCode[:], []byte{0}, refec.Bytes32(e.Priv), ser32(i))
	default:
		I = hmac512(e.ChainCode[:], e.Pub.Compressed(), ser32(i))
	}
	il := new(big.Int).SetBytes(I[:32])
	if il.Cmp(refec.N) >= 0 {
		return nil, ErrBIP32InvalidKey
	}
	c := &ExtKey{Version: e.Version, Depth: e.Depth + 1, ParentFP: e.Fingerprint(), ChildNum: i}
	copy(c.ChainCode[:], I[32:])
	if e.Priv != nil {
		k := new(big.Int).Add(il, e.Priv)
		k.Mod(k, refec.N)
		if k.Sign() == 0 {
			return nil, ErrBIP32InvalidKey
		}
		c.Priv = k
		c.Pub = refec.MulG(k)
	} else {
		p := refec.Add(refec.MulG(il), e.Pub)
		if p.Inf {
			return nil, ErrBIP32InvalidKey
		}
		c.Pub = p
	}
	return c, nil
}

// Neuter is BIP32's N((k, c)) = (point(k), c) with the given public version bytes.
func (e *ExtKey) Neuter(pubVersion [4]byte) *ExtKey {
	c := *e
	c.Priv = nil
	c.Version = pubVersion
	return &c
}

// Serialize returns the 78-byte BIP32 serialization.
func (e *ExtKey) Serialize() []byte {
	b := append([]byte{}, e.Version[:]...)
	b = append(b, e.Depth)
	b = append(b, e.ParentFP[:]...)
	b = append(b, ser32(e.ChildNum)...)
	b = append(b, e.ChainCode[:]...)
	if e.Priv != nil {
		b = append(b, 0)
		b = append(b, refec.Bytes32(e.Priv)...)
	} else {
		b = append(b, e.Pub.Compressed()...)
	}
	return b
}

// String is the Base58Check form (xprv.../xpub...).
func (e *ExtKey) String() string { return Base58CheckRaw(e.Serialize()) }

// ParseExtKey decodes an extended key string. isPrivate tells how to read the key field: a private key is
// 0x00 || k with 0 < k < n, a public key a compressed point on the curve (BIP32 "Serialization format").
func ParseExtKey(s string) (*ExtKey, error) {
	b, err := Base58CheckRawDecode(s)
	if err != nil {
		return nil, err
	}
	if len(b) != 78 {
		return nil, ErrBIP32Format
	}
	e := &ExtKey{Depth: b[4]}
	copy(e.Version[:], b[0:4])
	copy(e.ParentFP[:], b[5:9])
	e.ChildNum = uint32(b[9])<<24 | uint32(b[10])<<16 | uint32(b[11])<<8 | uint32(b[12])
	copy(e.ChainCode[:], b[13:45])
	key := b[45:78]
	switch key[0] {
	case 0:
		k := new(big.Int).SetBytes(key[1:])
		if k.Sign() == 0 || k.Cmp(refec.N) >= 0 {
			return nil, ErrBIP32InvalidKey
		}
		e.Priv = k
		e.Pub = refec.MulG(k)
	case 2, 3:
		p, err := refec.ParsePubKey(key)
		if err != nil {
			return nil, ErrBIP32InvalidKey
		}
		e.Pub = p
	default:
		return nil, ErrBIP32Format
	}
	return e, nil
}

// WIFEncode is Base58Check(version, key32 [|| 0x01]).
func WIFEncode(version byte, key []byte, compressed bool) string {
	p := append([]byte{}, key...)
	if compressed {
		p = append(p, 1)
	}
	return Base58CheckEncode(version, p)
}

var ErrWIF = errors.New("refaddr: malformed WIF")

// WIFDecode returns the version byte, the 32-byte key and the compression flag; the key must be in [1, n-1].
func WIFDecode(s string) (version byte, key []byte, compressed bool, err error) {
	v, p, err := Base58CheckDecode(s)
	if err != nil {
		return 0, nil, false, err
	}
	switch {
	case len(p) == 32:
	case len(p) == 33 && p[32] == 1:
		compressed = true
	default:
		return 0, nil, false, ErrWIF
	}
	k := new(big.Int).SetBytes(p[:32])
	if k.Sign() == 0 || k.Cmp(refec.N) >= 0 {
		return 0, nil, false, ErrWIF
	}
	return v, p[:32], compressed, nil
}

// ChildPrivScalar returns only the private scalar of child i of a private key (no point multiplication),
// or nil when the child is invalid. It lets a generator search for children with special scalars.
func (e *ExtKey) ChildPrivScalar(i uint32) *big.Int {
	if e.Priv == nil {
		return nil
	}
	var I []byte
	if i >= Hardened {
		I = hmac512(e.ChainCode[:], []byte{0}, refec.Bytes32(e.Priv), ser32(i))
	} else {
		I = hmac512(e.ChainCode[:], e.Pub.Compressed(), ser32(i))
	}
	il := new(big.Int).SetBytes(I[:32])
	if il.Cmp(refec.N) >= 0 {
		return nil
	}
	k := new(big.Int).Add(il, e.Priv)
	k.Mod(k, refec.N)
	if k.Sign() == 0 {
		return nil
	}
	return k
}
