package refaddr

import (
	"bytes"
	"errors"
	"math/big"

	"verif/ref/refec"
)

func compactSize(n int) []byte {
	switch {
	case n < 0xfd:
		return []byte{byte(n)}
	case n <= 0xffff:
		return []byte{0xfd, byte(n), byte(n >> 8)}
	default:
		return []byte{0xfe, byte(n), byte(n >> 8), byte(n >> 16), byte(n >> 24)}
	}
}

// TapLeafHash is hash_TapLeaf(leaf_version || compact_size(len(script)) || script) (BIP341).
func TapLeafHash(leafVersion byte, script []byte) [32]byte {
	return refec.TaggedHash("TapLeaf", []byte{leafVersion}, compactSize(len(script)), script)
}

// TapBranchHash is hash_TapBranch of the two child hashes in lexicographic order.
func TapBranchHash(a, b [32]byte) [32]byte {
	if bytes.Compare(a[:], b[:]) > 0 {
		a, b = b, a
	}
	return refec.TaggedHash("TapBranch", a[:], b[:])
}

// TapNode is a script tree: a leaf (Left == nil) or a branch.
type TapNode struct {
	LeafVersion byte
	Script      []byte
	Left, Right *TapNode
}

func (n *TapNode) IsLeaf() bool { return n.Left == nil }

// Hash is the node's merkle hash.
func (n *TapNode) Hash() [32]byte {
	if n.IsLeaf() {
		return TapLeafHash(n.LeafVersion, n.Script)
	}
	return TapBranchHash(n.Left.Hash(), n.Right.Hash())
}

// LeafProof is a leaf with its merkle path (sibling hashes from the leaf up to the root).
type LeafProof struct {
	Leaf *TapNode
	Path [][32]byte
}

// Proofs returns the leaves in left-to-right order with their paths.
func (n *TapNode) Proofs() []LeafProof {
	if n.IsLeaf() {
		return []LeafProof{{Leaf: n}}
	}
	lh, rh := n.Left.Hash(), n.Right.Hash()
	var out []LeafProof
	for _, p := range n.Left.Proofs() {
		p.Path = append(append([][32]byte{}, p.Path...), rh)
		out = append(out, p)
	}
	for _, p := range n.Right.Proofs() {
		p.Path = append(append([][32]byte{}, p.Path...), lh)
		out = append(out, p)
	}
	return out
}

var ErrTapTweak = errors.New("refaddr: taproot tweak out of range or internal key not on the curve")

// TapTweak computes the BIP341 output key Q = lift_x(p) + int(hash_TapTweak(p || root))*G. root may be empty
// (key-path-only output). It returns x(Q) and the parity of y(Q).
func TapTweak(internal []byte, root []byte) (out [32]byte, oddY bool, err error) {
	p, perr := refec.ParseXOnly(internal)
	if perr != nil {
		return out, false, ErrTapTweak
	}
	t := refec.TaggedHash("TapTweak", internal, root)
	ti := new(big.Int).SetBytes(t[:])
	if ti.Cmp(refec.N) >= 0 {
		return out, false, ErrTapTweak
	}
	q := refec.Add(p, refec.MulG(ti))
	if q.Inf {
		return out, false, ErrTapTweak
	}
	copy(out[:], q.XOnly())
	return out, !refec.HasEvenY(q), nil
}

// ControlBlock serializes (leaf_version | parity) || internal key || path.
func ControlBlock(leafVersion byte, oddY bool, internal []byte, path [][32]byte) []byte {
	b := []byte{leafVersion &^ 1}
	if oddY {
		b[0] |= 1
	}
	b = append(b, internal...)
	for _, h := range path {
		b = append(b, h[:]...)
	}
	return b
}

// VerifyControlBlock is the commitment check of BIP341 "Script validation rules" for a script path spend:
// the control block (33 + 32m bytes, m <= 128) must open the output key q to the given leaf script.
func VerifyControlBlock(q []byte, script []byte, cb []byte) bool {
	if len(q) != 32 || len(cb) < 33 || (len(cb)-33)%32 != 0 || (len(cb)-33)/32 > 128 {
		return false
	}
	k := TapLeafHash(cb[0]&0xfe, script)
	for i := 33; i < len(cb); i += 32 {
		var e [32]byte
		copy(e[:], cb[i:i+32])
		k = TapBranchHash(k, e)
	}
	out, odd, err := TapTweak(cb[1:33], k[:])
	if err != nil {
		return false
	}
	return bytes.Equal(out[:], q) && odd == (cb[0]&1 == 1)
}
