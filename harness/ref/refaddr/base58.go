// Package refaddr holds the reference models for property C16: Base58Check, Bech32/Bech32m and the
// segwit address rules of BIP173/BIP350, WIF, BIP32 key derivation and serialization, and the BIP341
// script tree (leaf / branch hashes, output-key tweak, control blocks).
//
// Written from the specifications, deliberately naive (math/big). It shares nothing with btcd's address,
// base58, bech32, hdkeychain or txscript packages; SHA-2, HMAC and RIPEMD-160 come from the standard
// library / x/crypto, secp256k1 point arithmetic from verif/ref/refec.
package refaddr

import (
	"bytes"
	"crypto/sha256"
	"errors"
	"math/big"

	"golang.org/x/crypto/ripemd160"
)

const b58Alphabet = "123456789ABCDEFGHJKLMNPQRSTUVWXYZabcdefghijkmnopqrstuvwxyz"

// DSHA is double SHA-256.
func DSHA(b []byte) [32]byte {
	a := sha256.Sum256(b)
	return sha256.Sum256(a[:])
}

// Hash160 is RIPEMD160(SHA256(b)).
func Hash160(b []byte) []byte {
	a := sha256.Sum256(b)
	h := ripemd160.New()
	h.Write(a[:])
	return h.Sum(nil)
}

// Base58Encode encodes bytes as a base-58 big-endian number; each leading zero byte becomes a '1'.
func Base58Encode(b []byte) string {
	zeros := 0
	for zeros < len(b) && b[zeros] == 0 {
		zeros++
	}
	n := new(big.Int).SetBytes(b)
	var out []byte
	base := big.NewInt(58)
	rem := new(big.Int)
	for n.Sign() > 0 {
		n.QuoRem(n, base, rem)
		out = append(out, b58Alphabet[rem.Int64()])
	}
	for i := 0; i < zeros; i++ {
		out = append(out, '1')
	}
	for i, j := 0, len(out)-1; i < j; i, j = i+1, j-1 {
		out[i], out[j] = out[j], out[i]
	}
	return string(out)
}

var ErrBase58Char = errors.New("refaddr: character outside the base58 alphabet")

// Base58Decode is the inverse of Base58Encode; any character outside the alphabet is an error.
func Base58Decode(s string) ([]byte, error) {
	zeros := 0
	for zeros < len(s) && s[zeros] == '1' {
		zeros++
	}
	n := new(big.Int)
	base := big.NewInt(58)
	for i := 0; i < len(s); i++ {
		d := bytes.IndexByte([]byte(b58Alphabet), s[i])
		if d < 0 {
			return nil, ErrBase58Char
		}
		n.Mul(n, base)
		n.Add(n, big.NewInt(int64(d)))
	}
	return append(make([]byte, zeros), n.Bytes()...), nil
}

// Base58CheckEncode is Base58(version || payload || first 4 bytes of SHA256d(version || payload)).
func Base58CheckEncode(version byte, payload []byte) string {
	b := append([]byte{version}, payload...)
	c := DSHA(b)
	return Base58Encode(append(b, c[:4]...))
}

var (
	ErrBase58Short    = errors.New("refaddr: base58check string too short")
	ErrBase58Checksum = errors.New("refaddr: base58check checksum mismatch")
)

// Base58CheckDecode returns the version byte and payload of a Base58Check string.
func Base58CheckDecode(s string) (version byte, payload []byte, err error) {
	b, err := Base58Decode(s)
	if err != nil {
		return 0, nil, err
	}
	if len(b) < 5 {
		return 0, nil, ErrBase58Short
	}
	c := DSHA(b[:len(b)-4])
	if !bytes.Equal(c[:4], b[len(b)-4:]) {
		return 0, nil, ErrBase58Checksum
	}
	return b[0], b[1 : len(b)-4], nil
}

// Base58CheckRaw encodes payload || checksum without a separate version byte (BIP32 serialization).
func Base58CheckRaw(payload []byte) string {
	c := DSHA(payload)
	return Base58Encode(append(append([]byte{}, payload...), c[:4]...))
}

// Base58CheckRawDecode is the inverse of Base58CheckRaw.
func Base58CheckRawDecode(s string) ([]byte, error) {
	b, err := Base58Decode(s)
	if err != nil {
		return nil, err
	}
	if len(b) < 4 {
		return nil, ErrBase58Short
	}
	c := DSHA(b[:len(b)-4])
	if !bytes.Equal(c[:4], b[len(b)-4:]) {
		return nil, ErrBase58Checksum
	}
	return b[:len(b)-4], nil
}
