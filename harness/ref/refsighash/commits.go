package refsighash

// The declarative "commits-to" relation of the three digest forms, written from the text of the
// specifications (Core's legacy serializer, BIP143 "Specification", BIP341 "Common signature
// message" + BIP342 extension) as a table, independently of the preimage builders in
// refsighash.go. A worker mutates exactly one field of a transaction and asks Commits whether the
// digest must change; the reference digests themselves are cross-checked against this table too
// (a disagreement there is a calibration failure, not a btcd defect).

// Form selects the digest algorithm.
type Form int

const (
	FormLegacy    Form = iota // Core SigVersion::BASE
	FormBIP143                // segwit v0
	FormTaproot               // BIP341 key path (ext_flag 0)
	FormTapscript             // BIP342 script path (ext_flag 1)
)

func (f Form) String() string {
	return [...]string{"legacy", "bip143", "taproot", "tapscript"}[f]
}

// FieldKind names one mutable piece of the signing context.
type FieldKind int

const (
	FVersion       FieldKind = iota // tx.Version
	FLockTime                       // tx.LockTime
	FPrevout                        // tx.TxIn[Index].PreviousOutPoint (hash or index)
	FSequence                       // tx.TxIn[Index].Sequence
	FScriptSig                      // tx.TxIn[Index].SignatureScript
	FWitness                        // tx.TxIn[Index].Witness (for taproot: not the annex)
	FOutValue                       // tx.TxOut[Index].Value
	FOutScript                      // tx.TxOut[Index].PkScript
	FAmount                         // value of the output spent by input Index
	FPrevScript                     // scriptPubKey of the output spent by input Index
	FScriptCode                     // a non-OP_CODESEPARATOR change of the script code (legacy, BIP143)
	FScriptCodeSep                  // insertion of one OP_CODESEPARATOR opcode into the script code
	FAnnex                          // annex content, or its presence (taproot forms)
	FLeafHash                       // tapleaf hash (tapscript)
	FCodeSepPos                     // codeseparator_position (tapscript)
	FKeyVersion                     // key_version (tapscript)
	FAppendInput                    // one more input appended after the last one
	FAppendOutput                   // one more output appended after the last one
	numFieldKinds
)

var fieldNames = [...]string{"version", "locktime", "prevout", "sequence", "scriptsig", "witness", "outvalue",
	"outscript", "amount", "prevscript", "scriptcode", "scriptcode-codesep", "annex", "leafhash", "codeseppos",
	"keyversion", "append-input", "append-output"}

func (k FieldKind) String() string { return fieldNames[k] }

// Field is a field kind plus the input/output index it refers to (where applicable).
type Field struct {
	Kind  FieldKind
	Index int
}

// Defined reports whether a digest exists at all for the combination (false only for the taproot
// forms: undefined hash type, or SIGHASH_SINGLE without a matching output).
func Defined(form Form, hashType uint32, idx, nOut int) bool {
	if form == FormLegacy || form == FormBIP143 {
		return true
	}
	if hashType > 0xff || !ValidTaprootHashType(byte(hashType)) {
		return false
	}
	if hashType&3 == SigHashSingle && idx >= nOut {
		return false
	}
	return true
}

// Commits reports whether the digest of input idx (of a transaction with nIn inputs and nOut
// outputs before the mutation) under hashType depends on field f.
func Commits(form Form, hashType uint32, idx, nIn, nOut int, f Field) bool {
	acp := hashType&SigHashAnyOneCanPay != 0
	self := f.Index == idx
	switch form {
	case FormLegacy, FormBIP143:
		base := hashType & 0x1f
		none, single := base == SigHashNone, base == SigHashSingle
		if form == FormLegacy && single && idx >= nOut {
			// the digest is the constant "one"; only making the output exist changes anything
			return f.Kind == FAppendOutput && idx == nOut
		}
		switch f.Kind {
		case FVersion, FLockTime, FScriptCode:
			return true
		case FScriptCodeSep:
			return form == FormBIP143 // legacy strips code separators before hashing
		case FPrevout:
			return self || !acp
		case FSequence:
			return self || (!acp && !none && !single)
		case FScriptSig, FWitness, FPrevScript:
			return false
		case FAmount:
			return form == FormBIP143 && self
		case FOutValue, FOutScript:
			if none {
				return false
			}
			if single {
				return self // (an out-of-range SINGLE commits to no output: self is then impossible)
			}
			return true
		case FAppendInput:
			return !acp
		case FAppendOutput:
			if none {
				return false
			}
			if single {
				return idx == nOut // BIP143: zero hash becomes the hash of the new output
			}
			return true
		}
		return false

	case FormTaproot, FormTapscript:
		out := hashType & 3
		if hashType == SigHashDefault {
			out = SigHashAll
		}
		switch f.Kind {
		case FVersion, FLockTime, FAnnex:
			return true
		case FPrevout, FSequence, FAmount, FPrevScript:
			return self || !acp
		case FScriptSig, FWitness:
			return false
		case FOutValue, FOutScript:
			switch out {
			case SigHashAll:
				return true
			case SigHashSingle:
				return self
			}
			return false
		case FLeafHash, FCodeSepPos, FKeyVersion:
			return form == FormTapscript
		case FAppendInput:
			return !acp
		case FAppendOutput:
			return out == SigHashAll
		}
		return false
	}
	return false
}
