// Package refsighash is an independent reference model of the three Bitcoin signature-hash
// ("sighash") algorithms, written from the specifications (Bitcoin Core's SignatureHash for the
// legacy form, BIP143, BIP341/BIP342) and deliberately naive: every digest is computed by building
// the complete preimage byte string and hashing it once. It performs its own byte serialisation; it
// uses wire.MsgTx only as a container (field access), never wire's serialisers, and no txscript
// function at all.
//
// # Stable API (other workers may import this; it will not change incompatibly)
//
//	Legacy(scriptCode, tx, idx, hashType uint32) [32]byte
//	    Core SigVersion::BASE. scriptCode is the script being executed from after the most recently
//	    executed OP_CODESEPARATOR to its end, *after* the caller applied FindAndDelete for the
//	    signature(s) being checked (see FindAndDelete / LegacyForSig). Legacy itself removes every
//	    remaining OP_CODESEPARATOR opcode while serialising (push data is never touched).
//	    hashType is the full 32-bit value that is appended to the preimage (for a signature taken from
//	    a script it is uint32(lastByte)); only hashType&0x1f selects NONE(2)/SINGLE(3) and
//	    hashType&0x80 selects ANYONECANPAY, everything else behaves like ALL.
//	    SIGHASH_SINGLE with idx >= len(tx.TxOut) returns the constant 0x01,0x00..0x00 ("one").
//	    idx must be a valid input index.
//	LegacyForSig(script, fullSig, tx, idx) [32]byte
//	    = Legacy(FindAndDelete(script, PushData(fullSig)), tx, idx, uint32(fullSig[len-1])):
//	    what OP_CHECKSIG does for one signature (fullSig includes the hash-type byte, len >= 1).
//	FindAndDelete(script, pattern) (out []byte, nFound int)
//	    Core's FindAndDelete: removes every occurrence of the raw byte string pattern that starts at
//	    an opcode boundary. PushData(data) is the serialisation `CScript() << data` used as pattern.
//	BIP143(scriptCode, tx, idx, amount int64, hashType uint32) [32]byte
//	    BIP143 digest. scriptCode is used verbatim (length-prefixed): for P2WPKH pass
//	    P2WPKHScriptCode(hash160); for P2WSH pass the witness script from after the most recently
//	    executed OP_CODESEPARATOR (no FindAndDelete, no separator removal).
//	Taproot(tx, idx, prevAmounts, prevScripts, hashType byte, annex, leafHash, codeSepPos, keyVersion)
//	    ([32]byte, ok bool)
//	    BIP341 digest; prevAmounts[i]/prevScripts[i] describe the output spent by tx.TxIn[i].
//	    annex == nil means "no annex"; otherwise the annex bytes exactly as they appear in the witness
//	    (including the 0x50 prefix). leafHash == nil selects the key-path form (ext_flag 0; codeSepPos
//	    and keyVersion are ignored); leafHash != nil selects the BIP342 form (ext_flag 1) with
//	    tapleaf hash, key_version and codeseparator_position appended.
//	    ok == false when BIP341 defines no digest (the signature check must fail): hash type not in
//	    {0,1,2,3,0x81,0x82,0x83}, or SIGHASH_SINGLE without a corresponding output.
//	TapLeafHash(leafVersion, script) [32]byte, TaggedHash(tag, parts...) [32]byte
//	MidstatesV0(tx) / MidstatesV1(tx, prevAmounts, prevScripts): the BIP143 / BIP341 partial hashes.
//	Commits(form, hashType, idx, nIn, nOut, field) bool: declarative "commits-to" table (commits.go).
package refsighash

import (
	"crypto/sha256"

	"github.com/btcsuite/btcd/wire/v2"
)

const (
	SigHashDefault      = 0x00
	SigHashAll          = 0x01
	SigHashNone         = 0x02
	SigHashSingle       = 0x03
	SigHashAnyOneCanPay = 0x80

	opPushData1     = 0x4c
	opPushData2     = 0x4d
	opPushData4     = 0x4e
	opCodeSeparator = 0xab
)

// ---------------------------------------------------------------------------------------------
// byte helpers

func u32(b []byte, v uint32) []byte {
	return append(b, byte(v), byte(v>>8), byte(v>>16), byte(v>>24))
}

func u64(b []byte, v uint64) []byte {
	for i := 0; i < 8; i++ {
		b = append(b, byte(v>>(8*uint(i))))
	}
	return b
}

// compactSize appends Bitcoin's variable length integer.
func compactSize(b []byte, n uint64) []byte {
	switch {
	case n < 0xfd:
		return append(b, byte(n))
	case n <= 0xffff:
		return append(b, 0xfd, byte(n), byte(n>>8))
	case n <= 0xffffffff:
		return u32(append(b, 0xfe), uint32(n))
	default:
		return u64(append(b, 0xff), n)
	}
}

func varBytes(b []byte, s []byte) []byte {
	return append(compactSize(b, uint64(len(s))), s...)
}

func outPoint(b []byte, in *wire.TxIn) []byte {
	b = append(b, in.PreviousOutPoint.Hash[:]...)
	return u32(b, in.PreviousOutPoint.Index)
}

func txOut(b []byte, o *wire.TxOut) []byte {
	b = u64(b, uint64(o.Value))
	return varBytes(b, o.PkScript)
}

func sha(b []byte) [32]byte { return sha256.Sum256(b) }

func dsha(b []byte) [32]byte {
	a := sha256.Sum256(b)
	return sha256.Sum256(a[:])
}

// TaggedHash is BIP340's hash_tag(x) = SHA256(SHA256(tag) || SHA256(tag) || x).
func TaggedHash(tag string, parts ...[]byte) [32]byte {
	t := sha256.Sum256([]byte(tag))
	var m []byte
	m = append(m, t[:]...)
	m = append(m, t[:]...)
	for _, p := range parts {
		m = append(m, p...)
	}
	return sha256.Sum256(m)
}

// TapLeafHash is BIP341's hash_TapLeaf(leaf_version || compact_size(len(script)) || script).
func TapLeafHash(leafVersion byte, script []byte) [32]byte {
	return TaggedHash("TapLeaf", varBytes([]byte{leafVersion}, script))
}

// ---------------------------------------------------------------------------------------------
// script walking (only what the sighash algorithms need)

// nextOp decodes one opcode at script[pc:]. It returns the position after the opcode and its data, or
// ok=false when the push runs past the end of the script (Core's GetOp failure).
func nextOp(script []byte, pc int) (next int, opcode byte, ok bool) {
	if pc >= len(script) {
		return pc, 0, false
	}
	opcode = script[pc]
	pc++
	if opcode > opPushData4 {
		return pc, opcode, true
	}
	var n int
	switch {
	case opcode < opPushData1:
		n = int(opcode)
	case opcode == opPushData1:
		if len(script)-pc < 1 {
			return pc, opcode, false
		}
		n = int(script[pc])
		pc++
	case opcode == opPushData2:
		if len(script)-pc < 2 {
			return pc, opcode, false
		}
		n = int(script[pc]) | int(script[pc+1])<<8
		pc += 2
	default:
		if len(script)-pc < 4 {
			return pc, opcode, false
		}
		v := uint32(script[pc]) | uint32(script[pc+1])<<8 | uint32(script[pc+2])<<16 | uint32(script[pc+3])<<24
		pc += 4
		if uint64(v) > uint64(len(script)-pc) {
			return pc, opcode, false
		}
		n = int(v)
	}
	if n > len(script)-pc {
		return pc, opcode, false
	}
	return pc + n, opcode, true
}

// Parses reports whether every opcode of the script decodes completely.
func Parses(script []byte) bool {
	pc := 0
	for pc < len(script) {
		n, _, ok := nextOp(script, pc)
		if !ok {
			return false
		}
		pc = n
	}
	return true
}

// PushData is the serialisation `CScript() << data`: the shortest length-prefixed push (a one
// byte datum is NOT turned into OP_1..OP_16 / OP_1NEGATE; empty data becomes OP_0).
func PushData(data []byte) []byte {
	n := len(data)
	var b []byte
	switch {
	case n < opPushData1:
		b = append(b, byte(n))
	case n <= 0xff:
		b = append(b, opPushData1, byte(n))
	case n <= 0xffff:
		b = append(b, opPushData2, byte(n), byte(n>>8))
	default:
		b = u32(append(b, opPushData4), uint32(n))
	}
	return append(b, data...)
}

func hasPrefix(s, p []byte) bool {
	if len(s) < len(p) {
		return false
	}
	for i := range p {
		if s[i] != p[i] {
			return false
		}
	}
	return true
}

// FindAndDelete removes every occurrence of pattern that begins at an opcode boundary of script
// (Bitcoin Core, script/interpreter.cpp FindAndDelete). Once an opcode fails to decode the remaining
// bytes are kept verbatim.
func FindAndDelete(script, pattern []byte) (out []byte, nFound int) {
	if len(pattern) == 0 {
		return append([]byte{}, script...), 0
	}
	pc, keptFrom := 0, 0
	for {
		// copy what was walked over since the last deletion point
		out = append(out, script[keptFrom:pc]...)
		for hasPrefix(script[pc:], pattern) {
			pc += len(pattern)
			nFound++
		}
		keptFrom = pc
		n, _, ok := nextOp(script, pc)
		if !ok {
			break
		}
		pc = n
	}
	out = append(out, script[keptFrom:]...)
	if out == nil {
		out = []byte{}
	}
	return out, nFound
}

// stripCodeSeparators is Core's CTransactionSignatureSerializer::SerializeScriptCode without the
// length prefix: the script with every OP_CODESEPARATOR *opcode* dropped; after a decode failure
// the rest is copied verbatim.
func stripCodeSeparators(script []byte) []byte {
	out := []byte{}
	pc, begin := 0, 0
	for {
		n, op, ok := nextOp(script, pc)
		if !ok {
			break
		}
		if op == opCodeSeparator {
			out = append(out, script[begin:n-1]...)
			begin = n
		}
		pc = n
	}
	return append(out, script[begin:]...)
}

// ---------------------------------------------------------------------------------------------
// legacy

// LegacyPreimage returns the byte string whose double SHA-256 is the legacy digest, or nil for the
// SIGHASH_SINGLE out-of-range case.
func LegacyPreimage(scriptCode []byte, tx *wire.MsgTx, idx int, hashType uint32) []byte {
	base := hashType & 0x1f
	acp := hashType&SigHashAnyOneCanPay != 0
	if base == SigHashSingle && idx >= len(tx.TxOut) {
		return nil
	}
	code := stripCodeSeparators(scriptCode)

	var b []byte
	b = u32(b, uint32(tx.Version))
	// inputs
	if acp {
		b = compactSize(b, 1)
	} else {
		b = compactSize(b, uint64(len(tx.TxIn)))
	}
	for i, in := range tx.TxIn {
		if acp && i != idx {
			continue
		}
		b = outPoint(b, in)
		if i == idx {
			b = varBytes(b, code)
		} else {
			b = compactSize(b, 0)
		}
		if i != idx && (base == SigHashSingle || base == SigHashNone) {
			b = u32(b, 0)
		} else {
			b = u32(b, in.Sequence)
		}
	}
	// outputs
	switch base {
	case SigHashNone:
		b = compactSize(b, 0)
	case SigHashSingle:
		b = compactSize(b, uint64(idx+1))
		for i := 0; i <= idx; i++ {
			if i == idx {
				b = txOut(b, tx.TxOut[i])
			} else {
				// a default-constructed CTxOut: value -1, empty script
				b = u64(b, ^uint64(0))
				b = compactSize(b, 0)
			}
		}
	default:
		b = compactSize(b, uint64(len(tx.TxOut)))
		for _, o := range tx.TxOut {
			b = txOut(b, o)
		}
	}
	b = u32(b, tx.LockTime)
	b = u32(b, hashType)
	return b
}

// One is the digest of the SIGHASH_SINGLE out-of-range case.
func One() [32]byte { return [32]byte{1} }

// Legacy: see the package comment.
func Legacy(scriptCode []byte, tx *wire.MsgTx, idx int, hashType uint32) [32]byte {
	pre := LegacyPreimage(scriptCode, tx, idx, hashType)
	if pre == nil {
		return One()
	}
	return dsha(pre)
}

// LegacyForSig: see the package comment.
func LegacyForSig(script, fullSig []byte, tx *wire.MsgTx, idx int) [32]byte {
	code, _ := FindAndDelete(script, PushData(fullSig))
	return Legacy(code, tx, idx, uint32(fullSig[len(fullSig)-1]))
}

// ---------------------------------------------------------------------------------------------
// BIP143

// V0Mid holds the three BIP143 partial hashes (double SHA-256).
type V0Mid struct{ HashPrevouts, HashSequence, HashOutputs [32]byte }

// MidstatesV0 computes hashPrevouts, hashSequence and hashOutputs over the whole transaction.
func MidstatesV0(tx *wire.MsgTx) V0Mid {
	var p, s, o []byte
	for _, in := range tx.TxIn {
		p = outPoint(p, in)
		s = u32(s, in.Sequence)
	}
	for _, out := range tx.TxOut {
		o = txOut(o, out)
	}
	return V0Mid{dsha(p), dsha(s), dsha(o)}
}

// P2WPKHScriptCode is the BIP143 scriptCode of a P2WPKH program:
// OP_DUP OP_HASH160 <20 bytes> OP_EQUALVERIFY OP_CHECKSIG.
func P2WPKHScriptCode(hash160 []byte) []byte {
	b := []byte{0x76, 0xa9, 0x14}
	b = append(b, hash160...)
	return append(b, 0x88, 0xac)
}

// BIP143Preimage returns the byte string whose double SHA-256 is the BIP143 digest.
func BIP143Preimage(scriptCode []byte, tx *wire.MsgTx, idx int, amount int64, hashType uint32) []byte {
	base := hashType & 0x1f
	acp := hashType&SigHashAnyOneCanPay != 0
	m := MidstatesV0(tx)
	var zero [32]byte

	var b []byte
	b = u32(b, uint32(tx.Version))
	if !acp {
		b = append(b, m.HashPrevouts[:]...)
	} else {
		b = append(b, zero[:]...)
	}
	if !acp && base != SigHashSingle && base != SigHashNone {
		b = append(b, m.HashSequence[:]...)
	} else {
		b = append(b, zero[:]...)
	}
	in := tx.TxIn[idx]
	b = outPoint(b, in)
	b = varBytes(b, scriptCode)
	b = u64(b, uint64(amount))
	b = u32(b, in.Sequence)
	switch {
	case base != SigHashSingle && base != SigHashNone:
		b = append(b, m.HashOutputs[:]...)
	case base == SigHashSingle && idx < len(tx.TxOut):
		h := dsha(txOut(nil, tx.TxOut[idx]))
		b = append(b, h[:]...)
	default:
		b = append(b, zero[:]...)
	}
	b = u32(b, tx.LockTime)
	b = u32(b, hashType)
	return b
}

// BIP143: see the package comment.
func BIP143(scriptCode []byte, tx *wire.MsgTx, idx int, amount int64, hashType uint32) [32]byte {
	return dsha(BIP143Preimage(scriptCode, tx, idx, amount, hashType))
}

// ---------------------------------------------------------------------------------------------
// BIP341 / BIP342

// V1Mid holds the five BIP341 partial hashes (single SHA-256).
type V1Mid struct{ ShaPrevouts, ShaAmounts, ShaScriptPubKeys, ShaSequences, ShaOutputs [32]byte }

// MidstatesV1 computes sha_prevouts, sha_amounts, sha_scriptpubkeys, sha_sequences, sha_outputs.
func MidstatesV1(tx *wire.MsgTx, prevAmounts []int64, prevScripts [][]byte) V1Mid {
	var p, a, sp, s, o []byte
	for i, in := range tx.TxIn {
		p = outPoint(p, in)
		a = u64(a, uint64(prevAmounts[i]))
		sp = varBytes(sp, prevScripts[i])
		s = u32(s, in.Sequence)
	}
	for _, out := range tx.TxOut {
		o = txOut(o, out)
	}
	return V1Mid{sha(p), sha(a), sha(sp), sha(s), sha(o)}
}

// ValidTaprootHashType reports whether BIP341 defines the hash type.
func ValidTaprootHashType(hashType byte) bool {
	return hashType <= 0x03 || (hashType >= 0x81 && hashType <= 0x83)
}

// TaprootMessage returns SigMsg(hash_type, ext_flag) || ext (without the epoch byte), ok=false when undefined.
func TaprootMessage(tx *wire.MsgTx, idx int, prevAmounts []int64, prevScripts [][]byte, hashType byte,
	annex []byte, leafHash *[32]byte, codeSepPos uint32, keyVersion byte) ([]byte, bool) {

	if !ValidTaprootHashType(hashType) {
		return nil, false
	}
	if idx < 0 || idx >= len(tx.TxIn) || len(prevAmounts) != len(tx.TxIn) || len(prevScripts) != len(tx.TxIn) {
		return nil, false
	}
	outType := hashType & 3
	if hashType == SigHashDefault {
		outType = SigHashAll
	}
	acp := hashType&SigHashAnyOneCanPay != 0

	var b []byte
	b = append(b, hashType)
	b = u32(b, uint32(tx.Version))
	b = u32(b, tx.LockTime)
	m := MidstatesV1(tx, prevAmounts, prevScripts)
	if !acp {
		b = append(b, m.ShaPrevouts[:]...)
		b = append(b, m.ShaAmounts[:]...)
		b = append(b, m.ShaScriptPubKeys[:]...)
		b = append(b, m.ShaSequences[:]...)
	}
	if outType == SigHashAll {
		b = append(b, m.ShaOutputs[:]...)
	}
	var extFlag byte
	if leafHash != nil {
		extFlag = 1
	}
	spendType := extFlag * 2
	if annex != nil {
		spendType++
	}
	b = append(b, spendType)
	if acp {
		in := tx.TxIn[idx]
		b = outPoint(b, in)
		b = u64(b, uint64(prevAmounts[idx]))
		b = varBytes(b, prevScripts[idx])
		b = u32(b, in.Sequence)
	} else {
		b = u32(b, uint32(idx))
	}
	if annex != nil {
		h := sha(varBytes(nil, annex))
		b = append(b, h[:]...)
	}
	if outType == SigHashSingle {
		if idx >= len(tx.TxOut) {
			return nil, false
		}
		h := sha(txOut(nil, tx.TxOut[idx]))
		b = append(b, h[:]...)
	}
	if leafHash != nil {
		b = append(b, leafHash[:]...)
		b = append(b, keyVersion)
		b = u32(b, codeSepPos)
	}
	return b, true
}

// Taproot: see the package comment.
func Taproot(tx *wire.MsgTx, idx int, prevAmounts []int64, prevScripts [][]byte, hashType byte,
	annex []byte, leafHash *[32]byte, codeSepPos uint32, keyVersion byte) ([32]byte, bool) {

	msg, ok := TaprootMessage(tx, idx, prevAmounts, prevScripts, hashType, annex, leafHash, codeSepPos, keyVersion)
	if !ok {
		return [32]byte{}, false
	}
	return TaggedHash("TapSighash", []byte{0x00}, msg), true
}
