package refec

import (
	"crypto/hmac"
	"crypto/sha256"
	"math/big"
)

// hashToInt is SEC1 4.1.3 step 5 / RFC6979 bits2int for a 256-bit order: the leftmost
// min(8*len(hash), 256) bits of the hash as a big-endian integer (not yet reduced).
func hashToInt(hash []byte) *big.Int {
	if len(hash) > 32 {
		hash = hash[:32]
	}
	return Int(hash)
}

// ECDSAVerify is SEC1 4.1.4: with r, s in [1, N-1], e = int(hash), w = s^-1 mod N,
// R = (e*w)G + (r*w)Q, accept iff R is finite and R.x mod N == r. pub must be a finite
// curve point. Any r or s outside [1, N-1] is rejected (no reduction).
func ECDSAVerify(pub Point, hash []byte, r, s *big.Int) bool {
	if pub.Inf || !OnCurve(pub.X, pub.Y) {
		return false
	}
	if r == nil || s == nil || r.Sign() <= 0 || s.Sign() <= 0 || r.Cmp(N) >= 0 || s.Cmp(N) >= 0 {
		return false
	}
	e := hashToInt(hash)
	w := new(big.Int).ModInverse(s, N)
	u1 := new(big.Int).Mul(e, w)
	u1.Mod(u1, N)
	u2 := new(big.Int).Mul(r, w)
	u2.Mod(u2, N)
	R := Add(MulG(u1), Mul(u2, pub))
	if R.Inf {
		return false
	}
	return new(big.Int).Mod(R.X, N).Cmp(r) == 0
}

// ECDSASign is SEC1 4.1.3 with a caller-chosen nonce k in [1, N-1]: r = (kG).x mod N,
// s = k^-1 (e + r d) mod N. ok is false when r or s comes out zero. s is NOT normalised.
func ECDSASign(d, k *big.Int, hash []byte) (r, s *big.Int, ok bool) {
	if d.Sign() <= 0 || d.Cmp(N) >= 0 || k.Sign() <= 0 || k.Cmp(N) >= 0 {
		return nil, nil, false
	}
	R := MulG(k)
	r = new(big.Int).Mod(R.X, N)
	if r.Sign() == 0 {
		return nil, nil, false
	}
	s = new(big.Int).Mul(r, d)
	s.Add(s, hashToInt(hash))
	s.Mul(s, new(big.Int).ModInverse(k, N))
	s.Mod(s, N)
	if s.Sign() == 0 {
		return nil, nil, false
	}
	return r, s, true
}

func hmacSum(key []byte, parts ...[]byte) []byte {
	h := hmac.New(sha256.New, key)
	for _, p := range parts {
		h.Write(p)
	}
	return h.Sum(nil)
}

// RFC6979Nonce returns the skip-th (0-based) candidate nonce of RFC6979 section 3.2 with
// HMAC-SHA256 for private key d and message hash (no additional data): the first
// candidate in [1, N-1] is index 0, the next acceptable one index 1, and so on.
func RFC6979Nonce(d *big.Int, hash []byte, skip int) *big.Int {
	x := Bytes32(d)
	h1 := Bytes32(new(big.Int).Mod(hashToInt(hash), N)) // bits2octets
	V := make([]byte, 32)
	K := make([]byte, 32)
	for i := range V {
		V[i] = 1
	}
	K = hmacSum(K, V, []byte{0}, x, h1)
	V = hmacSum(K, V)
	K = hmacSum(K, V, []byte{1}, x, h1)
	V = hmacSum(K, V)
	for {
		V = hmacSum(K, V)
		k := Int(V)
		if k.Sign() > 0 && k.Cmp(N) < 0 {
			if skip == 0 {
				return k
			}
			skip--
		}
		K = hmacSum(K, V, []byte{0})
		V = hmacSum(K, V)
	}
}

// ECDSASignRFC6979 is the deterministic, low-S ("canonical", BIP62/BIP146) ECDSA signature:
// nonce from RFC6979 (retrying with the next candidate if r or s is zero), then
// s := min(s, N-s).
func ECDSASignRFC6979(d *big.Int, hash []byte) (r, s *big.Int) {
	for i := 0; ; i++ {
		k := RFC6979Nonce(d, hash, i)
		r, s, ok := ECDSASign(d, k, hash)
		if !ok {
			continue
		}
		if s.Cmp(HalfN) > 0 {
			s = new(big.Int).Sub(N, s)
		}
		return r, s
	}
}
