package refec

import (
	"errors"
	"math/big"
)

// SchnorrChallenge is e = int(hash_BIP0340/challenge(r32 || px32 || msg)) mod N.
func SchnorrChallenge(r32, px32, msg []byte) *big.Int {
	h := TaggedHash("BIP0340/challenge", r32, px32, msg)
	e := Int(h[:])
	return e.Mod(e, N)
}

// SchnorrVerify is BIP340 Verify(pk, m, sig) on raw bytes: pk must be 32 bytes and
// lift_x(pk) must exist; sig must be 64 bytes with r < P and s < N; with
// e = challenge, R = s*G - e*P must be finite, have even y and x(R) == r.
// msg may have any length (BIP340 as amended); callers that model a 32-byte-only
// implementation check the length themselves.
func SchnorrVerify(pk, msg, sig []byte) bool {
	Pt, err := ParseXOnly(pk)
	if err != nil {
		return false
	}
	if len(sig) != 64 {
		return false
	}
	r, s := Int(sig[:32]), Int(sig[32:])
	if r.Cmp(P) >= 0 || s.Cmp(N) >= 0 {
		return false
	}
	e := SchnorrChallenge(sig[:32], Pt.XOnly(), msg)
	R := Add(MulG(s), Mul(new(big.Int).Sub(N, e), Pt))
	if R.Inf || !HasEvenY(R) {
		return false
	}
	return R.X.Cmp(r) == 0
}

// Errors of the Schnorr signers.
var (
	ErrSecretKeyRange = errors.New("refec: secret key is zero or >= N")
	ErrZeroNonce      = errors.New("refec: nonce is zero")
)

// SchnorrSignWithNonce is BIP340 signing from step "R = k'G" on, for secret key d0 in
// [1, N-1] and a caller-chosen nonce k0 in [1, N-1] (both are negated as the BIP
// prescribes when the corresponding point has odd y).
func SchnorrSignWithNonce(d0, k0 *big.Int, msg []byte) ([]byte, error) {
	if d0.Sign() <= 0 || d0.Cmp(N) >= 0 {
		return nil, ErrSecretKeyRange
	}
	if k0.Sign() <= 0 || k0.Cmp(N) >= 0 {
		return nil, ErrZeroNonce
	}
	Pt := MulG(d0)
	d := d0
	if !HasEvenY(Pt) {
		d = new(big.Int).Sub(N, d0)
	}
	R := MulG(k0)
	k := k0
	if !HasEvenY(R) {
		k = new(big.Int).Sub(N, k0)
	}
	e := SchnorrChallenge(R.XOnly(), Pt.XOnly(), msg)
	s := new(big.Int).Mul(e, d)
	s.Add(s, k)
	s.Mod(s, N)
	return append(R.XOnly(), Bytes32(s)...), nil
}

// SchnorrSign is BIP340 Sign(sk, m) with 32 bytes of auxiliary randomness a:
// t = bytes(d) xor hash_BIP0340/aux(a); k' = int(hash_BIP0340/nonce(t || bytes(P) || m)) mod N.
func SchnorrSign(sk, msg, aux []byte) ([]byte, error) {
	if len(sk) != 32 || len(aux) != 32 {
		return nil, errors.New("refec: secret key and aux must be 32 bytes")
	}
	d0 := Int(sk)
	if d0.Sign() <= 0 || d0.Cmp(N) >= 0 {
		return nil, ErrSecretKeyRange
	}
	Pt := MulG(d0)
	d := d0
	if !HasEvenY(Pt) {
		d = new(big.Int).Sub(N, d0)
	}
	t := TaggedHash("BIP0340/aux", aux)
	db := Bytes32(d)
	for i := range t {
		t[i] ^= db[i]
	}
	rnd := TaggedHash("BIP0340/nonce", t[:], Pt.XOnly(), msg)
	k0 := Int(rnd[:])
	k0.Mod(k0, N)
	if k0.Sign() == 0 {
		return nil, ErrZeroNonce
	}
	return SchnorrSignWithNonce(d0, k0, msg)
}
