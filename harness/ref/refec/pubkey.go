package refec

import (
	"crypto/sha256"
	"errors"
)

// Compressed returns the 33-byte SEC1 compressed encoding (02/03 || x). The point must be finite.
func (p Point) Compressed() []byte {
	if p.Inf {
		panic("refec: Compressed(infinity)")
	}
	b := make([]byte, 33)
	b[0] = 2 + byte(p.Y.Bit(0))
	copy(b[1:], Bytes32(p.X))
	return b
}

// Uncompressed returns the 65-byte SEC1 encoding (04 || x || y).
func (p Point) Uncompressed() []byte {
	if p.Inf {
		panic("refec: Uncompressed(infinity)")
	}
	b := make([]byte, 65)
	b[0] = 4
	copy(b[1:], Bytes32(p.X))
	copy(b[33:], Bytes32(p.Y))
	return b
}

// Hybrid returns the 65-byte OpenSSL "hybrid" encoding (06/07 || x || y) that Bitcoin's
// consensus rules admit for legacy scripts.
func (p Point) Hybrid() []byte {
	b := p.Uncompressed()
	b[0] = 6 + byte(p.Y.Bit(0))
	return b
}

// XOnly returns the BIP340 32-byte x coordinate.
func (p Point) XOnly() []byte {
	if p.Inf {
		panic("refec: XOnly(infinity)")
	}
	return Bytes32(p.X)
}

// Errors of ParsePubKey (classes, not messages, are what callers may rely on).
var (
	ErrKeyLength   = errors.New("refec: public key has an invalid length")
	ErrKeyFormat   = errors.New("refec: public key prefix byte does not match its length")
	ErrKeyRange    = errors.New("refec: coordinate >= field prime")
	ErrKeyOffCurve = errors.New("refec: point is not on the curve")
	ErrKeyParity   = errors.New("refec: hybrid prefix does not match the parity of y")
)

// ParsePubKey parses the public-key encodings Bitcoin admits:
//
//	33 bytes, prefix 02/03:          compressed; x < P and x^3+7 a square
//	65 bytes, prefix 04:             uncompressed; x,y < P and on the curve
//	65 bytes, prefix 06/07 (hybrid): as 04, and the prefix's low bit equals y's parity
//
// Everything else is rejected (any other length or prefix, coordinates >= P, points off the curve).
func ParsePubKey(b []byte) (Point, error) {
	switch len(b) {
	case 33:
		if b[0] != 2 && b[0] != 3 {
			return Point{}, ErrKeyFormat
		}
		x := Int(b[1:])
		if x.Cmp(P) >= 0 {
			return Point{}, ErrKeyRange
		}
		pt, ok := Decompress(x, b[0] == 3)
		if !ok {
			return Point{}, ErrKeyOffCurve
		}
		return pt, nil
	case 65:
		if b[0] != 4 && b[0] != 6 && b[0] != 7 {
			return Point{}, ErrKeyFormat
		}
		x, y := Int(b[1:33]), Int(b[33:])
		if x.Cmp(P) >= 0 || y.Cmp(P) >= 0 {
			return Point{}, ErrKeyRange
		}
		if b[0] != 4 && (b[0]&1) != byte(y.Bit(0)) {
			return Point{}, ErrKeyParity
		}
		if !OnCurve(x, y) {
			return Point{}, ErrKeyOffCurve
		}
		return Point{X: x, Y: y}, nil
	}
	return Point{}, ErrKeyLength
}

// ParseXOnly parses a BIP340 public key: exactly 32 bytes, lift_x must succeed.
func ParseXOnly(b []byte) (Point, error) {
	if len(b) != 32 {
		return Point{}, ErrKeyLength
	}
	x := Int(b)
	if x.Cmp(P) >= 0 {
		return Point{}, ErrKeyRange
	}
	pt, ok := LiftX(x)
	if !ok {
		return Point{}, ErrKeyOffCurve
	}
	return pt, nil
}

// TaggedHash is BIP340's hash_tag(msg) = SHA256(SHA256(tag) || SHA256(tag) || msg...).
func TaggedHash(tag string, msgs ...[]byte) [32]byte {
	t := sha256.Sum256([]byte(tag))
	h := sha256.New()
	h.Write(t[:])
	h.Write(t[:])
	for _, m := range msgs {
		h.Write(m)
	}
	var out [32]byte
	copy(out[:], h.Sum(nil))
	return out
}
