package refec

import (
	"bufio"
	"encoding/hex"
	"math/big"
	"os"
	"strings"
	"testing"
)

func home() string {
	if h := os.Getenv("VERIF_HOME"); h != "" {
		return h
	}
	return "/verif"
}

func TestBIP340Vectors(t *testing.T) {
	f, err := os.Open(home() + "/vectors/bip340/test-vectors.csv")
	if err != nil {
		t.Skip(err)
	}
	defer f.Close()
	sc := bufio.NewScanner(f)
	sc.Scan()
	n := 0
	for sc.Scan() {
		c := strings.Split(sc.Text(), ",")
		sk, _ := hex.DecodeString(c[1])
		pk, _ := hex.DecodeString(c[2])
		aux, _ := hex.DecodeString(c[3])
		msg, _ := hex.DecodeString(c[4])
		sig, _ := hex.DecodeString(c[5])
		want := c[6] == "TRUE"
		if got := SchnorrVerify(pk, msg, sig); got != want {
			t.Errorf("vector %s: verify got %v want %v", c[0], got, want)
		}
		if len(sk) == 32 && c[7] != "TRUE" {
			s, err := SchnorrSign(sk, msg, aux)
			if err != nil || hex.EncodeToString(s) != strings.ToLower(c[5]) {
				t.Errorf("vector %s: sign mismatch %x %v", c[0], s, err)
			}
		}
		n++
	}
	if n < 14 {
		t.Errorf("only %d vectors", n)
	}
}

func TestGroupLaws(t *testing.T) {
	if !Mul(N, G()).Inf {
		t.Fatal("N*G != inf")
	}
	a, b := big.NewInt(123456789), mustHex("deadbeefcafebabe0123456789abcdef00112233445566778899aabbccddeeff")
	l := Add(MulG(a), MulG(b))
	r := MulG(new(big.Int).Add(a, b))
	if !Equal(l, r) || !OnCurve(l.X, l.Y) {
		t.Fatal("aG+bG != (a+b)G")
	}
	if !Equal(Mul(a, MulG(b)), Mul(b, MulG(a))) {
		t.Fatal("a(bG) != b(aG)")
	}
	if !Add(l, Neg(l)).Inf {
		t.Fatal("l + -l != inf")
	}
}

func BenchmarkMul(b *testing.B) {
	k := mustHex("deadbeefcafebabe0123456789abcdef00112233445566778899aabbccddeeff")
	g := G()
	for i := 0; i < b.N; i++ {
		Mul(k, g)
	}
}
