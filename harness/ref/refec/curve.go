// Package refec is the framework's independent reference model for secp256k1:
// naive affine curve arithmetic on math/big, ECDSA (verify, RFC6979 sign), BIP340
// (lift_x, tagged hash, sign, verify), public-key encodings and the DER signature
// grammars (BIP66 strict, Bitcoin Core "lax").
//
// It is written from SEC1/SEC2, RFC6979, BIP66, BIP340 and Bitcoin Core's
// ecdsa_signature_parse_der_lax; it shares nothing with btcd/btcec or the decred
// secp256k1 module (only math/big, crypto/sha256, crypto/hmac from the standard
// library). It is deliberately slow and small: one scalar multiplication costs
// about a millisecond. Nothing here is constant time; never use it for real keys.
//
// Stable exported API (used by the C06/C07/C11/C16/C19 workers):
//
//	P, N, HalfN                         curve constants (do not modify)
//	Point{X,Y,Inf}, G(), Infinity()      affine points
//	OnCurve, Add, Neg, Double, Mul, MulG, Equal, HasEvenY
//	LiftX, Decompress                    x -> point
//	Bytes32, Int                         32-byte big-endian <-> *big.Int
//	(Point).Compressed/Uncompressed/Hybrid/XOnly, ParsePubKey, ParseXOnly
//	TaggedHash
//	ECDSAVerify, ECDSASign, ECDSASignRFC6979, RFC6979Nonce
//	SchnorrVerify, SchnorrSign, SchnorrSignWithNonce
//	ParseDERStrict, ParseDERLax, EncodeDER
package refec

import (
	"math/big"
)

func mustHex(s string) *big.Int {
	v, ok := new(big.Int).SetString(s, 16)
	if !ok {
		panic("refec: bad constant")
	}
	return v
}

// Curve constants (SEC2 2.4.1): y^2 = x^3 + 7 over F_P, group order N, cofactor 1.
var (
	P     = mustHex("FFFFFFFFFFFFFFFFFFFFFFFFFFFFFFFFFFFFFFFFFFFFFFFFFFFFFFFEFFFFFC2F")
	N     = mustHex("FFFFFFFFFFFFFFFFFFFFFFFFFFFFFFFEBAAEDCE6AF48A03BBFD25E8CD0364141")
	HalfN = new(big.Int).Rsh(N, 1) // floor(N/2): s <= HalfN is "low S"
	gx    = mustHex("79BE667EF9DCBBAC55A06295CE870B07029BFCDB2DCE28D959F2815B16F81798")
	gy    = mustHex("483ADA7726A3C4655DA4FBFC0E1108A8FD17B448A68554199C47D08FFB10D4B8")
	seven = big.NewInt(7)
	// (P+1)/4, the square-root exponent (P = 3 mod 4)
	sqrtExp = new(big.Int).Rsh(new(big.Int).Add(P, big.NewInt(1)), 2)
)

// Point is an affine point of the curve, or the point at infinity when Inf is set
// (X and Y are then ignored). Points are values; the big.Ints they hold are never
// modified by this package after creation.
type Point struct {
	X, Y *big.Int
	Inf  bool
}

// G returns the generator.
func G() Point { return Point{X: new(big.Int).Set(gx), Y: new(big.Int).Set(gy)} }

// Infinity returns the neutral element.
func Infinity() Point { return Point{Inf: true} }

func mod(a *big.Int) *big.Int {
	r := new(big.Int).Mod(a, P)
	return r
}

// OnCurve reports whether (x, y) with 0 <= x,y < P satisfies y^2 = x^3 + 7.
func OnCurve(x, y *big.Int) bool {
	if x == nil || y == nil || x.Sign() < 0 || y.Sign() < 0 || x.Cmp(P) >= 0 || y.Cmp(P) >= 0 {
		return false
	}
	l := mod(new(big.Int).Mul(y, y))
	r := new(big.Int).Mul(x, x)
	r.Mul(r, x)
	r.Add(r, seven)
	return l.Cmp(mod(r)) == 0
}

// Equal reports whether two points are the same group element.
func Equal(a, b Point) bool {
	if a.Inf || b.Inf {
		return a.Inf == b.Inf
	}
	return a.X.Cmp(b.X) == 0 && a.Y.Cmp(b.Y) == 0
}

// HasEvenY reports whether a finite point has an even y coordinate.
func HasEvenY(a Point) bool { return !a.Inf && a.Y.Bit(0) == 0 }

// Neg returns -a.
func Neg(a Point) Point {
	if a.Inf {
		return a
	}
	return Point{X: a.X, Y: mod(new(big.Int).Neg(a.Y))}
}

// Double returns 2a.
func Double(a Point) Point {
	if a.Inf || a.Y.Sign() == 0 {
		return Infinity()
	}
	// lambda = 3x^2 / 2y
	num := new(big.Int).Mul(a.X, a.X)
	num.Mul(num, big.NewInt(3))
	den := new(big.Int).Lsh(a.Y, 1)
	den.ModInverse(mod(den), P)
	lam := mod(num.Mul(num, den))
	return chord(lam, a, a)
}

// chord finishes an addition given the slope.
func chord(lam *big.Int, a, b Point) Point {
	x3 := new(big.Int).Mul(lam, lam)
	x3.Sub(x3, a.X)
	x3.Sub(x3, b.X)
	x3 = mod(x3)
	y3 := new(big.Int).Sub(a.X, x3)
	y3.Mul(y3, lam)
	y3.Sub(y3, a.Y)
	return Point{X: x3, Y: mod(y3)}
}

// Add returns a + b (complete: handles infinity, doubling and inverse points).
func Add(a, b Point) Point {
	if a.Inf {
		return b
	}
	if b.Inf {
		return a
	}
	if a.X.Cmp(b.X) == 0 {
		if a.Y.Cmp(b.Y) == 0 {
			return Double(a)
		}
		return Infinity() // same x, different y: b = -a
	}
	num := new(big.Int).Sub(b.Y, a.Y)
	den := new(big.Int).Sub(b.X, a.X)
	den.ModInverse(mod(den), P)
	lam := mod(num.Mul(num, den))
	return chord(lam, a, b)
}

// Mul returns k*a for any integer k (negative k multiplies -a). Because the group has
// prime order N, k is first reduced modulo N. Plain MSB-first double-and-add.
func Mul(k *big.Int, a Point) Point {
	kk := new(big.Int).Mod(k, N)
	r := Infinity()
	if a.Inf {
		return r
	}
	for i := kk.BitLen() - 1; i >= 0; i-- {
		r = Double(r)
		if kk.Bit(i) == 1 {
			r = Add(r, a)
		}
	}
	return r
}

// MulG returns k*G.
func MulG(k *big.Int) Point { return Mul(k, G()) }

// Decompress returns the point with the given x (0 <= x < P) and y parity, if x is the
// abscissa of a curve point.
func Decompress(x *big.Int, odd bool) (Point, bool) {
	if x == nil || x.Sign() < 0 || x.Cmp(P) >= 0 {
		return Point{}, false
	}
	c := new(big.Int).Mul(x, x)
	c.Mul(c, x)
	c.Add(c, seven)
	c = mod(c)
	y := new(big.Int).Exp(c, sqrtExp, P)
	if mod(new(big.Int).Mul(y, y)).Cmp(c) != 0 {
		return Point{}, false
	}
	if (y.Bit(0) == 1) != odd {
		y = mod(new(big.Int).Neg(y))
	}
	return Point{X: new(big.Int).Set(x), Y: y}, true
}

// LiftX is BIP340 lift_x: the point with abscissa x and even y; fails if x >= P or x is
// not on the curve.
func LiftX(x *big.Int) (Point, bool) { return Decompress(x, false) }

// Bytes32 encodes 0 <= v < 2^256 as 32 big-endian bytes (panics otherwise).
func Bytes32(v *big.Int) []byte {
	if v.Sign() < 0 || v.BitLen() > 256 {
		panic("refec.Bytes32: out of range")
	}
	b := make([]byte, 32)
	v.FillBytes(b)
	return b
}

// Int decodes big-endian bytes as a non-negative integer.
func Int(b []byte) *big.Int { return new(big.Int).SetBytes(b) }
