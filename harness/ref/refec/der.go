package refec

import "math/big"

// ScalarInRange reports 1 <= v <= N-1, the range ECDSA requires of r and s.
func ScalarInRange(v *big.Int) bool { return v != nil && v.Sign() > 0 && v.Cmp(N) < 0 }

// ParseDERStrict is BIP66's IsValidSignatureEncoding for a signature WITHOUT the trailing
// sighash-type byte (so every length is one less than in the BIP text):
//
//	0x30 [total-length] 0x02 [R-length] [R] 0x02 [S-length] [S]
//
// total size 8..72; total-length covers exactly the rest; R and S are non-empty,
// not negative (top bit clear) and minimally padded (a leading 0x00 only when the next
// byte has its top bit set). It returns the two integers; it does NOT check their range
// (use ScalarInRange).
func ParseDERStrict(sig []byte) (r, s *big.Int, ok bool) {
	n := len(sig)
	if n < 8 || n > 72 {
		return nil, nil, false
	}
	if sig[0] != 0x30 {
		return nil, nil, false
	}
	if int(sig[1]) != n-2 {
		return nil, nil, false
	}
	lenR := int(sig[3])
	if 5+lenR >= n {
		return nil, nil, false
	}
	lenS := int(sig[5+lenR])
	if lenR+lenS+6 != n {
		return nil, nil, false
	}
	if sig[2] != 0x02 {
		return nil, nil, false
	}
	if lenR == 0 {
		return nil, nil, false
	}
	if sig[4]&0x80 != 0 {
		return nil, nil, false
	}
	if lenR > 1 && sig[4] == 0 && sig[5]&0x80 == 0 {
		return nil, nil, false
	}
	if sig[lenR+4] != 0x02 {
		return nil, nil, false
	}
	if lenS == 0 {
		return nil, nil, false
	}
	if sig[lenR+6]&0x80 != 0 {
		return nil, nil, false
	}
	if lenS > 1 && sig[lenR+6] == 0 && sig[lenR+7]&0x80 == 0 {
		return nil, nil, false
	}
	return Int(sig[4 : 4+lenR]), Int(sig[6+lenR : 6+lenR+lenS]), true
}

// laxLen reads a BER length at *pos the way Bitcoin Core's ecdsa_signature_parse_der_lax
// does for the two INTEGER lengths.
func laxLen(in []byte, pos *int) (int, bool) {
	if *pos == len(in) {
		return 0, false
	}
	lb := int(in[*pos])
	*pos++
	if lb&0x80 == 0 {
		return lb, true
	}
	lb -= 0x80
	if lb > len(in)-*pos {
		return 0, false
	}
	for lb > 0 && in[*pos] == 0 {
		*pos++
		lb--
	}
	if lb >= 4 {
		return 0, false
	}
	v := 0
	for lb > 0 {
		v = v<<8 + int(in[*pos])
		*pos++
		lb--
	}
	return v, true
}

// ParseDERLax is Bitcoin Core's ecdsa_signature_parse_der_lax (the parser consensus used
// before BIP66): 0x30, a sequence length that is skipped without being interpreted
// (short or long form), then two INTEGERs whose lengths may be in long form; integer
// contents are read as unsigned big-endian numbers with any number of leading zero
// bytes; zero-length integers are 0; anything after S is ignored. ok is false only for
// structural failures. Core then treats integers wider than 32 bytes or >= N as an
// all-zero (never verifying) signature; here the actual integers are returned and the
// caller applies ScalarInRange.
func ParseDERLax(in []byte) (r, s *big.Int, ok bool) {
	pos := 0
	if pos == len(in) || in[pos] != 0x30 {
		return nil, nil, false
	}
	pos++
	if pos == len(in) {
		return nil, nil, false
	}
	lb := int(in[pos])
	pos++
	if lb&0x80 != 0 {
		lb -= 0x80
		if lb > len(in)-pos {
			return nil, nil, false
		}
		pos += lb
	}
	var out [2]*big.Int
	for i := 0; i < 2; i++ {
		if pos == len(in) || in[pos] != 0x02 {
			return nil, nil, false
		}
		pos++
		l, good := laxLen(in, &pos)
		if !good || l > len(in)-pos {
			return nil, nil, false
		}
		out[i] = Int(in[pos : pos+l])
		pos += l
	}
	return out[0], out[1], true
}

func derInt(v *big.Int) []byte {
	b := v.Bytes()
	if len(b) == 0 {
		b = []byte{0}
	}
	if b[0]&0x80 != 0 {
		b = append([]byte{0}, b...)
	}
	return append([]byte{0x02, byte(len(b))}, b...)
}

// EncodeDER returns the canonical DER encoding of (r, s), both non-negative and < 2^256.
func EncodeDER(r, s *big.Int) []byte {
	body := append(derInt(r), derInt(s)...)
	return append([]byte{0x30, byte(len(body))}, body...)
}
