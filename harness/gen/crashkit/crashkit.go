// Package crashkit is the child-process crash plumbing shared by the crash
// monitors (C05 store level, C04 chain level).
//
// A worker binary re-executes ITSELF as a child with a Plan in the environment.
// The child installs Recorder.Event as its I/O event callback (e.g. the ffldb
// H1 hook; crashkit does not import btcd) and brackets every call into the
// system under test with Recorder.Op lines.  Events and op lines go to ONE
// append-only log (one write(2) per line, no buffering), so their order is the
// order in which they happened.  At event number KillAt the child simulates the
// chosen crash model and kills itself with SIGKILL:
//
//	death      process death: whatever was written stays (page cache survives)
//	powerloss  additionally, every tracked file is first cut back to the length
//	           it had at its last Sync (bytes written after it are lost)
//
// The parent spawns the child, verifies that it died by SIGKILL at that event,
// and reads the log back.
package crashkit

import (
	"bufio"
	"encoding/json"
	"fmt"
	"os"
	"os/exec"
	"path/filepath"
	"sort"
	"strconv"
	"strings"
	"sync"
	"syscall"
	"time"
)

// EnvVar carries the JSON plan to the child.
const EnvVar = "VERIF_CRASHKIT_PLAN"

// Crash models.
const (
	ModeNone      = "none"
	ModeDeath     = "death"
	ModePowerLoss = "powerloss"
)

// Event is one interposed I/O call, reported BEFORE it is performed (except
// kinds that are by definition "after", like ldb-commit-post).  Kinds that the
// power-loss tracker understands: blk-write (Off,N), blk-trunc (Off = new size),
// blk-sync, blk-delete; every other kind is only logged.
type Event struct {
	Kind    string
	FileNum uint32
	Off     int64
	N       int
}

// Plan tells a child what to do.
type Plan struct {
	Dir     string          `json:"dir"`     // scratch directory: log, child stdout/stderr; the database lives below it
	KillAt  int             `json:"kill_at"` // 1-based event number at which to die; 0 = run to completion
	Mode    string          `json:"mode"`    // ModeDeath | ModePowerLoss
	Role    string          `json:"role"`    // free-form: which child routine to run ("workload", "recovery", ...)
	Payload json.RawMessage `json:"payload"` // worker specific (workload seed, configuration, ...)
}

// LogName is the file name of the combined event/op log inside Plan.Dir.
const LogName = "crash.log"

// ChildPlan returns the plan if this process was spawned by Spawn.
func ChildPlan() (*Plan, bool) {
	s := os.Getenv(EnvVar)
	if s == "" {
		return nil, false
	}
	var p Plan
	if err := json.Unmarshal([]byte(s), &p); err != nil {
		fmt.Fprintln(os.Stderr, "crashkit: bad plan:", err)
		os.Exit(97)
	}
	return &p, true
}

// ---------------------------------------------------------------------------
// child side

// Recorder logs events and op lines and executes the crash.
type Recorder struct {
	mu     sync.Mutex
	plan   *Plan
	log    *os.File
	n      int
	path   func(fileNum uint32) string
	cur    map[uint32]int64 // current length of each tracked file
	synced map[uint32]int64 // length at the last Sync
}

// NewRecorder opens (appends to) the log in plan.Dir.  path maps a file number
// of the event stream to the file on disk (needed for the power-loss model only).
func NewRecorder(plan *Plan, path func(fileNum uint32) string) (*Recorder, error) {
	f, err := os.OpenFile(filepath.Join(plan.Dir, LogName), os.O_CREATE|os.O_WRONLY|os.O_APPEND, 0o644)
	if err != nil {
		return nil, err
	}
	return &Recorder{plan: plan, log: f, path: path, cur: map[uint32]int64{}, synced: map[uint32]int64{}}, nil
}

// KnownFile declares a file that already exists (and is considered durable up to
// size) when the recorder starts, e.g. in a recovery child.
func (r *Recorder) KnownFile(fileNum uint32, size int64) {
	r.mu.Lock()
	r.cur[fileNum], r.synced[fileNum] = size, size
	r.mu.Unlock()
}

// Count returns the number of events seen so far.
func (r *Recorder) Count() int {
	r.mu.Lock()
	defer r.mu.Unlock()
	return r.n
}

// Op appends a harness-level line ("before call X", "X returned ok", ...).
func (r *Recorder) Op(format string, a ...any) {
	s := "O " + strings.ReplaceAll(fmt.Sprintf(format, a...), "\n", " ") + "\n"
	r.mu.Lock()
	_, _ = r.log.WriteString(s)
	r.mu.Unlock()
}

// Event logs the event, updates the durability bookkeeping and, at event number
// Plan.KillAt, crashes the process.  It always returns nil, so it can be used
// directly as (or inside) the fault-injection callback.
func (r *Recorder) Event(e Event) error {
	r.mu.Lock()
	defer r.mu.Unlock()
	r.n++
	_, _ = r.log.WriteString(fmt.Sprintf("E %d %s %d %d %d\n", r.n, e.Kind, e.FileNum, e.Off, e.N))
	if r.plan.KillAt > 0 && r.n == r.plan.KillAt {
		r.crash()
	}
	switch e.Kind {
	case "blk-write":
		if end := e.Off + int64(e.N); end > r.cur[e.FileNum] {
			r.cur[e.FileNum] = end
		}
		if _, ok := r.synced[e.FileNum]; !ok {
			r.synced[e.FileNum] = 0
		}
	case "blk-trunc":
		r.cur[e.FileNum] = e.Off
		if r.synced[e.FileNum] > e.Off {
			r.synced[e.FileNum] = e.Off
		}
	case "blk-sync":
		r.synced[e.FileNum] = r.cur[e.FileNum]
	case "blk-delete":
		delete(r.cur, e.FileNum)
		delete(r.synced, e.FileNum)
	}
	return nil
}

// crash never returns.
func (r *Recorder) crash() {
	if r.plan.Mode == ModePowerLoss && r.path != nil {
		var files []int
		for f := range r.cur {
			files = append(files, int(f))
		}
		sort.Ints(files)
		for _, f := range files {
			fn := uint32(f)
			if r.synced[fn] < r.cur[fn] {
				err := os.Truncate(r.path(fn), r.synced[fn])
				_, _ = r.log.WriteString(fmt.Sprintf("T %d %d %d %v\n", fn, r.cur[fn], r.synced[fn], err == nil))
			}
		}
	}
	_, _ = r.log.WriteString(fmt.Sprintf("K %d %s\n", r.n, r.plan.Mode))
	_ = syscall.Kill(os.Getpid(), syscall.SIGKILL)
	select {} // SIGKILL is not instantaneous; never run another instruction of the workload
}

// ---------------------------------------------------------------------------
// parent side

// Outcome describes how a child ended.
type Outcome struct {
	Killed   bool // died by SIGKILL (the expected end of a crash run)
	ExitCode int  // exit code when it exited by itself
	TimedOut bool // the watchdog had to kill it: the run is inconclusive
	Output   string
}

// Spawn re-executes the current binary as a crash child and waits for it.
// The child's stdout/stderr go to Plan.Dir/child.out.  timeout is a watchdog,
// not an oracle: a child that exceeds it is reported as TimedOut.
func Spawn(plan Plan, timeout time.Duration) (Outcome, error) {
	exe, err := os.Executable()
	if err != nil {
		return Outcome{}, err
	}
	if err := os.MkdirAll(plan.Dir, 0o755); err != nil {
		return Outcome{}, err
	}
	pj, err := json.Marshal(plan)
	if err != nil {
		return Outcome{}, err
	}
	outPath := filepath.Join(plan.Dir, "child.out")
	out, err := os.OpenFile(outPath, os.O_CREATE|os.O_WRONLY|os.O_APPEND, 0o644)
	if err != nil {
		return Outcome{}, err
	}
	defer out.Close()
	cmd := exec.Command(exe)
	cmd.Env = append(os.Environ(), EnvVar+"="+string(pj))
	cmd.Stdout, cmd.Stderr = out, out
	if err := cmd.Start(); err != nil {
		return Outcome{}, err
	}
	var timedOut bool
	var tmu sync.Mutex
	timer := time.AfterFunc(timeout, func() {
		tmu.Lock()
		timedOut = true
		tmu.Unlock()
		_ = cmd.Process.Kill()
	})
	werr := cmd.Wait()
	timer.Stop()
	tmu.Lock()
	to := timedOut
	tmu.Unlock()
	o := Outcome{TimedOut: to}
	if ws, ok := cmd.ProcessState.Sys().(syscall.WaitStatus); ok {
		if ws.Signaled() && ws.Signal() == syscall.SIGKILL && !to {
			o.Killed = true
		}
		if ws.Exited() {
			o.ExitCode = ws.ExitStatus()
		}
	} else if werr != nil {
		o.ExitCode = -1
	}
	if b, err := os.ReadFile(outPath); err == nil {
		if len(b) > 4000 {
			b = b[len(b)-4000:]
		}
		o.Output = string(b)
	}
	return o, nil
}

// Line is one parsed log line.
type Line struct {
	Type  byte   // 'E' event, 'O' op, 'T' power-loss truncation, 'K' kill marker
	Index int    // event number (E, K)
	Event Event  // E
	Op    string // O: text; K: mode
	// T: file FileNum cut from Off (written length) to N (synced length)
}

// ReadLog parses Plan.Dir/crash.log.  A torn last line is ignored.
func ReadLog(dir string) ([]Line, error) {
	f, err := os.Open(filepath.Join(dir, LogName))
	if err != nil {
		return nil, err
	}
	defer f.Close()
	var out []Line
	sc := bufio.NewScanner(f)
	sc.Buffer(make([]byte, 1<<20), 1<<20)
	for sc.Scan() {
		t := sc.Text()
		if len(t) < 2 {
			continue
		}
		switch t[0] {
		case 'O':
			out = append(out, Line{Type: 'O', Op: t[2:]})
		case 'E':
			p := strings.Fields(t)
			if len(p) != 6 {
				continue
			}
			idx, _ := strconv.Atoi(p[1])
			fn, _ := strconv.ParseUint(p[3], 10, 32)
			off, _ := strconv.ParseInt(p[4], 10, 64)
			n, _ := strconv.Atoi(p[5])
			out = append(out, Line{Type: 'E', Index: idx, Event: Event{Kind: p[2], FileNum: uint32(fn), Off: off, N: n}})
		case 'T':
			p := strings.Fields(t)
			if len(p) < 4 {
				continue
			}
			fn, _ := strconv.ParseUint(p[1], 10, 32)
			from, _ := strconv.ParseInt(p[2], 10, 64)
			to, _ := strconv.Atoi(p[3])
			out = append(out, Line{Type: 'T', Event: Event{Kind: "powerloss-truncate", FileNum: uint32(fn), Off: from, N: to}})
		case 'K':
			p := strings.Fields(t)
			if len(p) < 3 {
				continue
			}
			idx, _ := strconv.Atoi(p[1])
			out = append(out, Line{Type: 'K', Index: idx, Op: p[2]})
		}
	}
	return out, nil
}

// DiedAt checks the log of a crash run: the last event logged must be number k
// and the kill marker must be present.
func DiedAt(lines []Line, k int) bool {
	last, killed := 0, false
	for _, l := range lines {
		switch l.Type {
		case 'E':
			last = l.Index
		case 'K':
			killed = l.Index == k
		}
	}
	return killed && last == k
}

// CopyDir copies a directory tree of regular files (used to try several
// continuations from the same post-crash disk state).
func CopyDir(src, dst string) error {
	return filepath.Walk(src, func(p string, info os.FileInfo, err error) error {
		if err != nil {
			return err
		}
		rel, _ := filepath.Rel(src, p)
		t := filepath.Join(dst, rel)
		if info.IsDir() {
			return os.MkdirAll(t, 0o755)
		}
		if !info.Mode().IsRegular() {
			return nil
		}
		b, err := os.ReadFile(p)
		if err != nil {
			return err
		}
		return os.WriteFile(t, b, 0o644)
	})
}
