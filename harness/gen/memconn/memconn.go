// Package memconn is a harness-owned in-memory full-duplex connection with net.Conn semantics.
//
// Unlike net.Pipe each direction has an UNBOUNDED buffer, so both ends may write before either
// reads (the BIP324 handshake does exactly that and deadlocks on net.Pipe), and a whole protocol
// exchange can be sequenced deterministically from one goroutine.
//
// Semantics:
//
//   - Write never blocks. It fails with io.ErrClosedPipe once the local end was closed (Close or
//     CloseWrite) or the remote end was fully closed.
//
//   - Read blocks until data is available, the remote end closed its write side (buffered data is
//     drained first, then io.EOF), the local end is closed (io.ErrClosedPipe), or the read
//     deadline passes (os.ErrDeadlineExceeded, a net.Error with Timeout() == true).
//     In non-blocking mode (SetNonBlocking) a Read on an empty open pipe returns ErrWouldBlock
//     instead of blocking: a single-goroutine script turns a would-be deadlock into an error.
//
//   - Deadlines follow net.Conn: a zero time clears them; a deadline in the past fails at once.
//
//   - Hooks (optional, per end, replaceable at any time) are invoked once per Read/Write call
//     without any lock held, so they may sleep (delay), return an error (fault), record the
//     bytes (capture) or change them (mutation).
//
//   - Deadlock detection (SetDeadlockDetection, off by default) is for phases in which each end is driven by
//     exactly ONE goroutine that both reads and writes (e.g. a handshake): if a Read would block while the
//     other end is also blocked in Read and nothing is buffered in either direction, neither side can ever
//     make progress, and both Reads fail with ErrDeadlock instead of hanging. The verdict is exact under
//     that assumption (no clock involved).
//
// Both ends are safe for concurrent use by multiple goroutines.
package memconn

import (
	"errors"
	"io"
	"net"
	"os"
	"sync"
	"time"
)

// ErrWouldBlock is returned by Read in non-blocking mode when no byte is buffered and the peer
// has not closed.
var ErrWouldBlock = errors.New("memconn: read would block (no data buffered, peer still open)")

// ErrDeadlock is returned by Read when deadlock detection is on and both ends wait for each other.
var ErrDeadlock = errors.New("memconn: deadlock (both ends blocked in Read, nothing buffered)")

// Hooks are optional per-call interposers of one end. Any field may be nil.
type Hooks struct {
	// BeforeWrite receives a private copy of the bytes the caller passed to Write and returns
	// the bytes that are actually queued for the peer (the same slice, a mutated, shorter,
	// longer or empty one). A non-nil error is returned to the caller of Write after `out`
	// has been queued; the caller then sees n = min(len(out), len(p)). With a nil error the
	// caller always sees n = len(p). The hook may sleep to model delay.
	BeforeWrite func(p []byte) (out []byte, err error)

	// BeforeRead is called with the size of the caller's buffer. It returns an upper bound for
	// the number of bytes delivered by this call (<= 0: no bound) - short reads - and an
	// error that, when non-nil, is returned at once without consuming data. May sleep.
	BeforeRead func(want int) (max int, err error)

	// AfterRead sees the bytes just delivered to the caller (after a successful Read with
	// n > 0); it may record them or change them in place.
	AfterRead func(p []byte)
}

// Addr is the net.Addr of a memconn end.
type Addr struct{ Name string }

// Network implements net.Addr.
func (Addr) Network() string { return "memconn" }

// String implements net.Addr.
func (a Addr) String() string { return a.Name }

// queue is one direction of the connection; all queues of a pair are guarded by pair.mu.
type queue struct {
	cond    *sync.Cond
	buf     []byte // unread bytes
	off     int    // read offset into buf
	wclosed bool   // writer closed its side: EOF after drain
	rclosed bool   // reader closed its side: writes fail, reads fail
	total   int64  // bytes ever queued
	waiting int    // readers currently blocked on this queue
}

// pair is the state shared by the two ends.
type pair struct {
	mu         sync.Mutex
	detect     bool // deadlock detection enabled
	deadlocked bool // sticky until detection is switched off
}

func newQueue(p *pair) *queue {
	q := &queue{}
	q.cond = sync.NewCond(&p.mu)
	return q
}

type timeoutError struct{}

func (timeoutError) Error() string   { return "memconn: i/o timeout" }
func (timeoutError) Timeout() bool   { return true }
func (timeoutError) Temporary() bool { return true }
func (timeoutError) Is(t error) bool { return t == os.ErrDeadlineExceeded }

var errTimeout net.Error = timeoutError{}

// Conn is one end of the connection.
type Conn struct {
	p             *pair
	rd, wr        *queue
	local, remote Addr

	mu       sync.Mutex // guards the fields below
	hooks    Hooks
	nonblock bool
	rdl, wdl time.Time
	rtimer   *time.Timer
	closed   bool
}

var _ net.Conn = (*Conn)(nil)

// Pipe returns the two connected ends.
func Pipe() (*Conn, *Conn) { return NamedPipe("memconn:a", "memconn:b") }

// NamedPipe is Pipe with chosen address strings (peer code often logs or keys on RemoteAddr).
func NamedPipe(a, b string) (*Conn, *Conn) {
	p := &pair{}
	ab, ba := newQueue(p), newQueue(p)
	ca := &Conn{p: p, rd: ba, wr: ab, local: Addr{a}, remote: Addr{b}}
	cb := &Conn{p: p, rd: ab, wr: ba, local: Addr{b}, remote: Addr{a}}
	return ca, cb
}

// SetHooks installs (replaces) the hooks of this end.
func (c *Conn) SetHooks(h Hooks) { c.mu.Lock(); c.hooks = h; c.mu.Unlock() }

// SetNonBlocking switches this end's Read between blocking (default) and ErrWouldBlock mode.
func (c *Conn) SetNonBlocking(on bool) {
	c.mu.Lock()
	c.nonblock = on
	c.mu.Unlock()
	c.p.mu.Lock()
	c.rd.cond.Broadcast()
	c.p.mu.Unlock()
}

// SetDeadlockDetection switches deadlock detection for the PAIR on or off (see the package comment for the
// one-goroutine-per-end assumption). Switching it off also clears a detected deadlock.
func (c *Conn) SetDeadlockDetection(on bool) {
	c.p.mu.Lock()
	c.p.detect = on
	if !on {
		c.p.deadlocked = false
	}
	c.rd.cond.Broadcast()
	c.wr.cond.Broadcast()
	c.p.mu.Unlock()
}

// Buffered returns the number of bytes queued for this end and not yet read.
func (c *Conn) Buffered() int {
	c.p.mu.Lock()
	defer c.p.mu.Unlock()
	return len(c.rd.buf) - c.rd.off
}

// BytesWritten returns the number of bytes this end has queued for its peer so far.
func (c *Conn) BytesWritten() int64 {
	c.p.mu.Lock()
	defer c.p.mu.Unlock()
	return c.wr.total
}

// Read implements net.Conn.
func (c *Conn) Read(p []byte) (int, error) {
	c.mu.Lock()
	h := c.hooks
	c.mu.Unlock()
	limit := len(p)
	if h.BeforeRead != nil {
		max, err := h.BeforeRead(len(p))
		if err != nil {
			return 0, err
		}
		if max > 0 && max < limit {
			limit = max
		}
	}
	q, pr := c.rd, c.p
	pr.mu.Lock()
	for {
		if q.rclosed {
			pr.mu.Unlock()
			return 0, io.ErrClosedPipe
		}
		if len(p) == 0 {
			pr.mu.Unlock()
			return 0, nil
		}
		if avail := len(q.buf) - q.off; avail > 0 {
			n := copy(p[:limit], q.buf[q.off:])
			q.off += n
			if q.off == len(q.buf) {
				q.buf, q.off = q.buf[:0], 0
			} else if q.off > 1<<16 && q.off > len(q.buf)/2 {
				q.buf = append(q.buf[:0], q.buf[q.off:]...)
				q.off = 0
			}
			pr.mu.Unlock()
			if h.AfterRead != nil {
				h.AfterRead(p[:n])
			}
			return n, nil
		}
		if q.wclosed {
			pr.mu.Unlock()
			return 0, io.EOF
		}
		c.mu.Lock()
		dl, nb := c.rdl, c.nonblock
		c.mu.Unlock()
		if nb {
			pr.mu.Unlock()
			return 0, ErrWouldBlock
		}
		if !dl.IsZero() && !time.Now().Before(dl) {
			pr.mu.Unlock()
			return 0, errTimeout
		}
		if pr.detect {
			// the other end reads from c.wr; if a reader is parked there with nothing to read while this end has
			// nothing to read either, the two single-goroutine ends wait for each other forever
			other := c.wr
			if pr.deadlocked || (other.waiting > 0 && len(other.buf)-other.off == 0) {
				pr.deadlocked = true
				other.cond.Broadcast()
				pr.mu.Unlock()
				return 0, ErrDeadlock
			}
		}
		q.waiting++
		q.cond.Wait()
		q.waiting--
	}
}

// Write implements net.Conn. It never blocks.
func (c *Conn) Write(p []byte) (int, error) {
	c.mu.Lock()
	h := c.hooks
	dl := c.wdl
	c.mu.Unlock()
	if !dl.IsZero() && !time.Now().Before(dl) {
		return 0, errTimeout
	}
	out := p
	var herr error
	if h.BeforeWrite != nil {
		out, herr = h.BeforeWrite(append([]byte(nil), p...))
	}
	q := c.wr
	c.p.mu.Lock()
	if q.wclosed || q.rclosed {
		c.p.mu.Unlock()
		return 0, io.ErrClosedPipe
	}
	if len(out) > 0 {
		q.buf = append(q.buf, out...)
		q.total += int64(len(out))
		q.cond.Broadcast()
	}
	c.p.mu.Unlock()
	if herr != nil {
		n := len(out)
		if n > len(p) {
			n = len(p)
		}
		return n, herr
	}
	return len(p), nil
}

// CloseWrite half-closes: the peer reads the buffered bytes and then io.EOF; this end can still read.
func (c *Conn) CloseWrite() error {
	q := c.wr
	c.p.mu.Lock()
	q.wclosed = true
	q.cond.Broadcast()
	c.p.mu.Unlock()
	return nil
}

// Close implements net.Conn: pending and later Reads of this end fail with io.ErrClosedPipe, the
// peer drains what was written and then reads io.EOF, the peer's Writes fail with io.ErrClosedPipe.
// Closing twice returns io.ErrClosedPipe.
func (c *Conn) Close() error {
	c.mu.Lock()
	if c.closed {
		c.mu.Unlock()
		return io.ErrClosedPipe
	}
	c.closed = true
	if c.rtimer != nil {
		c.rtimer.Stop()
		c.rtimer = nil
	}
	c.mu.Unlock()
	c.CloseWrite()
	q := c.rd
	c.p.mu.Lock()
	q.rclosed = true
	q.cond.Broadcast()
	c.p.mu.Unlock()
	return nil
}

// LocalAddr implements net.Conn.
func (c *Conn) LocalAddr() net.Addr { return c.local }

// RemoteAddr implements net.Conn.
func (c *Conn) RemoteAddr() net.Addr { return c.remote }

// SetDeadline implements net.Conn.
func (c *Conn) SetDeadline(t time.Time) error {
	c.SetReadDeadline(t)
	return c.SetWriteDeadline(t)
}

// SetReadDeadline implements net.Conn. Blocked Reads observe the new deadline.
func (c *Conn) SetReadDeadline(t time.Time) error {
	c.mu.Lock()
	if c.closed {
		c.mu.Unlock()
		return io.ErrClosedPipe
	}
	c.rdl = t
	if c.rtimer != nil {
		c.rtimer.Stop()
		c.rtimer = nil
	}
	if !t.IsZero() {
		q, pr := c.rd, c.p
		wake := func() { pr.mu.Lock(); q.cond.Broadcast(); pr.mu.Unlock() }
		if d := time.Until(t); d > 0 {
			c.rtimer = time.AfterFunc(d, wake)
		}
	}
	c.mu.Unlock()
	// wake blocked readers so that they re-read the deadline
	c.p.mu.Lock()
	c.rd.cond.Broadcast()
	c.p.mu.Unlock()
	return nil
}

// SetWriteDeadline implements net.Conn. Writes never block; a deadline in the past makes them fail.
func (c *Conn) SetWriteDeadline(t time.Time) error {
	c.mu.Lock()
	defer c.mu.Unlock()
	if c.closed {
		return io.ErrClosedPipe
	}
	c.wdl = t
	return nil
}

// Recorder is a convenience capture sink usable from hooks; it is safe for concurrent use.
type Recorder struct {
	mu sync.Mutex
	b  []byte
}

// Add appends a copy of p.
func (r *Recorder) Add(p []byte) { r.mu.Lock(); r.b = append(r.b, p...); r.mu.Unlock() }

// Bytes returns a copy of everything recorded so far.
func (r *Recorder) Bytes() []byte {
	r.mu.Lock()
	defer r.mu.Unlock()
	return append([]byte(nil), r.b...)
}

// Len returns the number of recorded bytes.
func (r *Recorder) Len() int { r.mu.Lock(); defer r.mu.Unlock(); return len(r.b) }

// Reset discards the recording.
func (r *Recorder) Reset() { r.mu.Lock(); r.b = r.b[:0]; r.mu.Unlock() }

// CaptureWrites returns hooks that record everything this end writes into rec.
func CaptureWrites(rec *Recorder) Hooks {
	return Hooks{BeforeWrite: func(p []byte) ([]byte, error) { rec.Add(p); return p, nil }}
}
