package memconn

import (
	"bytes"
	"errors"
	"io"
	"net"
	"os"
	"sync"
	"testing"
	"time"
)

func TestBothWriteFirst(t *testing.T) {
	a, b := Pipe()
	big := bytes.Repeat([]byte{7}, 1<<20)
	if n, err := a.Write(big); n != len(big) || err != nil {
		t.Fatal(n, err)
	}
	if n, err := b.Write(big); n != len(big) || err != nil {
		t.Fatal(n, err)
	}
	got := make([]byte, len(big))
	if _, err := io.ReadFull(a, got); err != nil || !bytes.Equal(got, big) {
		t.Fatal(err)
	}
	if _, err := io.ReadFull(b, got); err != nil || !bytes.Equal(got, big) {
		t.Fatal(err)
	}
}

func TestCloseSemantics(t *testing.T) {
	a, b := Pipe()
	a.Write([]byte("xyz"))
	a.Close()
	buf := make([]byte, 2)
	if n, err := b.Read(buf); n != 2 || err != nil {
		t.Fatal(n, err)
	}
	if n, err := b.Read(buf); n != 1 || err != nil {
		t.Fatal(n, err)
	}
	if _, err := b.Read(buf); err != io.EOF {
		t.Fatal(err)
	}
	if _, err := b.Write([]byte{1}); err != io.ErrClosedPipe {
		t.Fatal(err)
	}
	if _, err := a.Read(buf); err != io.ErrClosedPipe {
		t.Fatal(err)
	}
	if _, err := a.Write(buf); err != io.ErrClosedPipe {
		t.Fatal(err)
	}
	if err := a.Close(); err != io.ErrClosedPipe {
		t.Fatal(err)
	}
}

func TestCloseUnblocksReader(t *testing.T) {
	a, b := Pipe()
	done := make(chan error, 2)
	go func() { _, err := a.Read(make([]byte, 1)); done <- err }()
	go func() { _, err := b.Read(make([]byte, 1)); done <- err }()
	time.Sleep(10 * time.Millisecond)
	a.Close()
	e1, e2 := <-done, <-done
	if !((e1 == io.EOF && e2 == io.ErrClosedPipe) || (e2 == io.EOF && e1 == io.ErrClosedPipe)) {
		t.Fatal(e1, e2)
	}
}

func TestDeadline(t *testing.T) {
	a, _ := Pipe()
	a.SetReadDeadline(time.Now().Add(20 * time.Millisecond))
	_, err := a.Read(make([]byte, 1))
	var ne net.Error
	if !errors.As(err, &ne) || !ne.Timeout() || !errors.Is(err, os.ErrDeadlineExceeded) {
		t.Fatal(err)
	}
	// extending the deadline of a blocked reader, then clearing it
	a.SetReadDeadline(time.Time{})
	done := make(chan error, 1)
	go func() { _, err := a.Read(make([]byte, 1)); done <- err }()
	time.Sleep(5 * time.Millisecond)
	a.SetReadDeadline(time.Now().Add(-time.Second))
	if err := <-done; !errors.Is(err, os.ErrDeadlineExceeded) {
		t.Fatal(err)
	}
	a.SetWriteDeadline(time.Now().Add(-time.Second))
	if _, err := a.Write([]byte{1}); !errors.Is(err, os.ErrDeadlineExceeded) {
		t.Fatal(err)
	}
}

func TestNonBlockingAndHooks(t *testing.T) {
	a, b := Pipe()
	b.SetNonBlocking(true)
	if _, err := b.Read(make([]byte, 1)); err != ErrWouldBlock {
		t.Fatal(err)
	}
	var rec Recorder
	a.SetHooks(Hooks{BeforeWrite: func(p []byte) ([]byte, error) {
		rec.Add(p)
		p[0] ^= 1
		return append(p, 9), nil
	}})
	var seen []byte
	b.SetHooks(Hooks{
		BeforeRead: func(int) (int, error) { return 1, nil },
		AfterRead:  func(p []byte) { seen = append(seen, p...) },
	})
	src := []byte{2, 3}
	if n, err := a.Write(src); n != 2 || err != nil || src[0] != 2 {
		t.Fatal(n, err, src)
	}
	buf := make([]byte, 8)
	var got []byte
	for {
		n, err := b.Read(buf)
		if err == ErrWouldBlock {
			break
		}
		if n != 1 || err != nil {
			t.Fatal(n, err)
		}
		got = append(got, buf[:n]...)
	}
	if !bytes.Equal(got, []byte{3, 3, 9}) || !bytes.Equal(seen, got) || !bytes.Equal(rec.Bytes(), []byte{2, 3}) {
		t.Fatal(got, seen, rec.Bytes())
	}
	boom := errors.New("boom")
	b.SetHooks(Hooks{BeforeRead: func(int) (int, error) { return 0, boom }})
	if _, err := b.Read(buf); err != boom {
		t.Fatal(err)
	}
	a.SetHooks(Hooks{BeforeWrite: func(p []byte) ([]byte, error) { return p[:1], boom }})
	if n, err := a.Write([]byte{1, 2, 3}); n != 1 || err != boom {
		t.Fatal(n, err)
	}
}

func TestConcurrent(t *testing.T) {
	a, b := Pipe()
	const n = 200000
	var wg sync.WaitGroup
	for _, c := range []*Conn{a, b} {
		wg.Add(2)
		go func(c *Conn) {
			defer wg.Done()
			for i := 0; i < n; i += 100 {
				chunk := make([]byte, 100)
				for j := range chunk {
					chunk[j] = byte(i + j)
				}
				c.Write(chunk)
			}
			c.CloseWrite()
		}(c)
		go func(c *Conn) {
			defer wg.Done()
			buf := make([]byte, 333)
			k := 0
			for {
				m, err := c.Read(buf)
				for j := 0; j < m; j++ {
					if buf[j] != byte(k) {
						t.Errorf("byte %d", k)
						return
					}
					k++
				}
				if err == io.EOF {
					break
				}
			}
			if k != n {
				t.Errorf("got %d bytes", k)
			}
		}(c)
	}
	wg.Wait()
}

func TestDeadlockDetection(t *testing.T) {
	a, b := Pipe()
	a.SetDeadlockDetection(true)
	errs := make(chan error, 2)
	// each end is driven by one goroutine; both read with nothing in flight
	go func() { _, err := a.Read(make([]byte, 1)); errs <- err }()
	go func() { time.Sleep(5 * time.Millisecond); _, err := b.Read(make([]byte, 1)); errs <- err }()
	if e1, e2 := <-errs, <-errs; e1 != ErrDeadlock || e2 != ErrDeadlock {
		t.Fatal(e1, e2)
	}
	// buffered data is still delivered, and switching detection off clears the condition
	a.Write([]byte{7})
	buf := make([]byte, 1)
	if n, err := b.Read(buf); n != 1 || err != nil || buf[0] != 7 {
		t.Fatal(n, err)
	}
	a.SetDeadlockDetection(false)
	done := make(chan error, 1)
	go func() { _, err := a.Read(buf); done <- err }()
	time.Sleep(5 * time.Millisecond)
	b.Write([]byte{1})
	if err := <-done; err != nil {
		t.Fatal(err)
	}
	// a reader whose peer is busy (not blocked) must keep waiting, not report a deadlock
	a.SetDeadlockDetection(true)
	go func() { _, err := a.Read(buf); done <- err }()
	time.Sleep(5 * time.Millisecond)
	b.Write([]byte{2})
	if err := <-done; err != nil {
		t.Fatal(err)
	}
}
