package chaingen

import (
	"fmt"
	"time"

	"verif/mon"
	"verif/ref/refchain"

	"github.com/btcsuite/btcd/chainhash/v2"
	"github.com/btcsuite/btcd/wire/v2"
)

// Invalid block recipes shared by the integrated checks. Each returns BlockOpts additions.
type Recipe struct {
	Name   string
	Label  refchain.Validity
	Rule   string
	Mutate func(d *Draft)
}

// BasicRecipes: a small set covering each rejection class (see sim.ruleClass) plus connect-time failures.
func BasicRecipes(clockNow int64) []Recipe {
	return []Recipe{
		{Name: "overpay", Label: refchain.InvalidConnect, Rule: "cv:coinbase-overpay", Mutate: func(d *Draft) {
			d.Msg.Transactions[0].TxOut[0].Value++
		}},
		{Name: "missing-input", Label: refchain.InvalidConnect, Rule: "cv:missing-input", Mutate: func(d *Draft) {
			tx := wire.NewMsgTx(1)
			var h chainhash.Hash
			h[0], h[5] = 0xee, byte(d.Height)
			tx.AddTxIn(&wire.TxIn{PreviousOutPoint: wire.OutPoint{Hash: h, Index: 0}, Sequence: 0xffffffff})
			tx.AddTxOut(&wire.TxOut{Value: 1, PkScript: []byte{0x51}})
			d.Msg.Transactions = append(d.Msg.Transactions, tx)
		}},
		{Name: "bad-merkle", Label: refchain.InvalidEarly, Rule: "bs:merkle-root", Mutate: func(d *Draft) {
			d.Finalize(true)
			d.Msg.Header.MerkleRoot[3] ^= 0x40
			d.SkipMerkle = true
		}},
		{Name: "time-too-old", Label: refchain.InvalidEarly, Rule: "hc:time-too-old", Mutate: func(d *Draft) {
			d.Msg.Header.Timestamp = time.Unix(d.Parent.MTP(), 0)
			// keep the difficulty consistent with the new timestamp
			d.Msg.Header.Bits = d.G.RequiredBits(d.Parent, d.Parent.MTP())
		}},
		{Name: "high-hash", Label: refchain.InvalidEarly, Rule: "hs:high-hash", Mutate: func(d *Draft) {
			d.Finalize(true)
			d.SkipSolve = true
			target, _ := refchain.CompactToTarget(d.Msg.Header.Bits)
			for n := uint32(0); ; n++ {
				d.Msg.Header.Nonce = n
				if !HashLEQ(d.Msg.Header.BlockHash(), target) {
					break
				}
			}
		}},
		{Name: "bad-cb-height", Label: refchain.InvalidEarly, Rule: "bc:coinbase-height", Mutate: func(d *Draft) {
			cb := d.Msg.Transactions[0]
			old := HeightPush(d.Height)
			cb.TxIn[0].SignatureScript = append(HeightPush(d.Height+1), cb.TxIn[0].SignatureScript[len(old):]...)
		}},
		{Name: "time-too-new", Label: refchain.InvalidEarly, Rule: "hs:time-too-new", Mutate: func(d *Draft) {
			d.Msg.Header.Timestamp = time.Unix(clockNow+7201, 0)
			d.Msg.Header.Bits = d.G.RequiredBits(d.Parent, clockNow+7201)
		}},
	}
}

// TreeOpts steer RandomTree.
type TreeOpts struct {
	Nodes               int
	ForkChance          int // percent chance that a new block forks off a random existing block instead of extending a leaf
	InvalidMax          int // maximum number of invalid blocks
	Recipes             []Recipe
	EasyChance          int // varwork family: percent of min-difficulty blocks
	NTx                 int // -1 random
	ExtendInvalidChance int // percent chance to allow building on an invalid block
}

// RandomTree grows the generator's tree by o.Nodes blocks and returns them in creation (topological) order.
func (g *Gen) RandomTree(r *mon.Rand, o TreeOpts) []*refchain.Block {
	var made []*refchain.Block
	invalid := 0
	leaves := []*refchain.Block{g.Tree.All[len(g.Tree.All)-1]}
	for i := 0; i < o.Nodes; i++ {
		var parent *refchain.Block
		if r.Intn(100) < o.ForkChance {
			parent = g.Tree.All[r.Intn(len(g.Tree.All))]
		} else {
			parent = leaves[r.Intn(len(leaves))]
			// bias to the most recent leaf so that chains grow long
			if r.Chance(1, 2) {
				parent = leaves[len(leaves)-1]
			}
		}
		if !parent.ChainValid() && r.Intn(100) >= o.ExtendInvalidChance {
			// walk up to the nearest valid ancestor
			for !parent.ChainValid() {
				parent = parent.Parent
			}
		}
		bo := BlockOpts{NTx: o.NTx, Easy: r.Intn(100) < o.EasyChance}
		if invalid < o.InvalidMax && len(o.Recipes) > 0 && r.Chance(1, 6) && parent.ChainValid() {
			rc := o.Recipes[r.Intn(len(o.Recipes))]
			bo.Mutate, bo.Label, bo.Rule = rc.Mutate, rc.Label, rc.Rule
			invalid++
		}
		g.names++
		bo.Name = fmt.Sprintf("n%d", g.names)
		b := g.Block(r, parent, bo)
		made = append(made, b)
		// maintain leaves
		nl := leaves[:0:0]
		for _, l := range leaves {
			if l != parent {
				nl = append(nl, l)
			}
		}
		leaves = append(nl, b)
	}
	return made
}
