// Package chaingen generates valid-by-construction transactions, blocks and block trees on a
// refchain model, for any of the node parameter families. Blocks are assembled with the package's own
// merkle / witness-commitment / coinbase-height / required-bits code (not btcd's), signed with btcd's
// signing helpers, and solved by brute force.
package chaingen

import (
	"crypto/sha256"
	"fmt"
	"math/big"
	"time"

	"verif/mon"
	"verif/node"
	"verif/ref/refchain"

	"github.com/btcsuite/btcd/address/v2"
	"github.com/btcsuite/btcd/btcec/v2"
	"github.com/btcsuite/btcd/btcec/v2/schnorr"
	"github.com/btcsuite/btcd/chaincfg/v2"
	"github.com/btcsuite/btcd/chainhash/v2"
	"github.com/btcsuite/btcd/txscript/v2"
	"github.com/btcsuite/btcd/wire/v2"
)

// Kind of output script the generator can create and later spend.
type Kind int

const (
	KTrue Kind = iota + 1 // OP_TRUE, anyone can spend (non-zero: the zero Kind means "not specified")
	KP2PKH
	KP2WPKH
	KP2SHTrue  // P2SH of the redeem script OP_TRUE
	KP2WSHTrue // P2WSH of the witness script OP_TRUE
	KP2TR      // BIP86 key path
	KP2PK
	KOpReturn // unspendable
	numKinds
)

type spendInfo struct {
	kind Kind
	key  int
}

// Spendable is an output together with its coin data.
type Spendable struct {
	Op   wire.OutPoint
	Coin refchain.Coin
}

// Gen is a generator bound to one parameter set and one model tree.
type Gen struct {
	P      *chaincfg.Params
	Family string
	Tree   *refchain.Tree
	keys   []*btcec.PrivateKey
	spend  map[string]spendInfo
	names  int
	// Segwit / taproot outputs are only created when the family has them active from genesis.
	Witness bool
	// MaxTx bounds the number of non-coinbase transactions per block (default 6).
	MaxTx int
	// StandardOnly restricts generated output scripts to standard, signature-locked kinds (relay-policy tests).
	StandardOnly bool
	// ClockNow, when non-zero, is the node's (fake) adjusted time: a block whose timestamp lies more than
	// two hours after it is labelled invalid (it inherits a too-new parent's timestamp).
	ClockNow int64
}

type ext struct {
	wallet []wire.OutPoint // spendable outputs of the generator after this block, in creation order
}

// New creates a generator; r seeds the key ring.
func New(p *chaincfg.Params, family string, r *mon.Rand) *Gen {
	g := &Gen{P: p, Family: family, spend: map[string]spendInfo{}, MaxTx: 6}
	g.Witness = family != node.FamPreFork
	for i := 0; i < 4; i++ {
		for {
			b := r.Bytes(32)
			k, _ := btcec.PrivKeyFromBytes(b)
			if !k.Key.IsZero() {
				g.keys = append(g.keys, k)
				break
			}
		}
	}
	g.Tree = refchain.NewTree(p.GenesisBlock)
	// the synthetic genesis coinbase pays OP_TRUE but the genesis coinbase is unspendable by rule
	g.Tree.Genesis.Ext = &ext{}
	g.spend[string([]byte{txscript.OP_TRUE})] = spendInfo{kind: KTrue}
	return g
}

func hash160(b []byte) []byte { return address.Hash160(b) }

// Script builds the pkScript of the given kind/key and remembers how to spend it.
func (g *Gen) Script(kind Kind, key int, r *mon.Rand) []byte {
	var pk []byte
	k := g.keys[key%len(g.keys)]
	switch kind {
	case KTrue:
		pk = []byte{txscript.OP_TRUE}
	case KP2PKH:
		pk = append([]byte{0x76, 0xa9, 0x14}, hash160(k.PubKey().SerializeCompressed())...)
		pk = append(pk, 0x88, 0xac)
	case KP2WPKH:
		pk = append([]byte{0x00, 0x14}, hash160(k.PubKey().SerializeCompressed())...)
	case KP2SHTrue:
		pk = append([]byte{0xa9, 0x14}, hash160([]byte{txscript.OP_TRUE})...)
		pk = append(pk, 0x87)
	case KP2WSHTrue:
		h := sha256.Sum256([]byte{txscript.OP_TRUE})
		pk = append([]byte{0x00, 0x20}, h[:]...)
	case KP2TR:
		out := txscript.ComputeTaprootKeyNoScript(k.PubKey())
		pk = append([]byte{0x51, 0x20}, schnorr.SerializePubKey(out)...)
	case KP2PK:
		ser := k.PubKey().SerializeCompressed()
		pk = append([]byte{byte(len(ser))}, ser...)
		pk = append(pk, 0xac)
	case KOpReturn:
		d := r.Bytes(r.Intn(20))
		pk = append([]byte{0x6a, byte(len(d))}, d...)
		return pk
	}
	g.spend[string(pk)] = spendInfo{kind: kind, key: key % len(g.keys)}
	return pk
}

// RandomKind picks an output kind (witness kinds only when allowed).
func (g *Gen) RandomKind(r *mon.Rand) Kind {
	if g.StandardOnly {
		ks := []Kind{KP2PKH, KP2PK}
		if g.Witness {
			ks = append(ks, KP2WPKH, KP2TR)
		}
		return ks[r.Intn(len(ks))]
	}
	for {
		var k Kind
		switch r.Intn(10) {
		case 0, 1, 2, 3:
			k = KTrue
		case 4:
			k = KP2PKH
		case 5:
			k = KP2WPKH
		case 6:
			k = KP2SHTrue
		case 7:
			k = KP2WSHTrue
		case 8:
			k = KP2TR
		default:
			k = KP2PK
		}
		if !g.Witness && (k == KP2WPKH || k == KP2WSHTrue || k == KP2TR) {
			continue
		}
		return k
	}
}

// CanSpend reports whether the generator knows how to spend the script.
func (g *Gen) CanSpend(pk []byte) bool { _, ok := g.spend[string(pk)]; return ok }

// SignTx fills in sigScripts / witnesses for all inputs. prev[i] is the coin spent by input i.
func (g *Gen) SignTx(tx *wire.MsgTx, prev []refchain.Coin) error {
	fetcher := txscript.NewMultiPrevOutFetcher(nil)
	for i, in := range tx.TxIn {
		fetcher.AddPrevOut(in.PreviousOutPoint, &wire.TxOut{Value: prev[i].Amount, PkScript: prev[i].PkScript})
	}
	hashes := txscript.NewTxSigHashes(tx, fetcher)
	for i := range tx.TxIn {
		c := prev[i]
		si, ok := g.spend[string(c.PkScript)]
		if !ok {
			return fmt.Errorf("chaingen: don't know how to spend %x", c.PkScript)
		}
		key := g.keys[si.key]
		switch si.kind {
		case KTrue:
			tx.TxIn[i].SignatureScript = nil
		case KP2PKH:
			s, err := txscript.SignatureScript(tx, i, c.PkScript, txscript.SigHashAll, key, true)
			if err != nil {
				return err
			}
			tx.TxIn[i].SignatureScript = s
		case KP2PK:
			sig, err := txscript.RawTxInSignature(tx, i, c.PkScript, txscript.SigHashAll, key)
			if err != nil {
				return err
			}
			tx.TxIn[i].SignatureScript = append([]byte{byte(len(sig))}, sig...)
		case KP2WPKH:
			w, err := txscript.WitnessSignature(tx, hashes, i, c.Amount, c.PkScript, txscript.SigHashAll, key, true)
			if err != nil {
				return err
			}
			tx.TxIn[i].Witness = w
		case KP2SHTrue:
			tx.TxIn[i].SignatureScript = []byte{0x01, txscript.OP_TRUE}
		case KP2WSHTrue:
			tx.TxIn[i].Witness = wire.TxWitness{[]byte{txscript.OP_TRUE}}
		case KP2TR:
			w, err := txscript.TaprootWitnessSignature(tx, hashes, i, c.Amount, c.PkScript, txscript.SigHashDefault, key)
			if err != nil {
				return err
			}
			tx.TxIn[i].Witness = w
		}
	}
	return nil
}

// TxOpts steer RandomTx.
type TxOpts struct {
	Version  int32
	LockTime uint32
	Sequence uint32 // applied to every input when non-zero (default 0xffffffff)
	MaxIn    int
	MaxOut   int
	FeeMax   int64
	// Parent, when set (and CSV is active in the family), lets RandomTx give inputs BIP68 relative locks that
	// are satisfied exactly at the boundary in a block built on Parent (height- and time-based).
	Parent *refchain.Block
}

// RandomTx builds and signs a transaction spending 1..MaxIn of the given coins (chosen at random)
// into 1..MaxOut outputs of random kinds. It returns the tx, the indices of the coins used and the fee.
func (g *Gen) RandomTx(r *mon.Rand, avail []Spendable, o TxOpts) (*wire.MsgTx, []int, int64) {
	if len(avail) == 0 {
		return nil, nil, 0
	}
	if o.MaxIn == 0 {
		o.MaxIn = 3
	}
	if o.MaxOut == 0 {
		o.MaxOut = 3
	}
	nin := 1 + r.Intn(min(o.MaxIn, len(avail)))
	perm := r.Perm(len(avail))[:nin]
	tx := wire.NewMsgTx(1)
	if o.Version != 0 {
		tx.Version = o.Version
	} else if r.Chance(1, 2) {
		tx.Version = 2
	}
	tx.LockTime = o.LockTime
	var prev []refchain.Coin
	var total int64
	for _, i := range perm {
		seq := uint32(0xffffffff)
		if o.Sequence != 0 {
			seq = o.Sequence
		} else if o.Parent != nil && g.Witness && o.LockTime == 0 && r.Chance(1, 3) {
			hc := avail[i].Coin.Height
			newHeight := o.Parent.Height + 1
			if hc >= 1 && hc <= o.Parent.Height {
				if r.Bool() {
					if n := newHeight - hc; n >= 0 && n <= 0xffff {
						seq = uint32(n) // height-based lock met exactly at this height
						tx.Version = 2
					}
				} else if anc := o.Parent.Ancestor(hc - 1); anc != nil {
					units := (o.Parent.MTP() - anc.MTP()) / 512
					if units >= 0 && units <= 0xffff {
						seq = 1<<22 | uint32(units) // time-based lock met exactly at the parent's median time
						tx.Version = 2
					}
				}
			}
		}
		tx.AddTxIn(&wire.TxIn{PreviousOutPoint: avail[i].Op, Sequence: seq})
		prev = append(prev, avail[i].Coin)
		total += avail[i].Coin.Amount
	}
	feeMax := o.FeeMax
	if feeMax == 0 {
		feeMax = 20000
	}
	fee := r.Int63n(feeMax + 1)
	if fee > total {
		fee = total
	}
	rest := total - fee
	nout := 1 + r.Intn(o.MaxOut)
	for j := 0; j < nout; j++ {
		var v int64
		if j == nout-1 {
			v = rest
		} else {
			v = r.Int63n(rest/2 + 1)
		}
		rest -= v
		kind := g.RandomKind(r)
		if v == 0 && r.Chance(1, 2) {
			kind = KOpReturn
		}
		pk := g.Script(kind, r.Intn(len(g.keys)), r)
		if !g.StandardOnly && r.Chance(1, 14) {
			// a script that does not parse (a push running past its end): valid in an output, never spendable
			pk = [][]byte{{0x4c}, {0x4b, 0x01}, {0x4d, 0xff}, {0x02, 0x01}, {0x51, 0x4e, 0x01, 0x00, 0x00}, {0xac, 0x05, 0x01, 0x02}}[r.Intn(6)]
		} else if !g.StandardOnly && r.Chance(1, 14) {
			// near misses of the script templates that the utxo database stores in a compressed form: they parse, stay
			// in the utxo set (nobody here spends them) and must come back from the database byte for byte
			k := g.keys[r.Intn(len(g.keys))]
			unc := k.PubKey().SerializeUncompressed()
			switch r.Intn(6) {
			case 0: // pay-to-pubkey, uncompressed, x on the curve but the wrong y
				unc[40+r.Intn(20)] ^= byte(1 + r.Intn(255))
				pk = append(append([]byte{0x41}, unc...), 0xac)
			case 1: // the same with the hybrid prefixes
				unc[0] = byte(6 + r.Intn(2))
				pk = append(append([]byte{0x41}, unc...), 0xac)
			case 2: // compressed form whose x is not on the curve
				c := k.PubKey().SerializeCompressed()
				for i := 0; i < 8; i++ {
					c[1+r.Intn(32)] ^= byte(1 + r.Intn(255))
				}
				pk = append(append([]byte{0x21}, c...), 0xac)
			case 3: // pay-to-pubkey-hash with a 19-byte hash
				pk = append(append([]byte{0x76, 0xa9, 0x13}, r.Bytes(19)...), 0x88, 0xac)
			case 4: // pay-to-script-hash followed by one more opcode
				pk = append(append([]byte{0xa9, 0x14}, r.Bytes(20)...), 0x87, 0x61)
			default: // compressed pay-to-pubkey with a prefix that is no key type
				c := k.PubKey().SerializeCompressed()
				c[0] = byte(4 + r.Intn(2))
				pk = append(append([]byte{0x21}, c...), 0xac)
			}
		}
		tx.AddTxOut(&wire.TxOut{Value: v, PkScript: pk})
	}
	if err := g.SignTx(tx, prev); err != nil {
		panic(err)
	}
	return tx, perm, fee
}

// ---------------------------------------------------------------------------------------------
// block assembly (own code)

func dsha(b []byte) [32]byte {
	a := sha256.Sum256(b)
	return sha256.Sum256(a[:])
}

// MerkleRoot over leaves, duplicating the last entry of odd levels; zero hash for no leaves.
func MerkleRoot(leaves [][32]byte) [32]byte {
	if len(leaves) == 0 {
		return [32]byte{}
	}
	cur := append([][32]byte(nil), leaves...)
	for len(cur) > 1 {
		var next [][32]byte
		for i := 0; i < len(cur); i += 2 {
			l, rr := cur[i], cur[i]
			if i+1 < len(cur) {
				rr = cur[i+1]
			}
			next = append(next, dsha(append(append([]byte{}, l[:]...), rr[:]...)))
		}
		cur = next
	}
	return cur[0]
}

// HeightPush is the BIP34 minimal script-number push of the height.
func HeightPush(h int32) []byte {
	if h == 0 {
		return []byte{0x00}
	}
	if h >= 1 && h <= 16 {
		return []byte{0x50 + byte(h)}
	}
	var b []byte
	v := uint32(h)
	for v > 0 {
		b = append(b, byte(v))
		v >>= 8
	}
	if b[len(b)-1]&0x80 != 0 {
		b = append(b, 0)
	}
	return append([]byte{byte(len(b))}, b...)
}

// HasWitness reports whether any input carries witness data.
func HasWitness(tx *wire.MsgTx) bool {
	for _, in := range tx.TxIn {
		if len(in.Witness) > 0 {
			return true
		}
	}
	return false
}

// WitnessCommitmentScript computes the BIP141 commitment output script for the given txs (tx[0] = coinbase).
func WitnessCommitmentScript(txs []*wire.MsgTx, nonce [32]byte) []byte {
	leaves := make([][32]byte, len(txs))
	for i, t := range txs {
		if i == 0 {
			continue
		}
		leaves[i] = [32]byte(t.WitnessHash())
	}
	root := MerkleRoot(leaves)
	c := dsha(append(append([]byte{}, root[:]...), nonce[:]...))
	return append([]byte{0x6a, 0x24, 0xaa, 0x21, 0xa9, 0xed}, c[:]...)
}

// RequiredBits is the difficulty the block after parent must carry at time ts (own implementation of
// the retarget rules needed by the parameter families).
func (g *Gen) RequiredBits(parent *refchain.Block, ts int64) uint32 {
	p := g.P
	if p.PoWNoRetargeting {
		return p.PowLimitBits
	}
	interval := int32(p.TargetTimespan / p.TargetTimePerBlock)
	if (parent.Height+1)%interval != 0 {
		if p.ReduceMinDifficulty {
			if ts > parent.Msg.Header.Timestamp.Unix()+int64(p.MinDiffReductionTime/time.Second) {
				return p.PowLimitBits
			}
			n := parent
			for n != nil && n.Height%interval != 0 && n.Msg.Header.Bits == p.PowLimitBits {
				n = n.Parent
			}
			if n == nil {
				return p.PowLimitBits
			}
			return n.Msg.Header.Bits
		}
		return parent.Msg.Header.Bits
	}
	first := parent.Ancestor(parent.Height - (interval - 1))
	span := parent.Msg.Header.Timestamp.Unix() - first.Msg.Header.Timestamp.Unix()
	tt := int64(p.TargetTimespan / time.Second)
	if span < tt/p.RetargetAdjustmentFactor {
		span = tt / p.RetargetAdjustmentFactor
	}
	if span > tt*p.RetargetAdjustmentFactor {
		span = tt * p.RetargetAdjustmentFactor
	}
	old, _ := refchain.CompactToTarget(parent.Msg.Header.Bits)
	if p.EnforceBIP94 {
		old, _ = refchain.CompactToTarget(first.Msg.Header.Bits)
	}
	nt := new(big.Int).Mul(old, big.NewInt(span))
	nt.Div(nt, big.NewInt(tt))
	if nt.Cmp(p.PowLimit) > 0 {
		nt.Set(p.PowLimit)
	}
	return TargetToCompact(nt)
}

// TargetToCompact encodes a positive target in compact form (definition: base-256 floating point with a
// 3-byte mantissa whose top bit is a sign bit).
func TargetToCompact(t *big.Int) uint32 {
	if t.Sign() == 0 {
		return 0
	}
	b := t.Bytes()
	size := uint32(len(b))
	var mant uint32
	if size <= 3 {
		mant = uint32(t.Uint64()) << (8 * (3 - size))
	} else {
		mant = uint32(b[0])<<16 | uint32(b[1])<<8 | uint32(b[2])
	}
	if mant&0x00800000 != 0 {
		mant >>= 8
		size++
	}
	return size<<24 | mant
}

// Solve finds a nonce (and bumps the timestamp-independent extra fields no further) so the header hash meets bits.
func Solve(h *wire.BlockHeader) {
	target, _ := refchain.CompactToTarget(h.Bits)
	for n := uint32(0); ; n++ {
		h.Nonce = n
		hash := h.BlockHash()
		if HashLEQ(hash, target) {
			return
		}
		if n == 0xffffffff {
			panic("chaingen: nonce space exhausted")
		}
	}
}

// HashLEQ: the hash, read as a little-endian 256-bit integer, is <= target.
func HashLEQ(hash chainhash.Hash, target *big.Int) bool {
	var be [32]byte
	for i := 0; i < 32; i++ {
		be[i] = hash[31-i]
	}
	return new(big.Int).SetBytes(be[:]).Cmp(target) <= 0
}

// BlockOpts steer Block.
type BlockOpts struct {
	NTx          int           // number of non-coinbase txs; -1 = random 0..MaxTx
	Easy         bool          // varwork family: use the min-difficulty exception (timestamp > parent + 20 min)
	TimeStep     int64         // seconds after the parent timestamp (0 = family default)
	Version      int32         // 0 = 0x20000000
	Txs          []*wire.MsgTx // explicit non-coinbase transactions (valid in order on parent); overrides NTx
	TxOpts       TxOpts
	CoinbaseKind Kind
	ShortPay     int64 // pay this much less than subsidy+fees in the coinbase
	Name         string
	Detached     bool  // do not insert the block into the tree
	FixedTime    int64 // exact timestamp (overrides TimeStep / family defaults)
	// Finish, when set, may alter the assembled block before merkle/commitment/solve are (re)computed;
	// it returns the label of the result.
	Mutate func(b *Draft)
	Label  refchain.Validity
	Rule   string
}

// Draft is a block under assembly, handed to BlockOpts.Mutate.
type Draft struct {
	G       *Gen
	Parent  *refchain.Block
	Height  int32
	Msg     *wire.MsgBlock
	Fees    int64
	Subsidy int64
	// SkipFix* let a mutation keep a deliberately wrong field.
	SkipMerkle, SkipCommitment, SkipSolve bool
	// Label / Rule of the result; a mutation may change them (initialised from BlockOpts).
	Label refchain.Validity
	Rule  string
}

// Wallet returns the generator's spendable coins after block b (creation order), with coin data.
func (g *Gen) Wallet(b *refchain.Block) []Spendable {
	e := b.Ext.(*ext)
	set := b.Utxo()
	out := make([]Spendable, 0, len(e.wallet))
	for _, op := range e.wallet {
		c, ok := set[op]
		if !ok {
			panic("chaingen: wallet entry not in model utxo set")
		}
		out = append(out, Spendable{Op: op, Coin: c})
	}
	return out
}

// Mature filters coins spendable in a block at the given height.
func (g *Gen) Mature(coins []Spendable, height int32) []Spendable {
	var out []Spendable
	for _, c := range coins {
		if c.Coin.Coinbase && height-c.Coin.Height < int32(g.P.CoinbaseMaturity) {
			continue
		}
		out = append(out, c)
	}
	return out
}

// NextTime picks a valid timestamp for a child of parent.
func (g *Gen) NextTime(r *mon.Rand, parent *refchain.Block, o *BlockOpts) int64 {
	pt := parent.Msg.Header.Timestamp.Unix()
	mtp := parent.MTP()
	var ts int64
	switch {
	case o.TimeStep != 0:
		ts = pt + o.TimeStep
	case g.Family == node.FamVarWork && o.Easy:
		ts = pt + 1201 + r.Int63n(600)
	case g.Family == node.FamVarWork:
		ts = pt + 1 + r.Int63n(1200)
	default:
		ts = pt + 300 + r.Int63n(600)
	}
	if ts <= mtp {
		ts = mtp + 1
	}
	return ts
}

// Block builds (and adds to the tree) a child of parent.
func (g *Gen) Block(r *mon.Rand, parent *refchain.Block, o BlockOpts) *refchain.Block {
	height := parent.Height + 1
	var txs []*wire.MsgTx
	var fees int64
	pext := parent.Ext.(*ext)
	wallet := append([]wire.OutPoint(nil), pext.wallet...)
	spent := map[wire.OutPoint]bool{}
	var created []Spendable
	if parent.ChainValid() {
		if o.Txs != nil {
			// explicit transactions: compute fees from the model
			set := parent.Utxo()
			tmp := map[wire.OutPoint]refchain.Coin{}
			for _, tx := range o.Txs {
				var in, out int64
				for _, ti := range tx.TxIn {
					c, ok := set[ti.PreviousOutPoint]
					if !ok {
						c, ok = tmp[ti.PreviousOutPoint]
					}
					if ok {
						in += c.Amount
					}
					spent[ti.PreviousOutPoint] = true
				}
				h := tx.TxHash()
				for i, to := range tx.TxOut {
					out += to.Value
					c := refchain.Coin{Amount: to.Value, PkScript: to.PkScript, Height: height}
					tmp[wire.OutPoint{Hash: h, Index: uint32(i)}] = c
					if g.CanSpend(to.PkScript) {
						created = append(created, Spendable{Op: wire.OutPoint{Hash: h, Index: uint32(i)}, Coin: c})
					}
				}
				fees += in - out
				txs = append(txs, tx)
			}
		} else {
			ntx := o.NTx
			if ntx < 0 {
				ntx = r.Intn(g.MaxTx + 1)
			}
			avail := g.Mature(g.Wallet(parent), height)
			topts := o.TxOpts
			topts.Parent = parent
			for t := 0; t < ntx && len(avail) > 0; t++ {
				tx, used, fee := g.RandomTx(r, avail, topts)
				if tx == nil {
					break
				}
				usedSet := map[int]bool{}
				for _, i := range used {
					usedSet[i] = true
					spent[avail[i].Op] = true
				}
				var na []Spendable
				for i, a := range avail {
					if !usedSet[i] {
						na = append(na, a)
					}
				}
				avail = na
				h := tx.TxHash()
				for i, to := range tx.TxOut {
					if g.CanSpend(to.PkScript) {
						s := Spendable{Op: wire.OutPoint{Hash: h, Index: uint32(i)},
							Coin: refchain.Coin{Amount: to.Value, PkScript: to.PkScript, Height: height}}
						created = append(created, s)
						if r.Chance(2, 3) {
							avail = append(avail, s) // spendable later in this same block
						}
					}
				}
				fees += fee
				txs = append(txs, tx)
			}
		}
	}
	ts := g.NextTime(r, parent, &o)
	if o.FixedTime != 0 {
		ts = o.FixedTime
	}
	subsidy := refchain.Subsidy(height, g.P.SubsidyReductionInterval)
	cb := wire.NewMsgTx(1)
	sig := append(HeightPush(height), 0x08)
	sig = append(sig, r.Bytes(8)...)
	cb.AddTxIn(&wire.TxIn{PreviousOutPoint: wire.OutPoint{Index: 0xffffffff}, SignatureScript: sig, Sequence: 0xffffffff})
	cbKind := o.CoinbaseKind
	if cbKind == 0 {
		cbKind = KTrue
		if g.StandardOnly || r.Chance(1, 3) {
			cbKind = g.RandomKind(r)
		}
	}
	cb.AddTxOut(&wire.TxOut{Value: subsidy + fees - o.ShortPay, PkScript: g.Script(cbKind, r.Intn(len(g.keys)), r)})
	msg := &wire.MsgBlock{Header: wire.BlockHeader{Version: 0x20000000, PrevBlock: parent.Hash,
		Timestamp: time.Unix(ts, 0)}}
	if o.Version != 0 {
		msg.Header.Version = o.Version
	}
	msg.Transactions = append([]*wire.MsgTx{cb}, txs...)
	d := &Draft{G: g, Parent: parent, Height: height, Msg: msg, Fees: fees, Subsidy: subsidy, Label: o.Label, Rule: o.Rule}
	msg.Header.Bits = g.RequiredBits(parent, ts)
	d.Finalize(false)
	if o.Mutate != nil {
		o.Mutate(d)
		d.Finalize(true)
	}
	label, rule := d.Label, d.Rule
	if g.ClockNow != 0 && msg.Header.Timestamp.Unix() > g.ClockNow+7200 && !(label == refchain.InvalidEarly && len(rule) > 3 && rule[:3] == "hs:") {
		// header sanity is checked before everything else: a too-new timestamp dominates any other defect
		label, rule = refchain.InvalidEarly, "hs:time-too-new"
	}
	name := o.Name
	if name == "" {
		g.names++
		name = fmt.Sprintf("b%d", g.names)
	}
	var nb *refchain.Block
	if o.Detached {
		nb = g.Tree.Detached(name, msg, parent, label, rule)
	} else {
		nb = g.Tree.Add(name, msg, parent, label, rule)
	}
	// wallet after this block (only meaningful on valid chains): the parent's wallet minus everything the final
	// transaction list spends, plus every spendable output the final list creates and does not spend itself
	e := &ext{}
	if nb.ChainValid() {
		allSpent := map[wire.OutPoint]bool{}
		for i, tx := range msg.Transactions {
			if i == 0 {
				continue
			}
			for _, ti := range tx.TxIn {
				allSpent[ti.PreviousOutPoint] = true
			}
		}
		for _, op := range wallet {
			if !allSpent[op] {
				e.wallet = append(e.wallet, op)
			}
		}
		for i, tx := range msg.Transactions {
			if i == 0 {
				continue
			}
			h := tx.TxHash()
			for j, to := range tx.TxOut {
				op := wire.OutPoint{Hash: h, Index: uint32(j)}
				if g.CanSpend(to.PkScript) && !allSpent[op] {
					e.wallet = append(e.wallet, op)
				}
			}
		}
		cbh := msg.Transactions[0].TxHash()
		for i, to := range msg.Transactions[0].TxOut {
			if g.CanSpend(to.PkScript) {
				e.wallet = append(e.wallet, wire.OutPoint{Hash: cbh, Index: uint32(i)})
			}
		}
	}
	nb.Ext = e
	return nb
}

// Finalize (re)computes witness commitment, merkle root and proof of work unless a Skip flag is set.
func (d *Draft) Finalize(afterMutation bool) {
	msg := d.Msg
	if !d.SkipCommitment {
		need := false
		for _, t := range msg.Transactions[1:] {
			if HasWitness(t) {
				need = true
			}
		}
		cb := msg.Transactions[0]
		// drop an existing commitment output (always the last one we added)
		if n := len(cb.TxOut); n > 1 && len(cb.TxOut[n-1].PkScript) == 38 && cb.TxOut[n-1].PkScript[0] == 0x6a && cb.TxOut[n-1].PkScript[2] == 0xaa {
			cb.TxOut = cb.TxOut[:n-1]
			cb.TxIn[0].Witness = nil
		}
		if need && d.G.Witness {
			var nonce [32]byte
			cb.TxIn[0].Witness = wire.TxWitness{nonce[:]}
			cb.AddTxOut(&wire.TxOut{Value: 0, PkScript: WitnessCommitmentScript(msg.Transactions, nonce)})
		}
	}
	if !d.SkipMerkle {
		leaves := make([][32]byte, len(msg.Transactions))
		for i, t := range msg.Transactions {
			leaves[i] = [32]byte(t.TxHash())
		}
		msg.Header.MerkleRoot = chainhash.Hash(MerkleRoot(leaves))
	}
	if !d.SkipSolve {
		Solve(&msg.Header)
	}
}

// Adopt inserts a block that was produced elsewhere (e.g. a solved block template) under parent, which must
// be valid on that parent, and derives the generator's wallet after it.
func (g *Gen) Adopt(name string, msg *wire.MsgBlock, parent *refchain.Block) *refchain.Block {
	nb := g.Tree.Add(name, msg, parent, refchain.Valid, "")
	e := &ext{}
	spent := map[wire.OutPoint]bool{}
	for _, tx := range msg.Transactions[1:] {
		for _, ti := range tx.TxIn {
			spent[ti.PreviousOutPoint] = true
		}
	}
	for _, op := range parent.Ext.(*ext).wallet {
		if !spent[op] {
			e.wallet = append(e.wallet, op)
		}
	}
	for ti, tx := range msg.Transactions {
		h := tx.TxHash()
		for i, to := range tx.TxOut {
			op := wire.OutPoint{Hash: h, Index: uint32(i)}
			if g.CanSpend(to.PkScript) && !spent[op] && !(ti == 0 && false) {
				e.wallet = append(e.wallet, op)
			}
		}
	}
	nb.Ext = e
	return nb
}
