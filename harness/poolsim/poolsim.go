// Package poolsim drives a full node (chain + mempool + netsync handler + mining) with transaction and
// block histories and evaluates the mempool / template invariants of properties C10 and C12 at every
// quiescent point. All observations go through public getters plus the H3 snapshot hook.
package poolsim

import (
	"bytes"
	"errors"
	"fmt"
	"os"
	"sort"
	"strings"

	"verif/gen/chaingen"
	"verif/mon"
	"verif/node"
	"verif/ref/refacct"
	"verif/ref/refchain"

	"github.com/btcsuite/btcd/blockchain"
	"github.com/btcsuite/btcd/btcutil/v2"
	"github.com/btcsuite/btcd/chainhash/v2"
	"github.com/btcsuite/btcd/mempool"
	"github.com/btcsuite/btcd/mining"
	"github.com/btcsuite/btcd/wire/v2"
)

// PS is one full-node lifetime.
type PS struct {
	K   *mon.Case
	R   *mon.Rand
	G   *chaingen.Gen
	F   *node.Full
	Dir string
	Tip *refchain.Block

	Ops    []string
	Failed bool
	// MinableOK is false from the first disconnect until the pool is empty again (the property's
	// "height and median time have not moved backwards since admission" precondition).
	MinableOK bool
	// Known: every transaction the harness ever built, by hash.
	Known map[chainhash.Hash]*wire.MsgTx
	// Withheld parents (built, not yet submitted) whose children were submitted as orphans.
	Withheld []*wire.MsgTx
	// NonFinalSubmitted: a non-final transaction was offered (known-defect family bookkeeping).
	NonFinalSubmitted bool
	nblk              int
	// PayScript, when set, makes MineTemplate ask for a template paying to the address of this script (nil: the
	// generator's anyone-can-spend default). A pay-to-pubkey(-hash) script gives the coinbase a sigop cost of its own.
	PayScript []byte
}

// New opens a full node in a fresh directory with the clock following the chain tip.
func New(k *mon.Case, g *chaingen.Gen, cfg node.Config, mp mempool.Policy, mine mining.Policy) (*PS, error) {
	base := os.Getenv("VERIF_WORKDIR")
	if base == "" {
		base = os.TempDir()
	}
	dir, err := os.MkdirTemp(base, "full-")
	if err != nil {
		return nil, err
	}
	cfg.Params = g.P
	clock := node.NewClock(node.GenesisTime + 600)
	f, err := node.OpenFull(dir, cfg, clock, mp, mine)
	if err != nil {
		os.RemoveAll(dir)
		return nil, err
	}
	return &PS{K: k, R: k.Rand, G: g, F: f, Dir: dir, Tip: g.Tree.Genesis, MinableOK: true, Known: map[chainhash.Hash]*wire.MsgTx{}}, nil
}

func (p *PS) Destroy() {
	if p.F != nil {
		p.F.CloseNoFlush()
	}
	os.RemoveAll(p.Dir)
}

func (p *PS) op(format string, a ...any) { p.Ops = append(p.Ops, fmt.Sprintf(format, a...)) }

// Fail records a violation with the operation history.
func (p *PS) Fail(key, format string, a ...any) {
	p.Failed = true
	h := p.Ops
	if len(h) > 300 {
		h = h[len(h)-300:]
	}
	p.K.Violation(key, fmt.Sprintf(format, a...)+"\nhistory: "+strings.Join(h, " ; "), nil)
}

// ---------------------------------------------------------------------------------------------
// chain operations

// Extend mines an ordinary generator block (with its own fresh transactions, unrelated to the pool unless
// include/conflict are given) on the tip and delivers it.
func (p *PS) DeliverBlock(b *refchain.Block) {
	ts := b.Msg.Header.Timestamp.Unix()
	if p.F.Clock.Now() < ts {
		p.F.Clock.Set(ts + 1)
	}
	oldTip := p.Tip
	isMain, isOrphan, err := p.F.Chain.ProcessBlock(btcutil.NewBlock(b.Msg), blockchain.BFNone)
	p.op("blk(%s,h%d,%dtx)", b.Name, b.Height, len(b.Msg.Transactions)-1)
	if err != nil || isOrphan {
		p.Fail("chain:valid-block-refused", "block %s refused: main=%v orphan=%v err=%v", b.Name, isMain, isOrphan, err)
		return
	}
	// model tip: most work, current on ties
	if b.CumWork.Cmp(p.Tip.CumWork) > 0 {
		p.Tip = b
	}
	if refchain.Fork(oldTip, p.Tip) != oldTip {
		p.MinableOK = false
		p.K.Count("chain.reorg", 1)
	}
	snap := p.F.Chain.BestSnapshot()
	if snap.Hash != p.Tip.Hash {
		p.Fail("chain:tip", "tip is %v height %d, model %s height %d", snap.Hash, snap.Height, p.Tip.Name, p.Tip.Height)
	}
	p.K.Count("op.block", 1)
}

// Base builds the initial chain.
func (p *PS) Base(n int) {
	for i := 0; i < n && !p.Failed; i++ {
		b := p.G.Block(p.R, p.Tip, chaingen.BlockOpts{NTx: -1})
		p.DeliverBlock(b)
	}
}

// ---------------------------------------------------------------------------------------------
// pool observation

// View is what the public getters and the snapshot hook report at a quiescent point.
type View struct {
	Descs   map[chainhash.Hash]*mempool.TxDesc
	Snap    *mempool.VerifSnapshot
	Orphans map[chainhash.Hash]int
}

func (p *PS) View() *View {
	v := &View{Descs: map[chainhash.Hash]*mempool.TxDesc{}}
	for _, d := range p.F.Pool.TxDescs() {
		v.Descs[*d.Tx.Hash()] = d
	}
	v.Snap = p.F.Pool.VerifSnapshot()
	v.Orphans = v.Snap.Orphans
	return v
}

func sameView(a, b *View) string {
	if len(a.Descs) != len(b.Descs) {
		return fmt.Sprintf("pool size %d -> %d", len(a.Descs), len(b.Descs))
	}
	for h := range a.Descs {
		if _, ok := b.Descs[h]; !ok {
			return fmt.Sprintf("pooled tx %v disappeared", h)
		}
	}
	if len(a.Orphans) != len(b.Orphans) {
		return fmt.Sprintf("orphan count %d -> %d", len(a.Orphans), len(b.Orphans))
	}
	for h := range a.Orphans {
		if _, ok := b.Orphans[h]; !ok {
			return fmt.Sprintf("orphan %v disappeared", h)
		}
	}
	if len(a.Snap.Outpoints) != len(b.Snap.Outpoints) {
		return fmt.Sprintf("spend index size %d -> %d", len(a.Snap.Outpoints), len(b.Snap.Outpoints))
	}
	return ""
}

// topo orders the pooled transactions so that parents precede children.
func topo(descs map[chainhash.Hash]*mempool.TxDesc) []*wire.MsgTx {
	var hashes []chainhash.Hash
	for h := range descs {
		hashes = append(hashes, h)
	}
	sort.Slice(hashes, func(i, j int) bool { return strings.Compare(hashes[i].String(), hashes[j].String()) < 0 })
	done := map[chainhash.Hash]bool{}
	var out []*wire.MsgTx
	var visit func(h chainhash.Hash, depth int)
	visit = func(h chainhash.Hash, depth int) {
		if done[h] || depth > 10000 {
			return
		}
		done[h] = true
		tx := descs[h].Tx.MsgTx()
		for _, in := range tx.TxIn {
			if _, ok := descs[in.PreviousOutPoint.Hash]; ok {
				visit(in.PreviousOutPoint.Hash, depth+1)
			}
		}
		out = append(out, tx)
	}
	for _, h := range hashes {
		visit(h, 0)
	}
	return out
}

// CheckInvariants evaluates I1-I4 and I7 on the current pool.
func (p *PS) CheckInvariants(what string) *View {
	v := p.View()
	pool := p.F.Pool
	// I1 / I3: every input of every pooled tx is recorded in the spend index as spent by that tx, nothing else is
	want := map[wire.OutPoint]chainhash.Hash{}
	for h, d := range v.Descs {
		for _, in := range d.Tx.MsgTx().TxIn {
			if other, dup := want[in.PreviousOutPoint]; dup {
				p.Fail("I1:double-spend-in-pool", "%s: pooled transactions %v and %v both spend %v", what, other, h, in.PreviousOutPoint)
				return v
			}
			want[in.PreviousOutPoint] = h
		}
	}
	if len(want) != len(v.Snap.Outpoints) {
		p.Fail("I3:spend-index-size", "%s: spend index has %d entries, pooled transactions have %d inputs", what, len(v.Snap.Outpoints), len(want))
		return v
	}
	for op, h := range want {
		if got, ok := v.Snap.Outpoints[op]; !ok || got != h {
			p.Fail("I3:spend-index-entry", "%s: spend index entry for %v is %v, pooled spender is %v", what, op, got, h)
			return v
		}
		if sp := pool.CheckSpend(op); sp == nil || *sp.Hash() != h {
			p.Fail("I3:CheckSpend", "%s: CheckSpend(%v) does not return the pooled spender %v", what, op, h)
			return v
		}
	}
	if pool.Count() != len(v.Descs) || len(v.Snap.Pool) != len(v.Descs) {
		p.Fail("I3:count", "%s: Count %d, TxDescs %d, internal pool %d", what, pool.Count(), len(v.Descs), len(v.Snap.Pool))
	}
	for h := range v.Descs {
		if !pool.IsTransactionInPool(&h) || !pool.HaveTransaction(&h) {
			p.Fail("I3:membership", "%s: %v listed by TxDescs but IsTransactionInPool/HaveTransaction deny it", what, h)
		}
		if _, err := pool.FetchTransaction(&h); err != nil {
			p.Fail("I3:FetchTransaction", "%s: FetchTransaction(%v): %v", what, h, err)
		}
	}
	// I2: every input is unspent in the chain or created by a pooled tx
	for h, d := range v.Descs {
		for _, in := range d.Tx.MsgTx().TxIn {
			if parent, ok := v.Descs[in.PreviousOutPoint.Hash]; ok {
				if int(in.PreviousOutPoint.Index) >= len(parent.Tx.MsgTx().TxOut) {
					p.Fail("I2:bad-index", "%s: pooled %v spends nonexistent output of pooled parent", what, h)
				}
				continue
			}
			e, err := p.F.Chain.FetchUtxoEntry(in.PreviousOutPoint)
			if err != nil || e == nil || e.IsSpent() {
				p.Fail("I2:input-unavailable", "%s: pooled %v spends %v which is neither unspent in the chain nor created in the pool", what, h, in.PreviousOutPoint)
				return v
			}
		}
	}
	// I7: orphan bounds and index consistency
	pol := p.F.MemPolicy
	if len(v.Orphans) > pol.MaxOrphanTxs {
		p.Fail(fmt.Sprintf("I7:orphan-count:max=%d", min(pol.MaxOrphanTxs, 1)), "%s: %d orphans stored, MaxOrphanTxs = %d", what, len(v.Orphans), pol.MaxOrphanTxs)
	}
	for h, sz := range v.Orphans {
		if sz > pol.MaxOrphanTxSize {
			p.Fail("I7:orphan-size", "%s: orphan %v has %d bytes, limit %d", what, h, sz, pol.MaxOrphanTxSize)
		}
		if !pool.IsOrphanInPool(&h) {
			p.Fail("I7:orphan-membership", "%s: orphan %v not reported by IsOrphanInPool", what, h)
		}
		if _, ok := v.Descs[h]; ok {
			p.Fail("I7:orphan-and-pooled", "%s: %v is both an orphan and pooled", what, h)
		}
	}
	for op, hs := range v.Snap.OrphansByPrev {
		for _, h := range hs {
			if _, ok := v.Orphans[h]; !ok {
				p.Fail("I7:orphansByPrev-dangling", "%s: orphan dependency index lists %v (for %v) which is not an orphan", what, h, op)
			}
		}
	}
	for h := range v.Orphans {
		tx := p.Known[h]
		if tx == nil {
			continue
		}
		for _, in := range tx.TxIn {
			found := false
			for _, x := range v.Snap.OrphansByPrev[in.PreviousOutPoint] {
				if x == h {
					found = true
				}
			}
			if !found {
				p.Fail("I7:orphansByPrev-missing", "%s: orphan %v input %v missing from the dependency index", what, h, in.PreviousOutPoint)
			}
		}
	}
	// I4: minable in dependency order
	if p.MinableOK && len(v.Descs) > 0 {
		p.checkMinable(what, v)
	}
	if len(v.Descs) == 0 {
		p.MinableOK = true
	}
	p.K.Count("check.invariants", 1)
	return v
}

func (p *PS) checkMinable(what string, v *View) {
	txs := topo(v.Descs)
	// a pool may hold more than one block can carry: the probe block takes the longest prefix (in dependency order, so
	// it is closed under dependencies) that fits the consensus capacity limits, computed independently
	set := p.Tip.Utxo()
	created := map[wire.OutPoint]*wire.TxOut{}
	var cost, weight int64 = 0, 4000
	for i, tx := range txs {
		var prevScripts [][]byte
		for _, ti := range tx.TxIn {
			if c, ok := set[ti.PreviousOutPoint]; ok {
				prevScripts = append(prevScripts, c.PkScript)
			} else if o, ok := created[ti.PreviousOutPoint]; ok {
				prevScripts = append(prevScripts, o.PkScript)
			} else {
				prevScripts = append(prevScripts, nil)
			}
		}
		var buf bytes.Buffer
		tx.Serialize(&buf)
		if rt, perr := refacct.ParseTx(buf.Bytes()); perr == nil {
			cost += int64(refacct.TransactionSigOpCost(rt, prevScripts, true, true))
			weight += rt.Weight()
		}
		if cost > 80000 || weight > 4000000 {
			txs = txs[:i]
			p.K.Count("check.minable_capacity_prefix", 1)
			break
		}
		h := tx.TxHash()
		for j, to := range tx.TxOut {
			created[wire.OutPoint{Hash: h, Index: uint32(j)}] = to
		}
	}
	if len(txs) == 0 {
		return
	}
	now := p.F.Clock.Now()
	mtp := p.Tip.MTP()
	ts := now
	if ts <= mtp {
		ts = mtp + 1
	}
	blk := p.G.Block(p.R.Fork(), p.Tip, chaingen.BlockOpts{Txs: txs, Detached: true, Name: "pool-probe", FixedTime: ts, CoinbaseKind: chaingen.KTrue})
	err := p.F.Chain.CheckConnectBlockTemplate(btcutil.NewBlock(blk.Msg))
	p.K.Count("check.minable", 1)
	if err != nil {
		var re blockchain.RuleError
		code := "non-rule-error"
		if errors.As(err, &re) {
			code = re.ErrorCode.String()
		}
		p.Fail("I4:pool-not-minable:"+code, "%s: the pooled set (%d txs, dependency order) is not valid in the next block: %v", what, len(txs), err)
	}
}
