package poolsim

import (
	"bytes"
	"fmt"
	"time"

	"verif/gen/chaingen"
	"verif/ref/refacct"
	"verif/ref/refchain"

	"github.com/btcsuite/btcd/address/v2"
	"github.com/btcsuite/btcd/blockchain"
	"github.com/btcsuite/btcd/btcutil/v2"
	"github.com/btcsuite/btcd/chainhash/v2"
	"github.com/btcsuite/btcd/mempool"
	"github.com/btcsuite/btcd/txscript/v2"
	"github.com/btcsuite/btcd/wire/v2"
)

// Coins returns what a new pool transaction may spend: mature confirmed generator coins that no pooled tx
// spends, and (when unconfirmed is set) spendable outputs of pooled transactions that no pooled tx spends.
func (p *PS) Coins(v *View, unconfirmed bool) []chaingen.Spendable {
	var out []chaingen.Spendable
	for _, c := range p.G.Mature(p.G.Wallet(p.Tip), p.Tip.Height+1) {
		if _, spent := v.Snap.Outpoints[c.Op]; !spent {
			out = append(out, c)
		}
	}
	if unconfirmed {
		for _, tx := range topo(v.Descs) {
			h := tx.TxHash()
			for i, to := range tx.TxOut {
				op := wire.OutPoint{Hash: h, Index: uint32(i)}
				if _, spent := v.Snap.Outpoints[op]; spent || !p.G.CanSpend(to.PkScript) {
					continue
				}
				out = append(out, chaingen.Spendable{Op: op, Coin: refchain.Coin{Amount: to.Value, PkScript: to.PkScript, Height: p.Tip.Height + 1}})
			}
		}
	}
	return out
}

// TxSpec describes a transaction to build.
type TxSpec struct {
	In       []chaingen.Spendable
	Fee      int64
	NOut     int
	Signal   bool // BIP125 opt-in (sequence 0xfffffffd)
	LockTime uint32
	Sequence uint32 // explicit sequence (overrides Signal)
	Version  int32
	Pad      int // extra OP_RETURN payload bytes
	// ExtraOut are appended (before signing) as they are, e.g. bare scripts carrying signature operations
	ExtraOut []*wire.TxOut
}

// Build assembles and signs the transaction.
func (p *PS) Build(s TxSpec) *wire.MsgTx {
	tx := wire.NewMsgTx(2)
	if s.Version != 0 {
		tx.Version = s.Version
	}
	tx.LockTime = s.LockTime
	var prev []refchain.Coin
	var total int64
	for _, c := range s.In {
		seq := uint32(0xffffffff)
		if s.Signal {
			seq = 0xfffffffd
		}
		if s.Sequence != 0 {
			seq = s.Sequence
		}
		tx.AddTxIn(&wire.TxIn{PreviousOutPoint: c.Op, Sequence: seq})
		prev = append(prev, c.Coin)
		total += c.Coin.Amount
	}
	rest := total - s.Fee
	if rest < 0 {
		rest = 0
	}
	n := s.NOut
	if n < 1 {
		n = 2
	}
	for i := 0; i < n; i++ {
		v := rest / int64(n-i)
		rest -= v
		kind := p.G.RandomKind(p.R)
		tx.AddTxOut(&wire.TxOut{Value: v, PkScript: p.G.Script(kind, p.R.Intn(4), p.R)})
	}
	for _, o := range s.ExtraOut {
		tx.AddTxOut(o)
	}
	if s.Pad > 0 {
		d := p.R.Bytes(s.Pad)
		pk := append([]byte{0x6a, 0x4c, byte(len(d))}, d...)
		tx.AddTxOut(&wire.TxOut{Value: 0, PkScript: pk})
	}
	if err := p.G.SignTx(tx, prev); err != nil {
		panic(err)
	}
	p.Known[tx.TxHash()] = tx
	return tx
}

// Outcome of a submission.
type Outcome struct {
	Accepted []*mempool.TxDesc
	Orphaned bool
	Err      error
	Before   *View
	After    *View
}

func (o *Outcome) InPool(h chainhash.Hash) bool { _, ok := o.After.Descs[h]; return ok }

// Submit offers tx through ProcessTransaction (or MaybeAcceptTransaction) and checks the state-transition
// clauses of the property (I5, I6) plus all invariants.
func (p *PS) Submit(tx *wire.MsgTx, allowOrphan bool, via string, before *View) *Outcome {
	if before == nil {
		before = p.View()
	}
	h := tx.TxHash()
	o := &Outcome{Before: before}
	p.op("%s(%s)", via, h.String()[:8])
	switch via {
	case "maybe":
		missing, d, err := p.F.Pool.MaybeAcceptTransaction(btcutil.NewTx(tx), true, false)
		o.Err = err
		if d != nil {
			o.Accepted = []*mempool.TxDesc{d}
		}
		if err == nil && len(missing) > 0 {
			o.Orphaned = false // MaybeAccept never stores orphans
		}
	default:
		acc, err := p.F.Pool.ProcessTransaction(btcutil.NewTx(tx), allowOrphan, false, 0)
		o.Accepted, o.Err = acc, err
		o.Orphaned = err == nil && len(acc) == 0
	}
	p.K.Count("op.submit", 1)
	o.After = p.CheckInvariants(via)
	if p.Failed {
		return o
	}
	_, wasPooled := before.Descs[h]
	_, isPooled := o.After.Descs[h]
	switch {
	case o.Err != nil:
		p.K.Count("submit.rejected", 1)
		if d := sameView(before, o.After); d != "" {
			p.Fail("I5:rejected-submission-changed-pool", "rejected %s of %v (%v) changed the pool: %s", via, h, o.Err, d)
		}
	case len(o.Accepted) > 0:
		p.K.Count("submit.accepted", 1)
		if !isPooled {
			p.Fail("accept:not-pooled", "%s reported %v accepted but it is not in the pool", via, h)
		}
		p.checkReplacement(tx, before, o.After)
		for _, d := range o.Accepted[1:] {
			p.K.Count("submit.orphans_promoted", 1)
			if _, ok := o.After.Descs[*d.Tx.Hash()]; !ok {
				p.Fail("accept:promoted-orphan-not-pooled", "orphan %v reported accepted but not pooled", d.Tx.Hash())
			}
		}
	default:
		// no error, nothing accepted: stored as an orphan (ProcessTransaction) or reported missing parents (MaybeAccept)
		p.K.Count("submit.orphan", 1)
		if isPooled != wasPooled {
			p.Fail("orphan:pool-changed", "orphan submission of %v changed pool membership", h)
		}
		if via != "maybe" && allowOrphan {
			if _, ok := o.After.Orphans[h]; !ok && p.F.MemPolicy.MaxOrphanTxs > 0 && tx.SerializeSize() <= p.F.MemPolicy.MaxOrphanTxSize {
				p.Fail("orphan:not-stored", "orphan %v was neither rejected nor stored", h)
			}
		}
	}
	return o
}

// checkReplacement: when an accepted tx displaced pooled transactions, the evicted set must be exactly its
// conflicts and their descendants (at most 100), and the fee rules must hold.
func (p *PS) checkReplacement(tx *wire.MsgTx, before, after *View) {
	h := tx.TxHash()
	evicted := map[chainhash.Hash]*mempool.TxDesc{}
	for bh, d := range before.Descs {
		if _, ok := after.Descs[bh]; !ok {
			evicted[bh] = d
		}
	}
	// direct conflicts per the snapshot taken before
	want := map[chainhash.Hash]bool{}
	for _, in := range tx.TxIn {
		if sp, ok := before.Snap.Outpoints[in.PreviousOutPoint]; ok {
			want[sp] = true
		}
	}
	// descendants
	changed := true
	for changed {
		changed = false
		for bh, d := range before.Descs {
			if want[bh] {
				continue
			}
			for _, in := range d.Tx.MsgTx().TxIn {
				if want[in.PreviousOutPoint.Hash] {
					want[bh] = true
					changed = true
					break
				}
			}
		}
	}
	if len(want) == 0 && len(evicted) == 0 {
		return
	}
	p.K.Count("replacement.accepted", 1)
	if len(want) > 1 {
		p.K.Count("replacement.with_descendants", 1)
	}
	for bh := range want {
		if _, ok := evicted[bh]; !ok {
			p.Fail("I6:conflict-not-evicted", "replacement %v accepted but conflicting/descendant %v is still pooled", h, bh)
			return
		}
	}
	for bh := range evicted {
		if !want[bh] {
			p.Fail("I6:evicted-non-conflict", "replacement %v evicted %v which is neither a conflict nor a descendant of one", h, bh)
			return
		}
	}
	if len(evicted) > 100 {
		p.Fail("I6:too-many-evictions", "replacement %v evicted %d transactions", h, len(evicted))
	}
	nd := after.Descs[h]
	if nd == nil {
		return
	}
	size := mempool.GetTxVirtualSize(nd.Tx)
	var evFees int64
	for bh, d := range evicted {
		evFees += d.Fee
		// strictly higher fee rate than each evicted transaction: fee/size > d.Fee/dsize  <=>  fee*dsize > d.Fee*size
		ds := mempool.GetTxVirtualSize(d.Tx)
		if nd.Fee*ds <= d.Fee*size {
			p.Fail("I6:feerate-not-higher", "replacement %v (fee %d, vsize %d) does not pay a strictly higher fee rate than evicted %v (fee %d, vsize %d)", h, nd.Fee, size, bh, d.Fee, ds)
			return
		}
	}
	minRelay := int64(p.F.MemPolicy.MinRelayTxFee) * size / 1000
	if nd.Fee < evFees+minRelay {
		p.Fail("I6:absolute-fee", "replacement %v pays %d, evicted fees %d + relay fee %d", h, nd.Fee, evFees, minRelay)
	}
}

// checkMerkle compares the header's merkle root with an own computation over the block's transactions.
func (p *PS) checkMerkle(blk *wire.MsgBlock, what string) {
	leaves := make([][32]byte, len(blk.Transactions))
	for i, t := range blk.Transactions {
		leaves[i] = [32]byte(t.TxHash())
	}
	if [32]byte(blk.Header.MerkleRoot) != chaingen.MerkleRoot(leaves) {
		p.Fail("template:merkle-root-after-update", "%s: the header's merkle root does not commit to the block's transactions", what)
	}
}

// bumpOne replaces one pooled transaction that signals replaceability and has no pooled descendants by a copy
// paying a higher fee (same inputs, one output less value). Reports whether a replacement was accepted.
func (p *PS) bumpOne() bool {
	v := p.View()
	for _, tx := range topo(v.Descs) {
		d := v.Descs[tx.TxHash()]
		signals := false
		for _, in := range tx.TxIn {
			if in.Sequence <= 0xfffffffd {
				signals = true
			}
		}
		h := tx.TxHash()
		hasChild := false
		for op := range v.Snap.Outpoints {
			if op.Hash == h {
				hasChild = true
			}
		}
		if !signals || hasChild || len(tx.TxOut) == 0 {
			continue
		}
		// rebuild with the same inputs: coin data from the chain or the pool
		var in []chaingen.Spendable
		ok := true
		for _, ti := range tx.TxIn {
			if e, err := p.F.Chain.FetchUtxoEntry(ti.PreviousOutPoint); err == nil && e != nil && !e.IsSpent() {
				in = append(in, chaingen.Spendable{Op: ti.PreviousOutPoint, Coin: refchain.Coin{Amount: e.Amount(), PkScript: e.PkScript(), Height: e.BlockHeight(), Coinbase: e.IsCoinBase()}})
			} else if pd, okp := v.Descs[ti.PreviousOutPoint.Hash]; okp {
				to := pd.Tx.MsgTx().TxOut[ti.PreviousOutPoint.Index]
				in = append(in, chaingen.Spendable{Op: ti.PreviousOutPoint, Coin: refchain.Coin{Amount: to.Value, PkScript: to.PkScript}})
			} else {
				ok = false
			}
		}
		if !ok {
			continue
		}
		for _, c := range in {
			if !p.G.CanSpend(c.Coin.PkScript) {
				ok = false
			}
		}
		if !ok {
			continue
		}
		nt := p.Build(TxSpec{In: in, Fee: d.Fee + 20000 + int64(p.R.Intn(20000)), NOut: len(tx.TxOut), Signal: true})
		o := p.Submit(nt, false, "process", v)
		return o.Err == nil && len(o.Accepted) > 0
	}
	return false
}

// CheckAcceptance calls CheckMempoolAcceptance: it must never change the pool.
func (p *PS) CheckAcceptance(tx *wire.MsgTx) error {
	before := p.View()
	_, err := p.F.Pool.CheckMempoolAcceptance(btcutil.NewTx(tx))
	p.op("testaccept(%s)", tx.TxHash().String()[:8])
	after := p.View()
	if d := sameView(before, after); d != "" {
		p.Fail("I5:CheckMempoolAcceptance-changed-pool", "CheckMempoolAcceptance changed the pool: %s", d)
	}
	p.K.Count("op.testaccept", 1)
	return err
}

// ---------------------------------------------------------------------------------------------
// C12: template checks

// TemplateResult carries a solved template.
type TemplateResult struct {
	Tmpl  *blockMsg
	Block *refchain.Block
}
type blockMsg = wire.MsgBlock

// MineTemplate asks for a template, checks every clause of C12 against independent computations, solves it,
// submits it and adopts it into the model.
func (p *PS) MineTemplate(expectSuccess bool) {
	v := p.View()
	step := int64(300 + p.R.Intn(600))
	p.F.Clock.Set(p.F.Clock.Now() + step)
	p.op("template(pool=%d)", len(v.Descs))
	var payTo address.Address
	if p.PayScript != nil {
		_, addrs, _, aerr := txscript.ExtractPkScriptAddrs(p.PayScript, p.G.P)
		if aerr != nil || len(addrs) != 1 {
			p.K.Failf("harness:pay-address", "cannot derive an address from %x: %v", p.PayScript, aerr)
			return
		}
		payTo = addrs[0]
		p.K.Count("template.pay_address", 1)
	}
	// now and then a first template on this tip is generated, gets its extra nonce rolled and is thrown away, and a
	// pooled transaction is replaced by a fee bump (same tip, same transaction count, different transaction) before the
	// template that is actually mined is generated: whatever the generator remembers between calls must not leak
	if p.R.Chance(1, 4) {
		if t0, err0 := p.F.Gen.NewBlockTemplate(payTo); err0 == nil {
			if err := p.F.Gen.UpdateExtraNonce(t0.Block, p.Tip.Height+1, p.R.Uint64()>>uint(p.R.Intn(60))); err != nil {
				p.Fail("template:UpdateExtraNonce", "UpdateExtraNonce on a discarded template: %v", err)
				return
			}
			p.checkMerkle(t0.Block, "discarded template after UpdateExtraNonce")
			if p.bumpOne() {
				p.K.Count("template.regenerated_after_fee_bump", 1)
			}
			p.K.Count("template.discarded_first", 1)
			if p.Failed {
				return
			}
			v = p.View()
		}
	}
	tmpl, err := p.F.Gen.NewBlockTemplate(payTo)
	p.K.Count("op.template", 1)
	if err != nil {
		if expectSuccess && p.MinableOK {
			p.Fail("template:generation-failed", "NewBlockTemplate failed although every pooled transaction was admitted on the current chain: %v", err)
		} else {
			p.K.Count("template.failed_expected", 1)
		}
		return
	}
	blk := tmpl.Block
	height := p.Tip.Height + 1
	if tmpl.Height != height || blk.Header.PrevBlock != p.Tip.Hash {
		p.Fail("template:wrong-parent", "template height %d prev %v; tip %s height %d", tmpl.Height, blk.Header.PrevBlock, p.Tip.Name, p.Tip.Height)
		return
	}
	if len(tmpl.Fees) != len(blk.Transactions) || len(tmpl.SigOpCosts) != len(blk.Transactions) {
		p.Fail("template:accounting-length", "Fees/SigOpCosts lengths %d/%d for %d transactions", len(tmpl.Fees), len(tmpl.SigOpCosts), len(blk.Transactions))
		return
	}
	// dependency order + independent fees / sigop costs
	set := p.Tip.Utxo()
	created := map[wire.OutPoint]*wire.TxOut{}
	seen := map[wire.OutPoint]bool{}
	var totalFees, totalSigops, weight int64
	var shape []string // per-transaction weight (w = carries witness data), for violation reports
	hasWitness := false
	for i, tx := range blk.Transactions {
		var prevScripts [][]byte
		var in int64
		if i > 0 {
			if _, ok := v.Descs[tx.TxHash()]; !ok {
				p.Fail("template:foreign-tx", "template contains %v which is not pooled", tx.TxHash())
				return
			}
			for _, ti := range tx.TxIn {
				if seen[ti.PreviousOutPoint] {
					p.Fail("template:double-spend", "template spends %v twice", ti.PreviousOutPoint)
					return
				}
				seen[ti.PreviousOutPoint] = true
				if c, ok := set[ti.PreviousOutPoint]; ok {
					in += c.Amount
					prevScripts = append(prevScripts, c.PkScript)
				} else if o, ok := created[ti.PreviousOutPoint]; ok {
					in += o.Value
					prevScripts = append(prevScripts, o.PkScript)
				} else {
					p.Fail("template:order", "transaction %d (%v) spends %v which is neither confirmed nor created by an earlier template transaction", i, tx.TxHash(), ti.PreviousOutPoint)
					return
				}
			}
			if chaingen.HasWitness(tx) {
				hasWitness = true
			}
		}
		var out int64
		h := tx.TxHash()
		for j, to := range tx.TxOut {
			out += to.Value
			created[wire.OutPoint{Hash: h, Index: uint32(j)}] = to
		}
		var buf bytes.Buffer
		tx.Serialize(&buf)
		rt, perr := refacct.ParseTx(buf.Bytes())
		if perr != nil {
			p.K.Failf("calibration:refacct-parse", "reference parser refused a template transaction: %v", perr)
			return
		}
		cost := int64(refacct.TransactionSigOpCost(rt, prevScripts, true, true))
		weight += rt.Weight()
		if chaingen.HasWitness(tx) {
			shape = append(shape, fmt.Sprintf("%dw", rt.Weight()))
		} else {
			shape = append(shape, fmt.Sprintf("%d", rt.Weight()))
		}
		totalSigops += cost
		if tmpl.SigOpCosts[i] != cost {
			p.Fail("template:sigopcost", "SigOpCosts[%d] = %d, independent count %d (tx %v)", i, tmpl.SigOpCosts[i], cost, h)
			return
		}
		if i > 0 {
			fee := in - out
			totalFees += fee
			if tmpl.Fees[i] != fee {
				p.Fail("template:fee", "Fees[%d] = %d, inputs-outputs = %d (tx %v)", i, tmpl.Fees[i], fee, h)
				return
			}
		}
	}
	if tmpl.Fees[0] != -totalFees {
		p.Fail("template:coinbase-fee-entry", "Fees[0] = %d, want %d", tmpl.Fees[0], -totalFees)
	}
	cb := blk.Transactions[0]
	var cbOut int64
	for _, to := range cb.TxOut {
		cbOut += to.Value
	}
	subsidy := refchain.Subsidy(height, p.G.P.SubsidyReductionInterval)
	if iv := p.G.P.SubsidyReductionInterval; iv > 0 && height%iv == 0 {
		p.K.Count("template.first_block_of_halving_epoch", 1)
	}
	if cbOut != subsidy+totalFees {
		p.Fail("template:coinbase-value", "coinbase pays %d, subsidy %d + fees %d", cbOut, subsidy, totalFees)
	}
	// limits: consensus and policy
	weight += 80*4 + int64(wire.VarIntSerializeSize(uint64(len(blk.Transactions))))*4
	pol := p.F.MinePolicy
	p.K.Count(fmt.Sprintf("template.sigop_cost_decile.%d", totalSigops/8000), 1)
	if totalSigops >= 79990 {
		p.K.Count("template.sigops_at_limit", 1)
	}
	if weight > 4000000 || totalSigops > 80000 {
		p.Fail("template:consensus-limits", "template weight %d sigops %d", weight, totalSigops)
	}
	if weight > int64(pol.BlockMaxWeight) {
		p.Fail("template:policy-max-weight", "template weight %d exceeds policy BlockMaxWeight %d (transaction weights %v)", weight, pol.BlockMaxWeight, shape)
	}
	// witness commitment (own merkle code)
	if hasWitness {
		last := cb.TxOut[len(cb.TxOut)-1]
		var nonce [32]byte
		if len(cb.TxIn[0].Witness) != 1 || !bytes.Equal(cb.TxIn[0].Witness[0], nonce[:]) {
			p.Fail("template:witness-nonce", "coinbase witness nonce missing")
		}
		want := chaingen.WitnessCommitmentScript(blk.Transactions, nonce)
		if !bytes.Equal(last.PkScript, want) || !bytes.Equal(tmpl.WitnessCommitment, want[6:]) {
			p.Fail("template:witness-commitment", "witness commitment %x / reported %x, independent %x", last.PkScript, tmpl.WitnessCommitment, want)
		}
		p.K.Count("template.with_witness", 1)
	} else if tmpl.WitnessCommitment != nil {
		// a commitment without witness transactions is harmless but not expected
		p.K.Count("template.commitment_without_witness", 1)
	}
	// merkle root
	leaves := make([][32]byte, len(blk.Transactions))
	for i, t := range blk.Transactions {
		leaves[i] = [32]byte(t.TxHash())
	}
	if [32]byte(blk.Header.MerkleRoot) != chaingen.MerkleRoot(leaves) {
		p.Fail("template:merkle-root", "template merkle root differs from the independent computation")
	}
	if p.Failed {
		return
	}
	// update time / extra nonce keep it valid
	if p.R.Bool() {
		jump := int64(p.R.Intn(120))
		bitsBefore := blk.Header.Bits
		if p.G.P.ReduceMinDifficulty && p.R.Bool() {
			// carry the template across the point where the minimum-difficulty exception starts to apply
			jump += int64(p.G.P.MinDiffReductionTime/time.Second) + 1
		}
		p.F.Clock.Set(p.F.Clock.Now() + jump)
		if err := p.F.Gen.UpdateBlockTime(blk); err != nil {
			p.Fail("template:UpdateBlockTime", "UpdateBlockTime: %v", err)
		}
		p.K.Count("template.update_time", 1)
		if blk.Header.Bits != bitsBefore {
			p.K.Count("template.update_time_across_min_difficulty_boundary", 1)
		}
	}
	if p.R.Bool() {
		if err := p.F.Gen.UpdateExtraNonce(blk, height, p.R.Uint64()>>uint(p.R.Intn(60))); err != nil {
			p.Fail("template:UpdateExtraNonce", "UpdateExtraNonce: %v", err)
		}
		p.checkMerkle(blk, "template after UpdateExtraNonce")
		p.K.Count("template.update_extranonce", 1)
	}
	chaingen.Solve(&blk.Header)
	nb := p.G.Adopt(fmt.Sprintf("t%d", height), blk, p.Tip)
	isMain, isOrphan, err := p.F.Chain.ProcessBlock(btcutil.NewBlock(blk), blockchain.BFNone)
	if err != nil || isOrphan || !isMain {
		p.Fail("template:solved-template-refused", "ProcessBlock refused the solved template: main=%v orphan=%v err=%v", isMain, isOrphan, err)
		return
	}
	p.Tip = nb
	p.K.Count("template.mined", 1)
	p.K.Count("template.txs", int64(len(blk.Transactions)-1))
	after := p.CheckInvariants("after-template-block")
	for _, tx := range blk.Transactions[1:] {
		if _, ok := after.Descs[tx.TxHash()]; ok {
			p.Fail("confirmed-tx-still-pooled", "transaction %v confirmed by the template block is still pooled", tx.TxHash())
		}
	}
}
