package mon
