//go:build !race

package mon

// RaceEnabled reports whether this worker was built with -race.
const RaceEnabled = false
