package mon

import (
	"hash/fnv"
	"math/bits"
)

// Rand is a private xoshiro256** PRNG; no worker uses math/rand or the wall clock for choices.
type Rand struct{ s [4]uint64 }

func splitmix(x *uint64) uint64 {
	*x += 0x9e3779b97f4a7c15
	z := *x
	z = (z ^ (z >> 30)) * 0xbf58476d1ce4e5b9
	z = (z ^ (z >> 27)) * 0x94d049bb133111eb
	return z ^ (z >> 31)
}

// NewRand derives a generator from (seed, name, index).
func NewRand(seed int64, name string, index int64) *Rand {
	h := fnv.New64a()
	h.Write([]byte(name))
	x := uint64(seed)*0x9e3779b97f4a7c15 ^ h.Sum64() ^ (uint64(index)+1)*0xd1342543de82ef95
	r := &Rand{}
	for i := range r.s {
		r.s[i] = splitmix(&x)
	}
	return r
}

// Fork derives an independent child generator.
func (r *Rand) Fork() *Rand {
	x := r.Uint64()
	c := &Rand{}
	for i := range c.s {
		c.s[i] = splitmix(&x)
	}
	return c
}

func (r *Rand) Uint64() uint64 {
	s := &r.s
	res := bits.RotateLeft64(s[1]*5, 7) * 9
	t := s[1] << 17
	s[2] ^= s[0]
	s[3] ^= s[1]
	s[1] ^= s[2]
	s[0] ^= s[3]
	s[2] ^= t
	s[3] = bits.RotateLeft64(s[3], 45)
	return res
}

func (r *Rand) Uint32() uint32 { return uint32(r.Uint64() >> 32) }
func (r *Rand) Int63() int64   { return int64(r.Uint64() >> 1) }

// Intn returns a value in [0,n). n must be > 0.
func (r *Rand) Intn(n int) int {
	if n <= 0 {
		panic("mon.Rand.Intn: n <= 0")
	}
	return int(r.Uint64() % uint64(n))
}

// Int63n returns a value in [0,n).
func (r *Rand) Int63n(n int64) int64 {
	if n <= 0 {
		panic("mon.Rand.Int63n: n <= 0")
	}
	return int64(r.Uint64() % uint64(n))
}

// Range returns a value in [lo,hi] inclusive.
func (r *Rand) Range(lo, hi int) int { return lo + r.Intn(hi-lo+1) }

func (r *Rand) Bool() bool { return r.Uint64()&1 == 1 }

// Chance is true with probability num/den.
func (r *Rand) Chance(num, den int) bool { return r.Intn(den) < num }

func (r *Rand) Float64() float64 { return float64(r.Uint64()>>11) / (1 << 53) }

// Bytes returns n random bytes.
func (r *Rand) Bytes(n int) []byte {
	b := make([]byte, n)
	r.Fill(b)
	return b
}

// Fill fills b with random bytes.
func (r *Rand) Fill(b []byte) {
	for i := 0; i < len(b); {
		v := r.Uint64()
		for j := 0; j < 8 && i < len(b); j++ {
			b[i] = byte(v)
			v >>= 8
			i++
		}
	}
}

// Read implements io.Reader (never fails).
func (r *Rand) Read(b []byte) (int, error) { r.Fill(b); return len(b), nil }

// Perm returns a random permutation of [0,n).
func (r *Rand) Perm(n int) []int {
	p := make([]int, n)
	for i := range p {
		p[i] = i
	}
	for i := n - 1; i > 0; i-- {
		j := r.Intn(i + 1)
		p[i], p[j] = p[j], p[i]
	}
	return p
}

// Pick returns a random element index weighted by w.
func (r *Rand) PickW(w []int) int {
	t := 0
	for _, x := range w {
		t += x
	}
	v := r.Intn(t)
	for i, x := range w {
		if v < x {
			return i
		}
		v -= x
	}
	return len(w) - 1
}

// Boundary returns a value biased to the boundaries of [0, limit]: 0, 1, limit-1, limit,
// limit+1, or uniform in [0, limit+1].
func (r *Rand) Boundary(limit int64) int64 {
	switch r.Intn(8) {
	case 0:
		return 0
	case 1:
		return 1
	case 2:
		return limit - 1
	case 3:
		return limit
	case 4:
		return limit + 1
	default:
		return r.Int63n(limit + 2)
	}
}

// EdgeU64 returns 64-bit values biased toward powers of two, all-ones patterns and small numbers.
func (r *Rand) EdgeU64() uint64 {
	switch r.Intn(10) {
	case 0:
		return uint64(r.Intn(4))
	case 1:
		return ^uint64(0) - uint64(r.Intn(4))
	case 2:
		return (uint64(1) << uint(r.Intn(64))) - uint64(r.Intn(3)) + 1
	case 3:
		return uint64(1)<<uint(r.Intn(64)) + uint64(r.Intn(3))
	case 4:
		return r.Uint64() >> uint(r.Intn(64))
	case 5:
		return uint64(r.Uint32())
	case 6:
		return uint64(r.Intn(65536))
	default:
		return r.Uint64()
	}
}
