// Package mon is the shared worker-side plumbing of the verification framework:
// flags, the per-case PRNG, the "current case" sidecar that survives a process-fatal
// event, counters, distinct-case signatures, samples, violations and the JSON summary
// that the ./check orchestrator merges.
//
// A worker is structured as   mon.Main("Cxx", func(c *mon.Ctx) { ... })   and, inside,
// as families of cases:
//
//	c.Family("merkle", n, func(k *mon.Case) { r := k.Rand; ...; k.Eval(sig, nontrivial) })
//
// Every case has its own PRNG derived from (seed, family, global index), so a single
// case can be re-executed (replay) without running the ones before it. Cases are dealt
// to shards round-robin by global index.
package mon

import (
	"encoding/json"
	"flag"
	"fmt"
	"hash/fnv"
	"os"
	"runtime/debug"
	"sort"
	"strings"
	"sync"
	"time"
)

// Violation is one refutation of the property, with the information needed to replay it.
type Violation struct {
	// Key identifies WHAT fails (specific input / call site / history fingerprint); it is what
	// known_findings.json is matched against, so it must be stable across runs and seeds for
	// the same defect and differ for different defects.
	Key    string `json:"key"`
	Detail string `json:"detail"`
	Family string `json:"family"`
	Index  int64  `json:"index"`
	Seed   int64  `json:"seed"`
	Tier   string `json:"tier"`
	Case   any    `json:"case,omitempty"` // the concrete case (hex input, op list, history ...)
}

// Summary is what one worker process writes when it finishes.
type Summary struct {
	ID          string           `json:"id"`
	Shard       int              `json:"shard"`
	NShards     int              `json:"nshards"`
	Seed        int64            `json:"seed"`
	Tier        string           `json:"tier"`
	Evaluations int64            `json:"evaluations"`
	Counters    map[string]int64 `json:"counters"`
	Requires    map[string]int64 `json:"requires"` // counter -> minimum over all shards
	Samples     []any            `json:"samples"`
	Violations  []Violation      `json:"violations"`
	SigFile     string           `json:"sig_file"`
	SigsDropped int64            `json:"sigs_dropped"`
	Rule        string           `json:"rule"`
	Notes       []string         `json:"notes"`
	Exhaustive  bool             `json:"exhaustive"`
	Done        bool             `json:"done"`
	WallS       float64          `json:"wall_s"`
}

// Ctx is the per-process context.
type Ctx struct {
	ID      string
	Tier    string // "quick" | "thorough"
	Seed    int64
	Shard   int
	NShards int
	OutDir  string
	Scale   int // percent of the thorough case counts this variant explores (100 = all)

	// replay selection: when ReplayFamily != "" only that family/index is executed.
	ReplayFamily string
	ReplayIndex  int64

	mu       sync.Mutex
	sum      Summary
	sigs     map[uint64]struct{}
	sigCap   int
	caseFile *os.File
	start    time.Time
	maxViol  int
}

// Thorough reports whether the thorough tier was requested.
func (c *Ctx) Thorough() bool { return c.Tier == "thorough" }

// N picks a case count by tier.
func (c *Ctx) N(quick, thorough int64) int64 {
	n := quick
	if c.Thorough() {
		n = thorough
		// -tscale P (per variant, from checks/Cxx.json): this variant explores P percent of the thorough case counts
		// (never fewer than the quick tier does); used to size the slow race-detector variants
		if c.Scale > 0 && c.Scale < 100 {
			if n = thorough * int64(c.Scale) / 100; n < quick {
				n = quick
			}
		}
	}
	// development aid only (never set by the registered commands): cap every family's case count
	if v := os.Getenv("VERIF_DEV_N"); v != "" {
		var d int64
		fmt.Sscan(v, &d)
		if d > 0 && d < n {
			n = d
		}
	}
	return n
}

// Case is the handle a family body receives for one case.
type Case struct {
	C      *Ctx
	Family string
	Index  int64
	Rand   *Rand
	desc   any
}

// Main parses flags, runs body, writes the summary. It never returns.
func Main(id string, body func(c *Ctx)) {
	c := &Ctx{ID: id}
	var replay string
	flag.StringVar(&c.Tier, "tier", "quick", "quick|thorough")
	flag.Int64Var(&c.Seed, "seed", 1, "VERIF_SEED")
	flag.IntVar(&c.Shard, "shard", 0, "shard index")
	flag.IntVar(&c.NShards, "nshards", 1, "number of shards")
	flag.StringVar(&c.OutDir, "out", "", "output directory for summary / sidecars")
	flag.IntVar(&c.Scale, "tscale", 100, "percent of the thorough case counts to explore (thorough tier only)")
	flag.StringVar(&replay, "replay", "", "replay file (a violation JSON)")
	flag.Parse()
	// development aid only (never set by the registered commands): scale every thorough variant
	if v := os.Getenv("VERIF_DEV_SCALE"); v != "" && c.Scale == 100 {
		fmt.Sscan(v, &c.Scale)
	}
	if c.OutDir == "" {
		d, err := os.MkdirTemp("", "verif-"+id+"-")
		if err != nil {
			panic(err)
		}
		c.OutDir = d
	}
	os.MkdirAll(c.OutDir, 0o755)
	if replay != "" {
		b, err := os.ReadFile(replay)
		if err != nil {
			fmt.Fprintln(os.Stderr, "cannot read replay file:", err)
			os.Exit(2)
		}
		var v Violation
		if err := json.Unmarshal(b, &v); err != nil {
			fmt.Fprintln(os.Stderr, "bad replay file:", err)
			os.Exit(2)
		}
		c.ReplayFamily, c.ReplayIndex = v.Family, v.Index
		c.Seed, c.Tier = v.Seed, v.Tier
		c.Shard, c.NShards = 0, 1
	}
	c.sum = Summary{ID: id, Shard: c.Shard, NShards: c.NShards, Seed: c.Seed, Tier: c.Tier,
		Counters: map[string]int64{}, Requires: map[string]int64{}}
	c.sigs = map[uint64]struct{}{}
	c.sigCap = 400000
	c.maxViol = 40
	c.start = time.Now()
	f, err := os.OpenFile(fmt.Sprintf("%s/case_%d.txt", c.OutDir, c.Shard), os.O_CREATE|os.O_RDWR|os.O_TRUNC, 0o644)
	if err == nil {
		c.caseFile = f
	}
	if c.Thorough() && c.Scale > 0 && c.Scale < 100 {
		c.Note(fmt.Sprintf("this variant explores %d%% of the thorough case counts (-tscale %d)", c.Scale, c.Scale))
	}
	body(c)
	c.finish(true)
	if len(c.sum.Violations) > 0 {
		os.Exit(1)
	}
	os.Exit(0)
}

func (c *Ctx) finish(done bool) {
	c.mu.Lock()
	defer c.mu.Unlock()
	c.sum.Done = done
	c.sum.WallS = time.Since(c.start).Seconds()
	// signatures
	sf := fmt.Sprintf("%s/sigs_%d.bin", c.OutDir, c.Shard)
	buf := make([]byte, 0, 8*len(c.sigs))
	for s := range c.sigs {
		buf = append(buf, byte(s), byte(s>>8), byte(s>>16), byte(s>>24), byte(s>>32), byte(s>>40), byte(s>>48), byte(s>>56))
	}
	if os.WriteFile(sf, buf, 0o644) == nil {
		c.sum.SigFile = sf
	}
	b, _ := json.Marshal(&c.sum)
	tmp := fmt.Sprintf("%s/summary_%d.json.tmp", c.OutDir, c.Shard)
	os.WriteFile(tmp, b, 0o644)
	os.Rename(tmp, fmt.Sprintf("%s/summary_%d.json", c.OutDir, c.Shard))
}

// Rule sets the evidence "rule" text: how cases are generated and what makes one distinct / non-trivial.
func (c *Ctx) Rule(s string) { c.mu.Lock(); c.sum.Rule = s; c.mu.Unlock() }

// Note adds a free-text note to the evidence.
func (c *Ctx) Note(s string) { c.mu.Lock(); c.sum.Notes = append(c.sum.Notes, s); c.mu.Unlock() }

// Exhaustive marks that a finite sub-domain was enumerated completely (named in the note).
func (c *Ctx) Exhaustive(what string) {
	c.mu.Lock()
	c.sum.Notes = append(c.sum.Notes, "exhaustive sub-domain: "+what)
	c.mu.Unlock()
}

// Count adds n to a named coverage counter (merged by sum across shards).
func (c *Ctx) Count(name string, n int64) {
	c.mu.Lock()
	c.sum.Counters[name] += n
	c.mu.Unlock()
}

// Require declares that the counter must reach min over all shards, otherwise the run is
// INCONCLUSIVE (the monitor observed too little), never a pass.
func (c *Ctx) Require(name string, min int64) {
	c.mu.Lock()
	c.sum.Requires[name] = min
	c.mu.Unlock()
}

// Eval records one evaluated case with its structural signature.
func (c *Ctx) Eval(sig uint64, nontrivial bool) {
	c.mu.Lock()
	c.sum.Evaluations++
	if nontrivial {
		if len(c.sigs) < c.sigCap {
			c.sigs[sig] = struct{}{}
		} else if _, ok := c.sigs[sig]; !ok {
			c.sum.SigsDropped++
		}
	}
	c.mu.Unlock()
}

// EvalN records n evaluations that share nothing worth a signature (bulk exhaustive sweeps).
func (c *Ctx) EvalN(n int64) {
	c.mu.Lock()
	c.sum.Evaluations += n
	c.mu.Unlock()
}

// Sample keeps up to 6 samples per shard (the orchestrator keeps a few overall).
func (c *Ctx) Sample(v any) {
	c.mu.Lock()
	if len(c.sum.Samples) < 6 {
		c.sum.Samples = append(c.sum.Samples, v)
	}
	c.mu.Unlock()
}

// Violation records a refutation. key: see Violation.Key.
func (c *Ctx) Violation(family string, index int64, key, detail string, cs any) {
	c.mu.Lock()
	defer c.mu.Unlock()
	for _, v := range c.sum.Violations {
		if v.Key == key {
			c.sum.Counters["violations_dup_suppressed"]++
			return
		}
	}
	if len(c.sum.Violations) >= c.maxViol {
		c.sum.Counters["violations_overflow"]++
		return
	}
	c.sum.Violations = append(c.sum.Violations, Violation{Key: key, Detail: detail, Family: family, Index: index,
		Seed: c.Seed, Tier: c.Tier, Case: cs})
	// persist what is known so far: if the process dies later (fatal error, OOM, watchdog) the violations
	// recorded up to now are not lost (the orchestrator reads a summary with done=false as partial)
	if b, err := json.Marshal(&c.sum); err == nil {
		tmp := fmt.Sprintf("%s/summary_%d.json.tmp", c.OutDir, c.Shard)
		if os.WriteFile(tmp, b, 0o644) == nil {
			os.Rename(tmp, fmt.Sprintf("%s/summary_%d.json", c.OutDir, c.Shard))
		}
	}
}

// Family runs n cases of a family. Case i (global index) belongs to shard i % NShards.
// body panics are caught and reported as violations with key "panic:<family>:<first line>".
func (c *Ctx) Family(name string, n int64, body func(k *Case)) {
	for i := int64(0); i < n; i++ {
		if c.ReplayFamily != "" {
			if c.ReplayFamily != name || c.ReplayIndex != i {
				continue
			}
		} else if int(i%int64(c.NShards)) != c.Shard {
			continue
		}
		c.RunCase(name, i, body)
	}
}

// RunCase runs one case unconditionally (used by Family and by workers with their own loops).
func (c *Ctx) RunCase(name string, i int64, body func(k *Case)) {
	k := &Case{C: c, Family: name, Index: i, Rand: NewRand(c.Seed, name, i)}
	c.setCase(name, i, "")
	defer func() {
		if r := recover(); r != nil {
			st := string(debug.Stack())
			k.Violation("panic:"+name+":"+PanicSite(st), fmt.Sprintf("panic: %v\n%s", r, st), k.desc)
		}
	}()
	body(k)
}

// PanicSite extracts the first btcd (or other non-runtime, non-harness) frame of a stack
// as "func file:line"-less site, used to key panics by where they happen.
func PanicSite(stack string) string {
	lines := strings.Split(stack, "\n")
	seenPanic := false
	for i := 0; i+1 < len(lines); i++ {
		l := lines[i]
		if strings.HasPrefix(l, "panic(") {
			seenPanic = true
			continue
		}
		if !seenPanic {
			continue
		}
		if strings.HasPrefix(l, "runtime.") || strings.HasPrefix(l, "\t") || strings.HasPrefix(l, "runtime/") {
			continue
		}
		// function line like "github.com/btcsuite/btcd/blockchain.(*T).method(0x1, ...)"
		fn := l
		if q := strings.LastIndex(fn, "/"); q >= 0 {
			fn = fn[q+1:]
		}
		for p := 0; p < len(fn); p++ {
			if fn[p] == '(' && !(p+1 < len(fn) && fn[p+1] == '*') {
				fn = fn[:p]
				break
			}
		}
		if fn == "" || strings.HasPrefix(fn, "mon.") {
			continue
		}
		return fn
	}
	return "unknown"
}

func (c *Ctx) setCase(family string, i int64, extra string) {
	if c.caseFile == nil {
		return
	}
	s := fmt.Sprintf("%s %d seed=%d tier=%s %s\n", family, i, c.Seed, c.Tier, extra)
	b := []byte(s)
	if len(b) < 4096 {
		pad := make([]byte, 0, 256)
		for len(b)+len(pad) < 256 {
			pad = append(pad, ' ')
		}
		b = append(b, pad...)
	}
	c.caseFile.WriteAt(b, 0)
}

// Desc attaches the concrete case description (kept for violation reports) and writes it to the
// sidecar so that a process-fatal event still identifies its input. Call before invoking btcd.
func (k *Case) Desc(v any) {
	k.desc = v
	if k.C.caseFile != nil {
		b, _ := json.Marshal(v)
		if len(b) > 1<<16 {
			b = b[:1<<16]
		}
		k.C.setCase(k.Family, k.Index, string(b))
	}
}

// Eval: see Ctx.Eval.
func (k *Case) Eval(sig uint64, nontrivial bool) { k.C.Eval(sig, nontrivial) }

// Count: see Ctx.Count.
func (k *Case) Count(name string, n int64) { k.C.Count(name, n) }

// Violation records a refutation found in this case.
func (k *Case) Violation(key, detail string, cs any) {
	if cs == nil {
		cs = k.desc
	}
	k.C.Violation(k.Family, k.Index, key, detail, cs)
}

// Failf is Violation with a formatted detail.
func (k *Case) Failf(key string, format string, a ...any) {
	k.Violation(key, fmt.Sprintf(format, a...), nil)
}

// Sample: see Ctx.Sample.
func (k *Case) Sample(v any) { k.C.Sample(v) }

// Sig hashes any printable parts into a 64-bit signature.
func Sig(parts ...any) uint64 {
	h := fnv.New64a()
	for _, p := range parts {
		fmt.Fprintf(h, "%v|", p)
	}
	return h.Sum64()
}

// SigBytes hashes raw bytes.
func SigBytes(b []byte) uint64 {
	h := fnv.New64a()
	h.Write(b)
	return h.Sum64()
}

// SortedKeys returns the sorted keys of a counter map.
func SortedKeys(m map[string]int64) []string {
	ks := make([]string, 0, len(m))
	for k := range m {
		ks = append(ks, k)
	}
	sort.Strings(ks)
	return ks
}
